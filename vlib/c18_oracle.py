"""C18 — direct oracle of the property on the real implementation: every surgery operation is applied to random
small integer-coordinate meshes with random tags and checked with exact (Fraction) geometry against its input."""
from fractions import Fraction

import numpy as np

from .c17_meshes import mesh_json, rand_mesh1, rand_tags
from .c18_geom import F, cell_points, centroid, cols, cover_counts, facet_points, measures, valid



class Fail(Exception):
    def __init__(self, what, detail):
        super().__init__(what)
        self.what, self.detail = what, detail


def need(cond, what, detail=''):
    if not cond:
        raise Fail(what, detail() if callable(detail) else detail)


def tagged_mesh(name, rng, oriented=True, **kw):
    m = rand_mesh1(name, rng, integer=True, **kw)
    sub, bnd = rand_tags(m, rng, oriented=oriented, empty=True)
    return m.with_subdomains(sub).with_boundaries(bnd)


def total(ms):
    return sum(ms, Fraction(0))


def check_valid(M, what):
    ok, why = valid(M)
    need(ok, what + ':invalid-mesh', why)


# ------------------------------------------------------------------------------ operations

def op_restrict(m, rng, remove=False):
    nt = m.t.shape[1]
    k = int(rng.integers(1, nt + 1)) if not remove else int(rng.integers(0, nt))
    el = rng.choice(nt, size=k, replace=False).astype(np.int32)
    if rng.random() < 0.5 or remove:
        el = np.sort(el)
    if remove:
        M = m.remove_elements(el)
        kept = np.setdiff1d(np.arange(nt), el)
        ix = None
        what = 'remove_elements'
    else:
        sb, ss = bool(rng.random() < 0.3), bool(rng.random() < 0.3)
        M, ix = m.restrict(el, return_mapping=True, skip_boundaries=sb, skip_subdomains=ss)
        kept = el
        what = 'restrict'
        if sb or ss:
            # the skipped kind is absent (NOT the dictionary of the unrestricted mesh), the other kind is retagged as usual
            need(not sb or M.boundaries is None, what + ':skip_boundaries', lambda: f'boundaries = {M.boundaries}')
            need(not ss or M.subdomains is None, what + ':skip_subdomains', lambda: f'subdomains = {M.subdomains}')
            need(sb or (M.boundaries is None) == (m.boundaries is None), what + ':skip_subdomains-dropped-boundaries', '')
            need(ss or (M.subdomains is None) == (m.subdomains is None), what + ':skip_boundaries-dropped-subdomains', '')
            from dataclasses import replace
            m = replace(m, _boundaries=None if sb else m._boundaries, _subdomains=None if ss else m._subdomains)
    info = {'elements': el.tolist()}
    if not remove:
        info['skip'] = [sb, ss]
    check_valid(M, what)
    nv = m.elem.refdom.nnodes
    need(M.t.shape[1] == len(kept), what + ':cell-count', f'{M.t.shape[1]} != {len(kept)}')
    for i, k0 in enumerate(kept):
        need(cols(M.p, M.t[:nv, i]) == cols(m.p, m.t[:nv, k0]), what + ':cell-geometry',
             lambda: f'new cell {i} is not old cell {int(k0)}')
    if ix is not None:
        need(len(ix) == M.p.shape[1] and np.array_equal(M.p, m.p[:, ix]), what + ':vertex-map',
             'p_new[:, j] != p_old[:, ix[j]]')
    ms = measures(m)
    need(total(measures(M)) == total([ms[int(k0)] for k0 in kept]), what + ':measure', '')
    need(sorted(M.subdomains or {}) == sorted(m.subdomains or {}), what + ':subdomain-names', '')
    for nm, s in (m.subdomains or {}).items():
        want = cell_points(m, [c for c in np.asarray(s).tolist() if c in set(kept.tolist())])
        got_ix = np.asarray(M.subdomains[nm])
        need(got_ix.size == 0 or (got_ix.min() >= 0 and got_ix.max() < M.t.shape[1]), what + ':subdomain-index-range', nm)
        need(len(set(got_ix.tolist())) == len(got_ix), what + ':subdomain-duplicates', nm)
        need(cell_points(M, got_ix) == want and len(got_ix) == len(want), what + ':subdomain', lambda: f'{nm}: tagged cells differ')
    need(sorted(M.boundaries or {}) == sorted(m.boundaries or {}), what + ':boundary-names', '')
    keptf = set(np.unique(m.t2f[:, kept]).tolist())
    for nm, b in (m.boundaries or {}).items():
        want = facet_points(m, [f for f in np.asarray(b).tolist() if f in keptf])
        got_ix = np.asarray(M.boundaries[nm])
        need(got_ix.size == 0 or (got_ix.min() >= 0 and got_ix.max() < M.facets.shape[1]), what + ':boundary-index-range', nm)
        need(facet_points(M, got_ix) == want and len(set(got_ix.tolist())) == len(want), what + ':boundary',
             lambda: f'{nm}: tagged facets differ')
    return M, info


def op_remove(m, rng):
    return op_restrict(m, rng, remove=True)


def op_transform(m, rng):
    dim = m.p.shape[0]
    kind = ['scaled', 'translated', 'mirrored', 'morphed'][int(rng.integers(0, 4))]
    P = [[F(x) for x in row] for row in m.p.tolist()]
    if kind == 'scaled':
        fac = [float(rng.choice([-3, -2, -1, -0.5, 0.5, 1, 2, 3])) for _ in range(dim)]
        M = m.scaled(fac)
        want = [[F(fac[d]) * x for x in P[d]] for d in range(dim)]
        scale = abs(np.prod([Fraction(f) for f in fac]))
        info = {'factors': fac}
    elif kind == 'translated':
        dv = [float(rng.integers(-5, 6)) for _ in range(dim)]
        M = m.translated(dv)
        want = [[x + F(dv[d]) for x in P[d]] for d in range(dim)]
        scale = 1
        info = {'diffs': dv}
    elif kind == 'mirrored':
        ax = int(rng.integers(0, dim))
        nrm = tuple(float(k == ax) * float(rng.choice([-1, 1, 2])) for k in range(dim))
        pt = tuple(float(rng.integers(-3, 4)) for _ in range(dim))
        M = m.mirrored(nrm, pt) if rng.random() < 0.7 else m.mirrored(nrm)
        if M is not None and not np.array_equal(M.p[ax], 2 * pt[ax] - m.p[ax]):
            pt = (0.0,) * dim
        want = [[(2 * F(pt[d]) - x) if d == ax else x for x in P[d]] for d in range(dim)]
        scale = 1
        info = {'normal': nrm, 'point': pt}
    else:
        # every coordinate function must see the ORIGINAL coordinates: x' = x + a y, y' = y + b x (both at once)
        a, b = int(rng.integers(-2, 3)), int(rng.integers(-2, 3))
        if a * b == 1:
            b = 0
        d0, d1 = (0, 1) if dim == 2 else [int(x) for x in rng.choice(dim, size=2, replace=False)]
        fs = [None] * dim
        fs[d0] = lambda p, a=a, d0=d0, d1=d1: p[d0] + a * p[d1]
        fs[d1] = lambda p, b=b, d0=d0, d1=d1: p[d1] + b * p[d0]
        M = m.morphed(*fs)
        want = [[(x + a * P[d1][j]) if d == d0 else ((x + b * P[d0][j]) if d == d1 else x) for j, x in enumerate(P[d])]
                for d in range(dim)]
        scale = abs(1 - a * b)
        info = {'shear': [d0, d1, a, b]}
    what = kind
    got = [[F(x) for x in row] for row in M.p.tolist()]
    need(got == want, what + ':coordinates', 'p is not the transformed p')
    need(np.array_equal(M.t, m.t), what + ':t-changed', '')
    need(type(M) is type(m), what + ':class', '')
    for a, b in ((m.subdomains, M.subdomains), (m.boundaries, M.boundaries)):
        need((a is None) == (b is None) and (a is None or (sorted(a) == sorted(b) and all(
            np.array_equal(np.asarray(a[k]), np.asarray(b[k])) for k in a))), what + ':tags-changed', '')
    ma, mb = measures(m), measures(M)
    need(all(x is None or y is None or y == scale * x for x, y in zip(ma, mb)), what + ':measure',
         f'cell measures do not scale by {scale}')
    check_valid(M, what)
    info['kind'] = kind
    return M, info


def check_tiling(rng, parent, children, what, k):
    """random rational points of the (convex) parent: never in the interior of two children, always in the closure
    of at least one (points that happen to lie on an inner face are in no interior and in two closures: accepted)"""
    for _ in range(3):
        w = [Fraction(int(x)) for x in rng.integers(1, 50, size=len(parent))]
        tot = sum(w)
        x = tuple(sum(wi * v[d] for wi, v in zip(w, parent)) / tot for d in range(len(parent[0])))
        strict, closed = cover_counts(children, x)
        need(strict <= 1, what + ':children-overlap', f'a point of parent {k} lies inside {strict} children')
        need(closed >= 1, what + ':children-leave-gap', f'a point of parent {k} lies in no child')


def op_to_meshtri(m, rng):
    if m.boundaries and rng.random() < 0.4:                  # a tag that lists facets twice
        from dataclasses import replace
        nm = sorted(m.boundaries)[0]
        b = np.asarray(m.boundaries[nm])
        if len(b):
            m = replace(m, _boundaries={**m.boundaries, 'twice': np.concatenate([b, b[:2]]).astype(np.int32)})
    style = 'x' if rng.random() < 0.5 else None
    nt = m.t.shape[1]
    x = rng.integers(0, 100, size=nt).astype(float)
    M, X = m.to_meshtri(x, style=style)
    what = 'to_meshtri' + ('-x' if style else '')
    nch = 4 if style else 2
    check_valid(M, what)
    need(M.t.shape[1] == nch * nt, what + ':cell-count', '')
    need(np.array_equal(X, np.concatenate([x] * nch)), what + ':x-carry', '')
    ma, mb = measures(m), measures(M)
    for k in range(nt):
        par = cols(m.p, m.t[:, k])
        allowed = set(par) | {centroid(par)}
        ch = [k + j * nt for j in range(nch)]
        for c in ch:
            need(set(cols(M.p, M.t[:, c])) <= allowed, what + ':child-not-in-parent', f'child {c} of parent {k}')
        need(total([mb[c] for c in ch]) == ma[k], what + ':measure', f'children of parent {k} do not add up')
        check_tiling(rng, par, [cols(M.p, M.t[:, c]) for c in ch], what, k)
    need(sorted(M.subdomains or {}) == sorted(m.subdomains or {}), what + ':subdomain-names', '')
    for nm, s in (m.subdomains or {}).items():
        want = sorted(int(v) + j * nt for v in np.asarray(s).tolist() for j in range(nch))
        need(sorted(np.asarray(M.subdomains[nm]).tolist()) == want, what + ':subdomain', nm)
    need(sorted(M.boundaries or {}) == sorted(m.boundaries or {}), what + ':boundary-names', '')
    for nm, b in (m.boundaries or {}).items():
        g = M.boundaries[nm]
        need(np.asarray(g).dtype.kind in 'iu', what + ':boundary-dtype', nm)
        # entry by entry (stable increasing order of the old facet numbers; repeated entries stay repeated)
        order = np.argsort(np.asarray(b), kind='stable')
        need(len(g) == len(b), what + ':boundary', lambda: f'{nm}: {len(b)} entries -> {len(g)}')
        for j, k0 in enumerate(order):
            need(frozenset(cols(M.p, M.facets[:, int(g[j])])) == frozenset(cols(m.p, m.facets[:, int(b[k0])])),
                 what + ':boundary', lambda: f'{nm}: entry {j} designates another facet')
        if getattr(b, 'ori', None) is not None:
            go = getattr(g, 'ori', None)
            need(go is not None, what + ':orientation-dropped', nm)
            for j, k0 in enumerate(order):
                c = int(m.f2t[int(b.ori[k0]), int(b[k0])])
                need(int(M.f2t[int(go[j]), int(g[j])]) % nt == c, what + ':orientation-side',
                     lambda: f'{nm}: the tagged side of entry {j} is not a child of quadrilateral {c}')
    return M, {'style': style}


def op_to_meshtet(m, rng):
    nt = m.t.shape[1]
    M = m.to_meshtet()
    what = 'to_meshtet:' + type(m).__name__
    nch = M.t.shape[1] // nt
    need(M.t.shape[1] == nch * nt and nch == (6 if type(m).__name__.startswith('MeshHex') else 3), what + ':cell-count', '')
    check_valid(M, what)
    ma, mb = measures(m), measures(M)
    nv = m.elem.refdom.nnodes
    for k in range(nt):
        par = set(cols(m.p, m.t[:nv, k]))
        ch = [k + j * nt for j in range(nch)]
        for c in ch:
            need(set(cols(M.p, M.t[:, c])) <= par, what + ':child-not-in-parent', f'child {c} of parent {k}')
        if ma[k] is not None:
            need(total([mb[c] for c in ch]) == ma[k], what + ':measure', f'children of parent {k} do not add up')
            check_tiling(rng, cols(m.p, m.t[:nv, k]), [cols(M.p, M.t[:, c]) for c in ch], what, k)
    return M, {}


def rand_line(rng):
    """(MeshLine1, sorted list of its cells as (a, b)): nonnegative integer points in random numbering; some consecutive
    intervals are cells (gaps allowed), some points are used by no cell, some interior points exist twice"""
    from skfem import MeshLine1
    lv = np.cumsum(rng.integers(1, 4, size=int(rng.integers(2, 6)))).astype(float)
    cells = [(lv[i], lv[i + 1]) for i in range(len(lv) - 1) if rng.random() < 0.75]
    if not cells:
        cells = [(lv[0], lv[1])]
    pts, t = [], []
    for a, b in cells:
        ia = pts.index(a) if a in pts and rng.random() < 0.6 else (pts.append(a) or len(pts) - 1)   # repeated point now and then
        ib = pts.index(b) if b in pts and rng.random() < 0.6 else (pts.append(b) or len(pts) - 1)
        t.append((ia, ib) if rng.random() < 0.7 else (ib, ia))
    for _ in range(int(rng.integers(0, 3))):
        pts.append(float(lv[-1] + rng.integers(1, 9)))                                           # unused points
    perm = rng.permutation(len(pts))
    p = np.empty(len(pts))
    p[perm] = pts
    tt = perm[np.array(t, dtype=np.int64).T]
    order = rng.permutation(tt.shape[1])
    return MeshLine1(np.array([p]), tt[:, order].astype(np.int32)), sorted(cells)


def op_extrude(m, rng):
    """MeshTri1 * MeshLine1 -> MeshWedge1"""
    line, cells = rand_line(rng)
    M = m * line
    what = 'extrude'
    nt = m.t.shape[1]
    need(type(M).__name__ == 'MeshWedge1', what + ':class', type(M).__name__)
    need(M.t.shape[1] == nt * len(cells), what + ':counts', f'{M.t.shape[1]} prisms for {nt} triangles x {len(cells)} cells')
    check_valid(M, what)
    ma, mb = measures(m), measures(M)
    for l, (a, b) in enumerate(cells):
        for k in range(nt):
            tri = cols(m.p, m.t[:, k])
            want = tuple(v + (F(a),) for v in tri) + tuple(v + (F(b),) for v in tri)
            need(cols(M.p, M.t[:, k + l * nt]) == want, what + ':prism-geometry', f'prism {k}+{l}*nt')
            need(mb[k + l * nt] == ma[k] * (F(b) - F(a)), what + ':measure', '')
    return M, {'line': {'p': line.p.tolist(), 't': line.t.tolist()}}


def op_join(m, rng):
    """m + (a translated / mirrored copy that touches or overlaps it)"""
    dim = m.p.shape[0]
    ax = int(rng.integers(0, dim))
    lo, hi = m.p[ax].min(), m.p[ax].max()
    if rng.random() < 0.5:
        dv = [0.0] * dim
        dv[ax] = float(hi - lo) if rng.random() < 0.7 else float(hi - lo) + 1.0
        o = m.translated(dv)
        info = {'other': 'translated', 'diffs': dv}
    else:
        nrm = tuple(float(k == ax) for k in range(dim))
        pt = tuple(float(hi) if k == ax else 0.0 for k in range(dim))
        o = m.mirrored(nrm, pt)
        info = {'other': 'mirrored', 'normal': nrm, 'point': pt}
    M = m + o
    what = 'join'
    nv = m.elem.refdom.nnodes
    need(type(M) is type(m), what + ':class', '')
    distinct = {tuple(c) for c in np.hstack((m.p, o.p)).T.tolist()}
    need(M.p.shape[1] == len(distinct), what + ':vertex-count', f'{M.p.shape[1]} vertices, {len(distinct)} distinct coordinates')
    check_valid(M, what)
    n1 = m.t.shape[1]
    need(M.t.shape[1] == n1 + o.t.shape[1], what + ':cell-count', '')
    srt = type(m).__name__.startswith('MeshTri')
    for k in range(M.t.shape[1]):
        src, kk = (m, k) if k < n1 else (o, k - n1)
        a, b = cols(M.p, M.t[:nv, k]), cols(src.p, src.t[:nv, kk])
        need((set(a) == set(b)) if srt else (a == b), what + ':cell-geometry', f'cell {k}')
    need(total(measures(M)) == total(measures(m)) + total(measures(o)), what + ':measure', '')
    return M, info


def op_matmul(m, rng):
    """MeshTri1 @ MeshQuad1 (different types): a list of meshes over ONE merged vertex array"""
    from skfem import MeshQuad1
    q = rand_mesh1('MeshQuad1', rng, integer=True, holes=False, size=[2, 3])
    dv = [float(m.p[0].max() - q.p[0].min()), float(rng.integers(-1, 2))]
    q = q.translated(dv)
    out = m @ q
    what = 'matmul'
    need(len(out) == 2 and type(out[0]) is type(m) and type(out[1]) is MeshQuad1, what + ':classes', '')
    need(np.array_equal(out[0].p, out[1].p), what + ':shared-p', '')
    distinct = {tuple(c) for c in np.hstack((m.p, q.p)).T.tolist()}
    need(out[0].p.shape[1] == len(distinct) and len({tuple(c) for c in out[0].p.T.tolist()}) == len(distinct),
         what + ':vertex-count', '')
    for M, src in zip(out, (m, q)):
        nv = src.elem.refdom.nnodes
        for k in range(src.t.shape[1]):
            a, b = cols(M.p, M.t[:nv, k]), cols(src.p, src.t[:nv, k])
            need(set(a) == set(b) if nv == 3 else a == b, what + ':cell-geometry', f'cell {k}')
    return None, {'quad': mesh_json(q)}     # the parts carry unused vertices by design: not chained


def op_matmul_list(ms, rng):
    """m0 @ [m1, m2, m3] with touching / overlapping copies: every mesh keeps its cells over ONE merged point table"""
    ms = [m.translated((float(2 * i * int(rng.integers(0, 2))), float(rng.integers(0, 2)))) for i, m in enumerate(ms)]
    out = ms[0] @ ms[1:]
    what = 'matmul-list'
    need(len(out) == len(ms) and all(type(a) is type(b) for a, b in zip(out, ms)), what + ':classes', '')
    need(all(np.array_equal(out[0].p, o.p) for o in out), what + ':shared-p', '')
    distinct = {tuple(c) for c in np.hstack([m.p for m in ms]).T.tolist()}
    need(out[0].p.shape[1] == len(distinct) and len({tuple(c) for c in out[0].p.T.tolist()}) == len(distinct),
         what + ':vertex-count', '')
    for j, (M, src) in enumerate(zip(out, ms)):
        nv = src.elem.refdom.nnodes
        need(M.t.shape == src.t.shape and M.t.max() < M.p.shape[1], what + ':index-range', f'mesh {j}')
        for k in range(src.t.shape[1]):
            a, b = cols(M.p, M.t[:nv, k]), cols(src.p, src.t[:nv, k])
            need(set(a) == set(b) if nv == 3 else a == b, what + ':cell-geometry', f'mesh {j}, cell {k}')
    return None, {}


def op_scaled_scalar(m, rng):
    """scaled with ONE number (Python int, float, NumPy scalar): every dimension is scaled by it"""
    f = [2, 3.0, np.int64(2), np.float64(0.5), -1][int(rng.integers(0, 5))]
    M = m.scaled(f)
    what = 'scaled-scalar'
    need(np.array_equal(M.p, m.p * float(f)), what + ':coordinates', f'factor {f!r} ({type(f).__name__})')
    need(np.array_equal(M.t, m.t), what + ':t-changed', '')
    return M, {'factor': repr(f)}


def op_to_meshtri_unused(m, rng):
    """to_meshtri on a mesh whose point array has unused trailing points"""
    from dataclasses import replace
    extra = 60.0 + rng.integers(0, 9, size=(2, int(rng.integers(1, 4))))
    mu = replace(m, doflocs=np.hstack((m.p, extra)))
    nt = m.t.shape[1]
    for style in (None, 'x'):
        M = mu.to_meshtri(style=style)
        what = 'to_meshtri-unused' + ('-x' if style else '')
        nch = 4 if style else 2
        ma, mb = measures(m), measures(M)
        for k in range(nt):
            par = cols(mu.p, mu.t[:, k])
            allowed = set(par) | {centroid(par)}
            ch = [k + j * nt for j in range(nch)]
            for c in ch:
                need(set(cols(M.p, M.t[:, c])) <= allowed, what + ':child-not-in-parent', f'child {c} of parent {k}')
            need(total([mb[c] for c in ch]) == ma[k], what + ':measure', f'children of parent {k} do not add up')
    return None, {}


def op_to_meshtri_large(_m, rng):
    """a quadrilateral mesh with more than 46341 points (v0 * nv + v1 exceeds 2^31): two small named boundaries on two sides
    through to_meshtri, both styles; only the vertex pairs of the tagged facets are compared"""
    from skfem import MeshQuad1
    from skfem.generic_utils import OrientedBoundary
    m = MeshQuad1.init_tensor(np.linspace(0, 1, 220), np.linspace(0, 1, 220))
    left = m.facets_satisfying(lambda x: x[0] == 0)[:5]
    top = m.facets_satisfying(lambda x: x[1] == 1)[-5:]
    m = m.with_boundaries({'left': left, 'top': OrientedBoundary(top, np.zeros(len(top), dtype=int))})
    for style in (None, 'x'):
        M = m.to_meshtri(style=style)
        what = 'to_meshtri-large' + ('-x' if style else '')
        for nm, b in m.boundaries.items():
            g = np.asarray(M.boundaries[nm])
            need(len(g) == len(b) and g.min() >= 0 and g.max() < M.facets.shape[1], what + ':boundary-index-range',
                 lambda: f'{nm}: {g.tolist()} with {M.facets.shape[1]} facets')
            need(np.array_equal(M.facets[:, g], m.facets[:, np.sort(np.asarray(b))]), what + ':boundary',
                 lambda: f'{nm}: tagged facets have other vertex pairs')
    return None, {'points': int(m.p.shape[1])}


def op_line_product(_m, rng):
    """MeshLine1 * MeshLine1: exactly the products of two cells"""
    lx, cx = rand_line(rng)
    ly, cy = rand_line(rng)
    M = lx * ly
    what = 'line-product'
    want = {frozenset({(F(a), F(c)), (F(b), F(c)), (F(b), F(d)), (F(a), F(d))}) for a, b in cx for c, d in cy}
    got = cell_points(M, range(M.t.shape[1]))
    need(got == want and M.t.shape[1] == len(want), what + ':cells', f'{M.t.shape[1]} quadrilaterals, expected {len(want)}')
    check_valid(M, what)
    return None, {}


def op_join_second_order(base, rng):
    """+ and remove_duplicate_nodes on second-order meshes: every local node of every cell keeps its coordinates, merged
    nodes are exactly the coordinate-equal ones, none is unused; @ refuses higher-order meshes"""
    import skfem
    name2 = {'MeshTri1': 'MeshTri2', 'MeshQuad1': 'MeshQuad2', 'MeshTet1': 'MeshTet2', 'MeshHex1': 'MeshHex2'}[type(base).__name__]
    cls = getattr(skfem, name2)
    m = cls.from_mesh(base)
    dv = [0.0] * m.p.shape[0]
    dv[0] = float(m.p[0].max() - m.p[0].min())
    o = m.translated(dv)
    M = m + o
    what = 'join:' + name2
    need(type(M) is cls, what + ':class', type(M).__name__)
    ed, eo, EM = m.dofs.element_dofs, o.dofs.element_dofs, M.dofs.element_dofs
    n1 = m.t.shape[1]
    need(EM.shape == (ed.shape[0], n1 + o.t.shape[1]), what + ':shape', f'{EM.shape}')
    distinct = {tuple(c) for c in np.hstack((m.p, o.p)).T.tolist()}
    need(M.p.shape[1] == len(distinct) and len({tuple(c) for c in M.p.T.tolist()}) == len(distinct), what + ':node-count',
         f'{M.p.shape[1]} nodes, {len(distinct)} distinct coordinate tuples')
    need(len(np.unique(EM)) == M.p.shape[1], what + ':unused-node', '')
    for k in range(EM.shape[1]):
        src, e, kk = (m, ed, k) if k < n1 else (o, eo, k - n1)
        need({tuple(c) for c in M.p[:, EM[:, k]].T.tolist()} == {tuple(c) for c in src.p[:, e[:, kk]].T.tolist()},
             what + ':node-geometry', f'cell {k}')
        need(np.array_equal(M.p[:, M.t[:, k]], src.p[:, src.t[:, kk]]) or name2 == 'MeshTri2', what + ':vertex-geometry', f'cell {k}')
    # remove_duplicate_nodes: the two meshes stacked WITHOUT merging, tagged, then merged
    st = cls(np.hstack((m.p, o.p)), np.hstack((ed, eo + m.p.shape[1])))
    sub, bnd = rand_tags(st, rng, oriented=True)
    st = st.with_subdomains(sub).with_boundaries(bnd)
    R = st.remove_duplicate_nodes()
    what = 'remove_duplicate_nodes:' + name2
    ES, ER = st.dofs.element_dofs, R.dofs.element_dofs
    need(R.p.shape[1] == len(distinct) and len(np.unique(ER)) == R.p.shape[1], what + ':node-count', f'{R.p.shape[1]} nodes')
    for k in range(ES.shape[1]):
        need({tuple(c) for c in R.p[:, ER[:, k]].T.tolist()} == {tuple(c) for c in st.p[:, ES[:, k]].T.tolist()},
             what + ':node-geometry', f'cell {k}')
    for nm, b in (st.boundaries or {}).items():
        if R.boundaries is None or nm not in R.boundaries:
            continue
        need(facet_points(R, R.boundaries[nm]) == facet_points(st, b), what + ':boundary', nm)
    try:
        m @ o
        need(False, 'matmul:higher-order-accepted:' + name2, '@ of second-order meshes must raise NotImplementedError')
    except NotImplementedError:
        pass
    return None, {}


def op_join_unused_left(m, rng):
    """m + other and m @ [other] where the LEFT operand has unused trailing points (as the parts returned by @ have)"""
    from dataclasses import replace
    extra = 40.0 + np.arange(2 * m.p.shape[0], dtype=float).reshape(m.p.shape[0], 2)
    mu = replace(m, doflocs=np.hstack((m.p, extra)), _boundaries=None, _subdomains=None)
    dim = m.p.shape[0]
    dv = [0.0] * dim
    dv[0] = float(m.p[0].max() - m.p[0].min())
    o = replace(m, _boundaries=None, _subdomains=None).translated(dv)
    nv = m.elem.refdom.nnodes
    srt = type(m).__name__.startswith('MeshTri')
    distinct = {tuple(c) for c in np.hstack((mu.p, o.p)).T.tolist()}
    for what, M in (('join-unused-left', mu + o), ('matmul-unused-left', None)):
        if M is None:
            out = mu @ [o]
            need(np.array_equal(out[0].p, out[1].p), what + ':shared-p', '')
            parts = [(out[0], mu, range(mu.t.shape[1])), (out[1], o, range(o.t.shape[1]))]
            P = out[0].p
        else:
            n1 = mu.t.shape[1]
            need(M.t.shape[1] == n1 + o.t.shape[1], what + ':cell-count', '')
            parts = [(M, mu, range(n1)), (M, o, range(o.t.shape[1]))]
            P = M.p
        need(P.shape[1] == len(distinct) and len({tuple(c) for c in P.T.tolist()}) == len(distinct), what + ':vertex-count',
             f'{P.shape[1]} points, {len(distinct)} distinct coordinate tuples')
        for pi, (Mx, src, rr) in enumerate(parts):
            off = mu.t.shape[1] if (pi == 1 and Mx is M and M is not None) else 0
            for k in rr:
                need(Mx.t[:nv, k + off].max() < Mx.p.shape[1], what + ':index-range', f'cell {k}')
                a, b = cols(Mx.p, Mx.t[:nv, k + off]), cols(src.p, src.t[:nv, k])
                need(set(a) == set(b) if srt else a == b, what + ':cell-geometry', f'part {pi}, cell {k}')
    return None, {}


def op_second_order(base, rng):
    """restrict / remove_elements / remove_unused_nodes on the second-order mesh over `base`: every local node of every kept
    cell keeps its coordinates, no node is left unused, the vertex map points at the old vertices"""
    import skfem
    from dataclasses import replace
    name2 = {'MeshTri1': 'MeshTri2', 'MeshQuad1': 'MeshQuad2', 'MeshTet1': 'MeshTet2', 'MeshHex1': 'MeshHex2'}[type(base).__name__]
    cls = getattr(skfem, name2)
    m = cls.from_mesh(base)
    p = m.p.copy()
    nvx = base.p.shape[1]
    p[:, nvx:] += 0.0625 * rng.integers(-1, 2, size=p[:, nvx:].shape)       # displaced mid nodes (dyadic: exact)
    m = cls(p, m.t)
    sub, bnd = rand_tags(m, rng, oriented=False)
    m = m.with_subdomains(sub).with_boundaries(bnd)
    nt = m.t.shape[1]
    el = rng.choice(nt, size=int(rng.integers(1, nt + 1)), replace=False).astype(np.int32)
    if rng.random() < 0.5:
        el = np.sort(el)
    M, ix = m.restrict(el, return_mapping=True)
    what = 'restrict:' + name2
    ed, ED = m.dofs.element_dofs, M.dofs.element_dofs
    need(type(M) is cls and M.t.shape == (m.t.shape[0], len(el)), what + ':shape', f'{type(M).__name__} {M.t.shape}')
    need(ED.shape == (ed.shape[0], len(el)), what + ':nodes-per-cell', '')
    for i, k0 in enumerate(el):
        need(np.array_equal(M.p[:, ED[:, i]], m.p[:, ed[:, k0]]), what + ':node-geometry',
             lambda: f'the local nodes of new cell {i} are not those of old cell {int(k0)}')
    need(len(np.unique(ED)) == M.p.shape[1], what + ':unused-node', f'{M.p.shape[1]} nodes, {len(np.unique(ED))} in use')
    nv = M.nvertices
    need(len(ix) == nv and np.array_equal(M.p[:, :nv], m.p[:, ix]), what + ':vertex-map', 'p_new[:, j] != p_old[:, ix[j]] for the vertices')
    for nm, sd in (m.subdomains or {}).items():
        want = cell_points(m, [c for c in np.asarray(sd).tolist() if c in set(el.tolist())])
        need(cell_points(M, M.subdomains[nm]) == want, what + ':subdomain', nm)
    keptf = set(np.unique(m.t2f[:, el]).tolist())
    for nm, b in (m.boundaries or {}).items():
        need(facet_points(M, M.boundaries[nm]) == facet_points(m, [f for f in np.asarray(b).tolist() if f in keptf]),
             what + ':boundary', nm)
    # remove_unused_nodes: unused points appended / interleaved must go, every node of every cell stays
    extra = 90.0 + rng.integers(0, 9, size=(m.p.shape[0], int(rng.integers(1, 4))))
    mu = replace(m, doflocs=np.hstack((m.p, extra)))
    U = mu.remove_unused_nodes()
    what = 'remove_unused_nodes:' + name2
    UD = U.dofs.element_dofs
    need(U.p.shape[1] == m.p.shape[1] and UD.shape == ed.shape, what + ':node-count', f'{U.p.shape[1]} nodes, expected {m.p.shape[1]}')
    need(np.array_equal(U.p[:, UD], m.p[:, ed]), what + ':node-geometry', 'the local nodes of the cells moved')
    return None, {'elements': el.tolist()}


def op_extrude_unused(m, rng):
    """MeshTri1 * MeshLine1 on a mesh with unused trailing points"""
    from dataclasses import replace
    from skfem import MeshLine1
    extra = 80.0 + rng.integers(0, 9, size=(2, int(rng.integers(1, 3))))
    mu = replace(m, doflocs=np.hstack((m.p, extra)))
    line, cells = rand_line(rng)
    M = mu * line
    what = 'extrude-unused'
    nt = m.t.shape[1]
    need(M.t.shape[1] == nt * len(cells) and M.t.max() < M.p.shape[1], what + ':counts', '')
    for l, (a, b) in enumerate(cells):
        for k in range(nt):
            tri = cols(m.p, m.t[:, k])
            want = tuple(v + (F(a),) for v in tri) + tuple(v + (F(b),) for v in tri)
            need(cols(M.p, M.t[:, k + l * nt]) == want, what + ':prism-geometry', f'prism {k}+{l}*nt')
    return None, {'line': {'p': line.p.tolist(), 't': line.t.tolist()}}


def with_unused(m, rng):
    """the same cells over a vertex array with extra unused points at random positions"""
    nvx = m.p.shape[1]
    nextra = int(rng.integers(1, 4))
    pos = np.sort(rng.choice(nvx + nextra, size=nextra, replace=False))
    keep = np.setdiff1d(np.arange(nvx + nextra), pos)
    p = np.zeros((m.p.shape[0], nvx + nextra))
    p[:, keep] = m.p
    p[:, pos] = 100.0 + rng.integers(0, 50, size=(m.p.shape[0], nextra))
    t = keep[m.t]
    from dataclasses import replace
    return replace(m, doflocs=p, t=t.astype(np.int32))


def op_remove_unused(m, rng):
    mu = with_unused(m, rng)
    # facet numbering of mu equals that of m (monotone relabelling): tags keep their meaning
    M = mu.remove_unused_nodes()
    what = 'remove_unused_nodes'
    check_valid(M, what)
    need(np.array_equal(M.p, m.p) and np.array_equal(M.t, m.t), what + ':geometry', 'not the original mesh')
    for nm, s in (mu.subdomains or {}).items():
        need(cell_points(M, M.subdomains[nm]) == cell_points(mu, s), what + ':subdomain', nm)
    for nm, b in (mu.boundaries or {}).items():
        need(facet_points(M, M.boundaries[nm]) == facet_points(mu, b), what + ':boundary', nm)
    return M, {'input': mesh_json(mu)}


def with_duplicates(m, rng):
    """the same cells, but some cells get private copies of some of their vertices (coordinate-equal duplicates)"""
    p, t = m.p.copy(), m.t.copy()
    ndup = int(rng.integers(1, 4))
    for _ in range(ndup):
        k = int(rng.integers(0, t.shape[1]))
        i = int(rng.integers(0, t.shape[0]))
        p = np.hstack((p, p[:, [t[i, k]]]))
        t[i, k] = p.shape[1] - 1
    perm = rng.permutation(p.shape[1])
    pn = np.empty_like(p)
    pn[:, perm] = p
    return pn, perm[t].astype(np.int32)


def op_remove_duplicates(m, rng):
    p, t = with_duplicates(m, rng)
    cls = type(m)
    md = cls(p, t)
    sub, bnd = rand_tags(md, rng, oriented=True)
    md = md.with_subdomains(sub).with_boundaries(bnd)
    M = md.remove_duplicate_nodes()
    what = 'remove_duplicate_nodes'
    nv = m.elem.refdom.nnodes
    need(M.p.shape[1] == len({tuple(c) for c in p.T.tolist()}), what + ':vertex-count', '')
    check_valid(M, what)
    for k in range(t.shape[1]):
        need(set(cols(M.p, M.t[:nv, k])) == set(cols(md.p, md.t[:nv, k])), what + ':cell-geometry', f'cell {k}')
    for nm, s in (md.subdomains or {}).items():
        need(cell_points(M, M.subdomains[nm]) == cell_points(md, s), what + ':subdomain', nm)
    for nm, b in (md.boundaries or {}).items():
        if M.boundaries is None or nm not in M.boundaries:
            continue                      # dropping a tag is allowed; carrying it to other facets is not
        gi = np.asarray(M.boundaries[nm])
        ok = gi.size == 0 or (gi.min() >= 0 and gi.max() < M.facets.shape[1])
        need(ok and facet_points(M, gi) == facet_points(md, b), what + ':boundary',
             lambda: f'{nm}: carried-over boundary designates other facets')
        if getattr(b, 'ori', None) is not None:
            # an oriented boundary keeps its side: the cell on the tagged side is the same cell (cells keep their numbers)
            go = getattr(M.boundaries[nm], 'ori', None)
            need(go is not None and len(gi) == len(b), what + ':orientation-dropped', nm)
            old = {frozenset(cols(md.p, md.facets[:, int(f)])): int(md.f2t[int(o), int(f)]) for f, o in zip(np.asarray(b), b.ori)}
            new = {frozenset(cols(M.p, M.facets[:, int(f)])): int(M.f2t[int(o), int(f)]) for f, o in zip(gi, go)}
            need(old == new, what + ':orientation-side', lambda: f'{nm}: the tagged side changed')
    return M, {'input': mesh_json(md)}


def op_oriented(m, rng):
    M = m.oriented()
    what = 'oriented'
    need(np.all(M.orientation() == 1), what + ':orientation', '')
    nv = m.elem.refdom.nnodes
    for k in range(m.t.shape[1]):
        need(set(M.t[:nv, k].tolist()) == set(m.t[:nv, k].tolist()), what + ':cell-geometry', '')
    need(np.array_equal(M.facets, m.facets), what + ':facets-renumbered', '')
    return M, {}


def op_trace(m, rng):
    """Mesh.trace: the selected facets as cells of a lower-dimensional mesh, with the facet numbers returned"""
    nf = m.facets.shape[1]
    # an explicit index array in ANY order, now and then with repeated entries: trace cell k is facet facets[k]
    fs = rng.choice(nf, size=int(rng.integers(1, nf + 1)), replace=False).astype(np.int32)
    if rng.random() < 0.5 and len(fs) > 1:
        fs = np.concatenate([fs, fs[:2]])[rng.permutation(len(fs) + 2)].astype(np.int32)
    mt, fac = m.trace(fs)
    what = 'trace'
    need(np.array_equal(fac, fs), what + ':facet-map', '')
    need(mt.t.shape[1] == len(fs), what + ':cell-count', '')
    for i, f in enumerate(fs):
        need(cols(mt.p, mt.t[:, i]) == cols(m.p, m.facets[:, f]), what + ':cell-geometry', f'trace cell {i} is not facet {int(f)}')
    need(len(np.unique(mt.t)) == mt.p.shape[1], what + ':unused-vertex', '')
    return None, {'facets': fs.tolist()}


def same_mesh(a, b):
    def tags(x):
        return {k: (np.asarray(v).tolist(), None if getattr(v, 'ori', None) is None else np.asarray(v.ori).tolist())
                for k, v in (x or {}).items()}
    return (type(a) is type(b) and np.array_equal(a.p, b.p) and np.array_equal(a.t, b.t)
            and tags(a.subdomains) == tags(b.subdomains) and tags(a.boundaries) == tags(b.boundaries)
            and (a.subdomains is None) == (b.subdomains is None) and (a.boundaries is None) == (b.boundaries is None))


def op_selector_forms(m, rng):
    """restrict / remove_elements with every documented way of naming the elements (subdomain name, callable, list, tuple,
    set, nested collection, int, True) give the same mesh as the index array they denote; facets_around / copy"""
    nt = m.t.shape[1]
    el = np.sort(rng.choice(nt, size=int(rng.integers(1, nt + 1)), replace=False)).astype(np.int32)
    m = m.with_subdomains({'pick': el})
    ref, refr = m.restrict(el), m.remove_elements(el) if len(el) < nt else None
    mid = m.p[:, m.t].mean(axis=1)
    thr = float(np.median(mid[0]))
    forms = {'name': ('pick', el), 'list': (el.tolist(), el), 'tuple': (tuple(el.tolist()), el), 'set': (set(el.tolist()), el),
             'nested': (['pick', int(el[0])], el), 'int': (int(el[0]), el[:1]), 'true': (True, np.arange(nt, dtype=np.int32)),
             'callable': ((lambda x: x[0] < thr), np.nonzero(mid[0] < thr)[0].astype(np.int32))}
    for nm, (sel, arr) in forms.items():
        if len(arr) == 0:
            continue
        need(same_mesh(m.restrict(sel), m.restrict(arr)), f'restrict-selector:{nm}', 'differs from the index array form')
        if len(arr) < nt:
            need(same_mesh(m.remove_elements(sel), m.remove_elements(arr)), f'remove_elements-selector:{nm}', 'differs from the index array form')
    need(same_mesh(m.restrict(el, return_mapping=False), ref), 'restrict-selector:return_mapping', '')
    need(same_mesh(m.copy(), m), 'copy', 'copy() differs from the mesh')
    # facets_around: exactly the facets with one neighbour in the set; the flag selects the neighbour inside (outside if flip)
    inside = set(el.tolist())
    for flip in (False, True):
        fa = m.facets_around(el, flip=flip)
        want = sorted(f for f in range(m.facets.shape[1])
                      if sum(int(c) in inside for c in m.f2t[:, f] if c >= 0) == 1
                      and sum(1 for c in m.f2t[:, f] if c >= 0) - (0) >= 1
                      and not all(int(c) in inside for c in m.f2t[:, f] if c >= 0) or
                      (m.f2t[1, f] == -1 and int(m.f2t[0, f]) in inside))
        need(np.asarray(fa).tolist() == want, 'facets_around:set', lambda: f'{np.asarray(fa).tolist()} != {want}')
        for f, o in zip(np.asarray(fa), fa.ori):
            c = int(m.f2t[int(o), int(f)])
            if not flip:
                need(c in inside, 'facets_around:side', f'facet {int(f)}: flag {int(o)} selects cell {c} outside the set')
            else:
                need(c not in inside, 'facets_around:flip-side', f'facet {int(f)}: flag {int(o)} selects cell {c}')
    # a tag made by facets_around survives restrict to the set as its whole boundary part
    mt = m.with_boundaries({'around': m.facets_around(el)})
    R = mt.restrict(el)
    need(facet_points(R, R.boundaries['around']) == facet_points(m, np.asarray(m.facets_around(el))), 'facets_around:restrict', '')
    return None, {'elements': el.tolist()}


def op_rmatmul_trace(m, rng):
    """[q] @ m (reflected operator: same order as given) and trace with mtype / project"""
    import skfem
    q = rand_mesh1('MeshQuad1', rng, integer=True, holes=False, size=[2, 2])
    if m.p.shape[0] == 2:
        out = [q] @ m
        need(len(out) == 2 and type(out[0]).__name__ == 'MeshQuad1' and type(out[1]) is type(m), 'rmatmul:order', str([type(x).__name__ for x in out]))
        need(np.array_equal(out[0].p, out[1].p), 'rmatmul:shared-p', '')
        for M, src in zip(out, (q, m)):
            nv = src.elem.refdom.nnodes
            for k in range(src.t.shape[1]):
                need(set(cols(M.p, M.t[:nv, k])) == set(cols(src.p, src.t[:nv, k])), 'rmatmul:cell-geometry', f'cell {k}')
    bf = m.boundary_facets()
    if m.p.shape[0] == 2:
        mt, fac = m.trace(bf, mtype=skfem.MeshLine1, project=lambda p: p[:1])
        need(type(mt).__name__ == 'MeshLine1' and np.array_equal(fac, bf), 'trace:mtype', '')
        for i, f in enumerate(bf):
            need(sorted(mt.p[0, mt.t[:, i]].tolist()) == sorted(m.p[0, m.facets[:, f]].tolist()), 'trace:project', f'cell {i}')
    else:
        sel = lambda x: x[2] == m.p[2].min()
        mt, fac = m.trace(sel, mtype=skfem.MeshTri1 if type(m).__name__ == 'MeshTet1' else skfem.MeshQuad1, project=lambda p: p[:2])
        need(np.array_equal(fac, m.facets_satisfying(sel)), 'trace:callable', '')
        for i, f in enumerate(fac):
            need({tuple(c) for c in mt.p[:, mt.t[:, i]].T.tolist()} == {tuple(c) for c in m.p[:2, m.facets[:, f]].T.tolist()},
                 'trace:project', f'cell {i}')
    return None, {}


def op_constructors(_m, rng):
    """restrict / remove_elements / oriented / remove_unused_nodes on the meshes of the init_* constructors (float
    coordinates: only index-level checks)"""
    import skfem
    meshes = [skfem.MeshTri1.init_circle(1), skfem.MeshTri1.init_lshaped(), skfem.MeshTri1.init_sqsymmetric(),
              skfem.MeshTri1.init_symmetric(), skfem.MeshTet1.init_ball(1), skfem.MeshTri2.init_circle(1)]
    meshes += [getattr(skfem, c).init_refdom() for c in ('MeshTri1', 'MeshQuad1', 'MeshTet1', 'MeshHex1', 'MeshWedge1', 'MeshTri2',
                                                          'MeshQuad2')]
    meshes += [skfem.MeshTet2.init_ball(1)]
    meshes += [skfem.MeshTri1() * skfem.MeshLine(np.array([0., 1., 3.])), skfem.MeshLine(np.array([0., 1., 3., 6.]))]
    for m in meshes:
        name = type(m).__name__
        m = m.with_defaults() if name not in ('MeshWedge1',) and m.t.shape[1] > 1 and name != 'MeshLine1' else m
        nt = m.t.shape[1]
        el = np.sort(rng.choice(nt, size=max(1, nt // 2), replace=False)).astype(np.int32)
        M, ix = m.restrict(el, return_mapping=True)
        ed, ED = m.dofs.element_dofs, M.dofs.element_dofs
        what = 'constructor-restrict:' + name
        need(ED.shape[1] == len(el) and np.array_equal(M.p[:, ED], m.p[:, ed[:, el]]), what + ':node-geometry', '')
        need(len(np.unique(ED)) == M.p.shape[1], what + ':unused-node', '')
        need(np.array_equal(M.p[:, :len(ix)], m.p[:, ix]), what + ':vertex-map', '')
        for nm, b in (m.boundaries or {}).items():
            keptf = set(np.unique(m.t2f[:, el]).tolist())
            need({frozenset(map(tuple, M.p[:, M.facets[:, g]].T.tolist())) for g in M.boundaries[nm]}
                 == {frozenset(map(tuple, m.p[:, m.facets[:, f]].T.tolist())) for f in np.asarray(b).tolist() if f in keptf},
                 what + ':boundary', nm)
        if len(el) < nt:
            R = m.remove_elements(el)
            need(R.t.shape[1] == nt - len(el), 'constructor-remove_elements:' + name, '')
        U = m.remove_unused_nodes()
        need(np.array_equal(U.p[:, U.dofs.element_dofs], m.p[:, ed]), 'constructor-remove_unused_nodes:' + name, '')
        if name in ('MeshTri1', 'MeshTet1'):
            need(np.all(m.oriented().orientation() == 1), 'constructor-oriented:' + name, '')
    return None, {}


def op_line_surgery(_m, rng):
    """restrict / remove_elements / + / scaled / translated on MeshLine1 (any numbering of the points)"""
    line, cells = rand_line(rng)
    nt = line.t.shape[1]
    seg = lambda M: sorted(tuple(sorted(M.p[0, M.t[:, k]].tolist())) for k in range(M.t.shape[1]))
    el = np.sort(rng.choice(nt, size=int(rng.integers(1, nt + 1)), replace=False)).astype(np.int32)
    R = line.restrict(el)
    need(seg(R) == sorted(tuple(sorted(line.p[0, line.t[:, k]].tolist())) for k in el), 'line-restrict:cells', '')
    need(len(np.unique(R.t)) == R.p.shape[1], 'line-restrict:unused-point', '')
    S = line.scaled(2).translated((3.,))
    need(seg(S) == sorted((2 * a + 3, 2 * b + 3) for a, b in seg(line)), 'line-transform:cells', '')
    J = line + line.translated((float(line.p[0].max() + 1),))
    need(len(seg(J)) == 2 * nt and seg(J)[:nt] == seg(line), 'line-join:cells', '')
    return None, {}


# which operations apply to which class
OPS = {
    'MeshTri1': [op_restrict, op_remove, op_transform, op_join, op_extrude, op_remove_unused, op_remove_duplicates,
                 op_matmul, op_oriented, op_trace],
    'MeshQuad1': [op_restrict, op_remove, op_transform, op_join, op_to_meshtri, op_remove_unused, op_remove_duplicates,
                  op_trace],
    'MeshTet1': [op_restrict, op_remove, op_transform, op_join, op_remove_unused, op_remove_duplicates, op_oriented,
                 op_trace],
    'MeshHex1': [op_restrict, op_remove, op_transform, op_join, op_to_meshtet, op_remove_unused, op_remove_duplicates,
                 op_trace],
    'MeshWedge1': [op_to_meshtet],
}
