"""Shared machinery of the /verif checks (see DESIGN.md section 2).

One check = one call of ``props/cXX.py: run(ctx)`` with a :class:`Ctx`.  The context
gives the property module: a private build directory, the Coq runner (static libraries
are built once under /verif/coq, everything that depends on generated files is compiled
in the build directory), the correspondence-by-``vm_compute`` helper, bookkeeping of
obligations / broken ties / concrete failing inputs, the known-findings filter, the
evidence writer and the VIOLATION / KNOWN-FINDING reporting protocol.
"""
import fcntl
import hashlib
import json
import os
import random
import re
import shutil
import subprocess
import sys
import time
from fractions import Fraction

VERIF = os.path.dirname(os.path.dirname(os.path.abspath(__file__)))
REPO = os.environ.get('VERIF_REPO', '/repo')
PY = '/venv/bin/python'
COQ = os.path.join(VERIF, 'coq')
STATIC_DIRS = [('base', 'Base'), ('model', 'Model'), ('proofs', 'Proofs')]
NCPU = os.cpu_count() or 4

FORBIDDEN = re.compile(
    r'\b(Admitted|admit|Axiom|Axioms|Parameter|Parameters|Conjecture|Conjectures|'
    r'Admit Obligations|Unset Guard Checking|Unset Positivity Checking|'
    r'Unset Universe Checking|bypass_check|type-in-type|impredicative-set|native_compute)\b')


class TranslateError(Exception):
    """A translator met a source shape it does not know (fail closed)."""


# --------------------------------------------------------------------------- emitters

def cz(n):
    n = int(n)
    return f'({n})%Z' if n < 0 else f'{n}%Z'


def cnat(n):
    n = int(n)
    assert 0 <= n < 5000, n
    return f'{n}%nat'


def cN(n):
    n = int(n)
    assert n >= 0
    return f'{n}%N'


def clist(items):
    return '[' + '; '.join(items) + ']'


def cpair(a, b):
    return f'({a}, {b})'


def cbool(b):
    return 'true' if b else 'false'


def cq(fr):
    """a Fraction as a Coq Q literal (num # den)"""
    fr = Fraction(fr)
    return f'(({fr.numerator})%Z # {fr.denominator}%positive)'


def copt(x):
    return 'None' if x is None else f'(Some {x})'


def dyadic(x):
    """exact value of a binary64 as (mantissa:int, exponent:int) with x = m * 2^e"""
    fr = Fraction(float(x))
    d = fr.denominator
    e = d.bit_length() - 1
    assert d == 1 << e
    return fr.numerator, -e


def cints(lst):
    return clist([cz(x) for x in lst])


def cnats(lst):
    return clist([cnat(x) for x in lst])


def cmat_z(m):
    return clist([cints(r) for r in m])


def cmat_nat(m):
    return clist([cnats(r) for r in m])


# --------------------------------------------------------------------------- known findings

class Known:
    def __init__(self, path):
        self.findings = {}   # pid -> {key: text}
        self.fixed = {}
        if not os.path.exists(path):
            return
        for line in open(path):
            line = line.strip()
            if not line or line.startswith('#'):
                continue
            m = re.match(r'finding:\s+property=(\S+)\s+key=(\S+)\s+(.*)$', line)
            if m:
                self.findings.setdefault(m.group(1), {})[m.group(2)] = m.group(3)
                continue
            m = re.match(r'fixed:\s+property=(\S+)\s+(\S+)\s+(.*)$', line)
            if m:
                self.fixed.setdefault(m.group(1), []).append((m.group(2), m.group(3)))


# --------------------------------------------------------------------------- static build

def _coqproject_static():
    lines = []
    for d, l in STATIC_DIRS:
        lines.append(f'-Q {d} {l}')
    for d, _ in STATIC_DIRS:
        for f in sorted(os.listdir(os.path.join(COQ, d))):
            if f.endswith('.v'):
                lines.append(f'{d}/{f}')
    return '\n'.join(lines) + '\n'


def scan_forbidden(paths):
    """No axioms, no admits, no switched-off checks anywhere in the development."""
    bad = []
    for p in paths:
        txt = open(p).read()
        # strip comments (non-nested is enough to avoid most false hits; nested handled by loop)
        prev = None
        while prev != txt:
            prev = txt
            txt = re.sub(r'\(\*[^()]*?\*\)', ' ', txt, flags=re.S)
        for i, line in enumerate(txt.split('\n')):
            m = FORBIDDEN.search(line)
            if m:
                bad.append(f'{p}:{i + 1}: {m.group(0)}')
    return bad


def all_v_files():
    out = []
    for root, _, files in os.walk(COQ):
        for f in files:
            if f.endswith('.v'):
                out.append(os.path.join(root, f))
    return sorted(out)


def build_static(timeout=1500, verbose=False):
    """(Re)build base/, model/, proofs/ under a lock; no-op when up to date."""
    os.makedirs(os.path.join(VERIF, 'build'), exist_ok=True)
    lock = open(os.path.join(VERIF, 'build', '.static.lock'), 'w')
    fcntl.flock(lock, fcntl.LOCK_EX)
    try:
        cp = _coqproject_static()
        cpath = os.path.join(COQ, '_CoqProject')
        old = open(cpath).read() if os.path.exists(cpath) else None
        if old != cp or not os.path.exists(os.path.join(COQ, 'Makefile')):
            open(cpath, 'w').write(cp)
            subprocess.run(['coq_makefile', '-f', '_CoqProject', '-o', 'Makefile'], cwd=COQ,
                           check=True, capture_output=True)
        r = subprocess.run(['timeout', str(timeout), 'make', f'-j{NCPU}'], cwd=COQ,
                           capture_output=True, text=True)
        if verbose:
            sys.stdout.write(r.stdout[-3000:])
        if r.returncode != 0:
            return False, (r.stdout + r.stderr)[-4000:]
        return True, ''
    finally:
        fcntl.flock(lock, fcntl.LOCK_UN)
        lock.close()


# --------------------------------------------------------------------------- context

class Ctx:
    def __init__(self, pid, tier, seed, replay=None):
        self.pid = pid
        self.tier = tier
        self.seed = int(seed)
        self.replay = replay
        self.rng = random.Random(self.seed)
        self.t0 = time.time()
        self.bdir = os.path.join(VERIF, 'build', pid + os.environ.get('VERIF_BUILD_TAG', ''))
        shutil.rmtree(self.bdir, ignore_errors=True)
        os.makedirs(os.path.join(self.bdir, 'gen'))
        os.makedirs(os.path.join(self.bdir, 'dyn'))
        os.makedirs(os.path.join(self.bdir, 'chk'))
        self.rdir = os.path.join(os.environ.get('VERIF_REPLAY_DIR', os.path.join(VERIF, 'replays')), pid)
        os.makedirs(self.rdir, exist_ok=True)
        self.known = Known(os.path.join(VERIF, 'known_findings.txt'))
        self.obligations = []      # dicts: name, kind, ok
        self.broken = []           # dicts: kind, name, detail
        self.failures = []         # dicts: key, what, data
        self.assumptions_seen = {}  # theorem -> list of axioms ('closed' = none)
        self.cov = {'evaluations': 0, 'distinct_nontrivial': 0, 'rule': '', 'samples': [],
                    'traces_validated_against_impl': 0}
        self._distinct = set()
        self.extra = {}
        self.assumptions = []
        self.checker_cmds = []
        self.trusted = [
            'Coq 8.16.1 kernel + vm_compute (no native_compute)',
            'translators / emitters in /verif/vlib (fail closed)',
            'correspondence harness in /verif/vlib (generators, canonicalisation, cases.v writer, output parser)',
        ]
        self.log_lines = []

    # ---- logging
    def log(self, *a):
        s = ' '.join(str(x) for x in a)
        self.log_lines.append(s)
        print(f'[{self.pid} {time.time() - self.t0:6.1f}s] {s}', flush=True)

    def quick(self):
        return self.tier == 'quick'

    def n(self, quick, thorough):
        return quick if self.tier == 'quick' else thorough

    # ---- files
    def write(self, rel, text):
        p = os.path.join(self.bdir, rel)
        os.makedirs(os.path.dirname(p), exist_ok=True)
        open(p, 'w').write(text)
        return p

    def write_gen(self, name, text):
        return self.write(f'gen/{name}.v', text)

    def copy_dyn(self):
        """copy coq/dyn/<pid>/*.v (proof files that depend on Gen) to build/<pid>/dyn"""
        src = os.path.join(COQ, 'dyn', self.pid)
        out = []
        if os.path.isdir(src):
            for f in sorted(os.listdir(src)):
                if f.endswith('.v'):
                    shutil.copy(os.path.join(src, f), os.path.join(self.bdir, 'dyn', f))
                    out.append(f'dyn/{f}')
        return out

    def copy_props(self):
        src = os.path.join(COQ, 'props', f'{self.pid}.v')
        shutil.copy(src, os.path.join(self.bdir, 'chk', f'{self.pid}.v'))
        return f'chk/{self.pid}.v'

    # ---- coq
    def coq_args(self):
        a = []
        for d, l in STATIC_DIRS:
            a += ['-Q', os.path.join(COQ, d), l]
        a += ['-Q', os.path.join(self.bdir, 'gen'), 'Gen', '-Q', os.path.join(self.bdir, 'dyn'), 'Dyn',
              '-Q', os.path.join(self.bdir, 'chk'), 'Chk']
        return a

    def coqc(self, rel, timeout=300):
        """compile one file of the build dir; returns (ok, stdout, stderr, seconds)"""
        t = time.time()
        cmd = ['timeout', str(timeout), 'coqc'] + self.coq_args() + [rel]
        self.checker_cmds.append('coqc <-Q base,model,proofs,gen,dyn> ' + rel)
        try:
            r = subprocess.run(cmd, cwd=self.bdir, capture_output=True, text=True)
            ok = r.returncode == 0
            out, err = r.stdout, r.stderr
            if r.returncode == 124:
                err += f'\nTIMEOUT after {timeout}s'
        except Exception as e:  # pragma: no cover
            ok, out, err = False, '', repr(e)
        return ok, out, err, time.time() - t

    def coqc_many(self, rels, timeout=300, jobs=None):
        """compile independent files in parallel; returns dict rel -> (ok,out,err,secs)"""
        from concurrent.futures import ThreadPoolExecutor
        jobs = jobs or min(NCPU, max(1, len(rels)))
        with ThreadPoolExecutor(jobs) as ex:
            res = list(ex.map(lambda r: self.coqc(r, timeout), rels))
        return dict(zip(rels, res))

    def ensure_static(self):
        ok, msg = build_static()
        if not ok:
            self.broken.append({'kind': 'proof', 'name': 'static-libraries', 'detail': msg[-1500:]})
            self.log('static build FAILED', msg[-800:])
        bad = scan_forbidden(all_v_files())
        if bad:
            self.broken.append({'kind': 'proof', 'name': 'forbidden-construct', 'detail': '\n'.join(bad)})
        return ok and not bad

    _thm_re = re.compile(r'^\s*(Theorem|Lemma|Example|Corollary|Fact|Proposition)\s+([A-Za-z0-9_\']+)', re.M)

    def compile_dyn(self, rels, timeout=300):
        """compile generated / dynamic support files in order; each counts as one obligation
        per theorem it contains (they are generated per item so that a failure names the item)."""
        allok = True
        for rel in rels:
            txt = open(os.path.join(self.bdir, rel)).read()
            bad = scan_forbidden([os.path.join(self.bdir, rel)])
            names = [m.group(2) for m in self._thm_re.finditer(txt)]
            if bad:
                self.broken.append({'kind': 'proof', 'name': rel, 'detail': 'forbidden construct: ' + '; '.join(bad)})
                for nm in names:
                    self.obligations.append({'name': f'{rel}:{nm}', 'kind': 'generated', 'ok': False})
                allok = False
                continue
            ok, out, err, secs = self.coqc(rel, timeout)
            self.log(f'coqc {rel}: {"ok" if ok else "FAILED"} ({secs:.1f}s, {len(names)} lemmas)')
            failed_at = None
            if not ok:
                allok = False
                failed_at = self._failing_theorem(txt, err)
                self.broken.append({'kind': 'proof', 'name': f'{rel}:{failed_at or "?"}', 'detail': err[-1500:]})
            seen_fail = False
            for nm in names:
                if not ok and (failed_at is None or nm == failed_at):
                    seen_fail = True
                self.obligations.append({'name': f'{rel}:{nm}', 'kind': 'generated', 'ok': ok or not seen_fail})
            self._parse_assumptions(out)
        return allok

    def _failing_theorem(self, txt, err):
        m = re.search(r'line (\d+), characters', err)
        if not m:
            return None
        line = int(m.group(1))
        last = None
        for mm in self._thm_re.finditer(txt):
            ln = txt.count('\n', 0, mm.start()) + 1
            if ln <= line:
                last = mm.group(2)
        return last

    def _parse_assumptions(self, out):
        # Print Assumptions prints either "Closed under the global context" or "Axioms:\n name : type ..."
        blocks = re.split(r'(?=^Closed under the global context|^Axioms:)', out, flags=re.M)
        res = []
        for b in blocks:
            if b.startswith('Closed under'):
                res.append([])
            elif b.startswith('Axioms:'):
                ax = re.findall(r'^([A-Za-z_][A-Za-z0-9_\.\']*)\s*:', b[len('Axioms:'):], flags=re.M)
                res.append(sorted(set(ax)))
        return res

    def prove(self, timeout=600, extra_dyn=None):
        """compile the property file props/<pid>.v in the build dir.  The file holds only
        ``Theorem … exact lemma … Print Assumptions``; every theorem is one obligation."""
        rel = self.copy_props()
        path = os.path.join(self.bdir, rel)
        txt = open(path).read()
        names = [m.group(2) for m in self._thm_re.finditer(txt)]
        pa = re.findall(r'Print Assumptions\s+([A-Za-z0-9_\']+)', txt)
        bad = scan_forbidden([path])
        if bad:
            self.broken.append({'kind': 'proof', 'name': rel, 'detail': 'forbidden construct: ' + '; '.join(bad)})
        ok, out, err, secs = self.coqc(rel, timeout)
        self.log(f'coqc {rel}: {"ok" if ok else "FAILED"} ({secs:.1f}s, {len(names)} theorems)')
        failed_at = None
        if not ok:
            failed_at = self._failing_theorem(txt, err)
            self.broken.append({'kind': 'proof', 'name': f'{rel}:{failed_at or "?"}', 'detail': err[-2000:]})
        seen_fail = False
        for nm in names:
            if not ok and (failed_at is None or nm == failed_at):
                seen_fail = True
            self.obligations.append({'name': nm, 'kind': 'property-theorem', 'ok': (ok or not seen_fail) and not bad})
        ass = self._parse_assumptions(out)
        for nm, ax in zip(pa, ass):
            self.assumptions_seen[nm] = ax if ax else ['<closed under the global context>']
        if ok and len(pa) != len(ass):
            self.log(f'warning: {len(pa)} Print Assumptions commands, {len(ass)} answers parsed')
        missing = [n for n in names if n not in pa]
        if missing:
            self.log('warning: theorems without Print Assumptions:', missing)
        if ok and not bad and self.tier == 'thorough' and not self.replay:
            self.coqchk()
        return ok and not bad

    def coqchk(self, timeout=2400):
        """thorough tier: re-check the compiled property file and everything it depends on with the independent
        checker; its context summary (axioms, type-in-type, unsafe fixpoints, assumed positivity) goes into the evidence"""
        cmd = ['timeout', str(timeout), 'coqchk', '-silent', '-o'] + self.coq_args() + [f'Chk.{self.pid}']
        t = time.time()
        r = subprocess.run(cmd, cwd=self.bdir, capture_output=True, text=True)
        out = r.stdout + r.stderr
        summ = out[out.find('CONTEXT SUMMARY'):] if 'CONTEXT SUMMARY' in out else out[-1500:]
        summ = re.sub(r'\s+', ' ', summ)
        self.extra['coqchk'] = {'exit': r.returncode, 'seconds': round(time.time() - t, 1), 'summary': summ[:3000]}
        self.checker_cmds.append(f'coqchk -silent -o <same -Q> Chk.{self.pid}')
        self.log(f'coqchk: exit {r.returncode} ({time.time() - t:.0f}s) {summ[:200]}')
        if r.returncode == 124:
            # the independent re-check did not finish within its time limit: recorded, not a failure
            # (every file was accepted by coqc's kernel; coqchk re-evaluates all vm_compute proofs with its own VM)
            self.extra['coqchk']['summary'] = f'TIMED OUT after {timeout}s - independent re-check incomplete (coqc accepted every file)'
            self.log('coqchk timed out: recorded in the evidence, not counted as a failure')
            return True
        bad = r.returncode != 0 or re.search(r'type-in-type: (?!<none>)|unsafe \(co\)fixpoints: (?!<none>)|positivity is assumed: (?!<none>)', summ)
        if bad:
            self.broken.append({'kind': 'proof', 'name': 'coqchk', 'detail': out[-2000:]})
        return not bad

    # ---- correspondence
    def corr(self, name, imports, fname, eqb, cases, per_file=400, timeout=300, nontrivial=None,
             defs=''):
        """Correspondence by evaluation inside Coq.

        ``cases``: list of (input_term, expected_output_term, python_repr) — the outputs are what the
        IMPLEMENTATION returned.  The model function ``fname`` is evaluated by vm_compute on every
        input and compared with ``eqb``.  Returns list of indices that disagree (or None when the
        evaluation itself broke)."""
        files = []
        for k in range(0, len(cases), per_file):
            chunk = cases[k:k + per_file]
            body = ';\n  '.join(f'({i}, {o})' for i, o, _ in chunk)
            txt = (f'{imports}\nRequire Import Base.Corr.\nImport ListNotations.\n{defs}\n'
                   f'Definition cases := [\n  {body}\n].\n'
                   f'Definition res := corr_check {eqb} {fname} cases.\n'
                   f'Eval vm_compute in res.\n')
            rel = f'chk/cases_{name}_{k // per_file}.v'
            self.write(rel, txt)
            files.append((rel, k, len(chunk)))
        res = self.coqc_many([f for f, _, _ in files], timeout)
        bad = []
        broke = False
        for rel, k, n in files:
            ok, out, err, secs = res[rel]
            m = re.search(r'=\s*\(\s*(\d+)(?:%nat)?\s*,\s*\[([^\]]*)\]\s*\)', out.replace('\n', ' '))
            if not ok or not m:
                broke = True
                self.broken.append({'kind': 'correspondence', 'name': f'{name}:{rel}',
                                    'detail': (err or out)[-1500:]})
                continue
            cnt = int(m.group(1))
            if cnt != n:
                broke = True
                self.broken.append({'kind': 'correspondence', 'name': f'{name}:{rel}',
                                    'detail': f'evaluated {cnt} cases, expected {n}'})
            idx = [int(x.strip().replace('%nat', '')) for x in m.group(2).split(';') if x.strip()]
            bad += [k + i for i in idx]
        self.cov['traces_validated_against_impl'] += len(cases) - len(bad)
        self.cov['evaluations'] += len(cases)
        for i, o, r in cases:
            h = hashlib.sha1((name + i + o).encode()).hexdigest()
            if nontrivial is None or nontrivial(r):
                self._distinct.add(h)
        self.log(f'correspondence {name}: {len(cases)} cases, {len(bad)} disagree' + (' (BROKEN evaluation)' if broke else ''))
        if bad:
            self.broken.append({'kind': 'correspondence', 'name': name,
                                'detail': f'{len(bad)} of {len(cases)} cases disagree; first: {cases[bad[0]][2]!r}'})
        return None if broke else bad

    # ---- counting helpers for oracle runs
    def count(self, case_repr, nontrivial=True):
        self.cov['evaluations'] += 1
        if nontrivial:
            self._distinct.add(hashlib.sha1(repr(case_repr).encode()).hexdigest())

    def sample(self, s, limit=6):
        if len(self.cov['samples']) < limit:
            self.cov['samples'].append(s)

    def hist(self, key, val):
        d = self.extra.setdefault('distribution', {}).setdefault(key, {})
        d[str(val)] = d.get(str(val), 0) + 1

    # ---- failures
    def fail(self, key, what, data):
        """a concrete failing input of the property on the implementation (or on the model
        that corresponds with it)."""
        for f in self.failures:
            if f['key'] == key:
                f['count'] = f.get('count', 1) + 1
                return
        self.failures.append({'key': key, 'what': what, 'data': data})
        self.log(f'FAILING INPUT key={key}: {what}')

    def broke(self, kind, name, detail):
        self.broken.append({'kind': kind, 'name': name, 'detail': str(detail)[-2000:]})
        self.log(f'BROKEN {kind} {name}: {str(detail)[:300]}')

    # ---- finish
    def finish(self):
        wall = time.time() - self.t0
        known = self.known.findings.get(self.pid, {})
        lines = []
        nviol = 0
        unlisted = [f for f in self.failures if f['key'] not in known]
        for f in self.failures:
            if f['key'] in known:
                lines.append(f'KNOWN-FINDING: property={self.pid} {known[f["key"]]} [key={f["key"]}]')
        if len(unlisted) > 12:
            lines.append(f'NOTE: {len(unlisted)} distinct failing inputs; reporting the first 12')
            unlisted = unlisted[:12]
        for f in unlisted:
            fn = re.sub(r'[^A-Za-z0-9_.=-]', '_', f['key'])[:100]
            path = os.path.join(self.rdir, fn + '.json')
            json.dump({'property': self.pid, 'key': f['key'], 'what': f['what'], 'input': f['data'],
                       'broken_ties': [b['kind'] + ':' + b['name'] for b in self.broken],
                       'seed': self.seed, 'tier': self.tier,
                       'replay_cmd': f'{PY} {VERIF}/check.py {self.pid} --replay {path}'},
                      open(path, 'w'), indent=1, default=str)
            lines.append(f'VIOLATION property={self.pid} replay={path}')
            nviol += 1
        stale = [k for k in known if k not in [f['key'] for f in self.failures]]
        if stale and not self.replay and getattr(self, 'searched_known', True):
            for k in stale:
                lines.append(f'NOTE: known finding key={k} was not observed in this run (stale entry or not sampled)')
        if self.broken and not unlisted:
            # broken proof/translator/correspondence and no concrete failing input
            # (a break that only concerns a listed known finding is stated on the Coq side as a refutation,
            #  so whatever is broken here is new)
            path = os.path.join(self.rdir, 'broken_ties.json')
            json.dump({'property': self.pid, 'no_failing_input_found': True,
                       'broken': self.broken, 'seed': self.seed, 'tier': self.tier,
                       'note': 'the named theorem / translator / correspondence no longer checks; the search '
                               'found no concrete failing input in model or implementation'},
                      open(path, 'w'), indent=1, default=str)
            lines.append(f'VIOLATION property={self.pid} replay={path} no-failing-input-found')
            nviol += 1
        nob = len(self.obligations)
        ndis = sum(1 for o in self.obligations if o['ok'])
        cov = dict(self.cov)
        cov['distinct_nontrivial'] = len(self._distinct)
        cov['obligations'] = nob
        cov['discharged'] = ndis
        cov['checker_cmd'] = ('coqc (Coq 8.16.1), full .vo build: make in /verif/coq for Base/Model/Proofs; then '
                              + '; '.join(dict.fromkeys(self.checker_cmds))[:1500])
        axioms = sorted({a for v in self.assumptions_seen.values() for a in v})
        cov['trusted_base'] = self.trusted + ['axioms reported by Print Assumptions: ' + (', '.join(axioms) or 'n/a')]
        cov['print_assumptions'] = self.assumptions_seen
        cov['obligation_names'] = [o['name'] for o in self.obligations][:400]
        cov['failed_obligations'] = [o['name'] for o in self.obligations if not o['ok']]
        cov['broken_ties'] = [{'kind': b['kind'], 'name': b['name']} for b in self.broken]
        cov['known_findings_observed'] = [f['key'] for f in self.failures if f['key'] in known]
        cov.update(self.extra)
        if 'exhaustive' in cov and not isinstance(cov['exhaustive'], bool):   # schema: boolean
            cov['exhaustive_note'] = cov.pop('exhaustive')
        for k in ('evaluations', 'distinct_nontrivial', 'obligations', 'discharged', 'traces_validated_against_impl'):
            cov[k] = int(cov.get(k, 0))
        ev = {'property_id': self.pid, 'tier': self.tier, 'seed': self.seed, 'level': 'proof',
              'coverage': cov, 'assumptions': self.assumptions, 'wall_s': round(wall, 2),
              'violations': nviol}
        if not self.replay:
            edir = os.environ.get('VERIF_EVIDENCE_DIR', os.path.join(VERIF, 'evidence'))
            os.makedirs(edir, exist_ok=True)
            tmp = os.path.join(edir, f'.{self.pid}.tmp')
            json.dump(ev, open(tmp, 'w'), indent=1, default=str)
            os.replace(tmp, os.path.join(edir, f'{self.pid}.json'))
        for l in lines:
            print(l, flush=True)
        self.log(f'done: obligations {ndis}/{nob}, evaluations {cov["evaluations"]}, '
                 f'distinct {cov["distinct_nontrivial"]}, violations {nviol}, {wall:.1f}s')
        return 1 if nviol else 0


def np_seed(ctx, salt=0):
    import numpy as np
    return np.random.default_rng((ctx.seed * 1000003 + salt) % (2 ** 63))
