"""C18 — fail-closed translator of the surgery code into Gen/C18Gen.v:

* child templates and subdomain offset lists of MeshQuad1.to_meshtri (both styles), MeshHex1.to_meshtet,
  MeshWedge1.to_meshtet (structural: the integer lists are read from the ast);
* the vertex coordinates of RefHex / RefWedge (T1, exact evaluation of skfem.refdom);
* Mesh._reix and the retagging part of Mesh.restrict / remove_elements: straight-line NumPy code, every
  statement must be exactly one of the known shapes; the emitted definitions are compositions of the
  combinators of coq/model/C18_Surgery.v.
"""
import ast

import numpy as np

from . import t2
from .core import TranslateError, clist, cnat, cz

MESH = 'skfem/mesh/mesh.py'
QUAD = 'skfem/mesh/mesh_quad_1.py'
HEX = 'skfem/mesh/mesh_hex_1.py'
WEDGE = 'skfem/mesh/mesh_wedge_1.py'


def _body(fn):
    return [s for s in fn.body if not (isinstance(s, ast.Expr) and isinstance(s.value, ast.Constant)
                                       and isinstance(s.value.value, str))]


def _rows(n):
    """self.t[[a, b, ...]] -> [a, b, ...]"""
    if not (isinstance(n, ast.Subscript) and t2.src(n.value) == 'self.t' and isinstance(n.slice, ast.List)):
        raise TranslateError('expected self.t[[...]]: ' + t2.src(n))
    out = []
    for e in n.slice.elts:
        if not (isinstance(e, ast.Constant) and isinstance(e.value, int) and not isinstance(e.value, bool)
                and 0 <= e.value < 64):
            raise TranslateError('row number: ' + t2.src(n))
        out.append(e.value)
    return out


def _hstack_args(n):
    if not (isinstance(n, ast.Call) and t2.src(n.func) == 'np.hstack' and len(n.args) == 1
            and isinstance(n.args[0], ast.Tuple) and not n.keywords):
        raise TranslateError('expected np.hstack((...)): ' + t2.src(n)[:120])
    return n.args[0].elts


def _offsets(n, var='v'):
    """np.concatenate((v, v + nt, v + 2 * nt, ...)) -> [0, 1, 2, ...]"""
    if not (isinstance(n, ast.Call) and t2.src(n.func) == 'np.concatenate' and len(n.args) == 1
            and isinstance(n.args[0], ast.Tuple)):
        raise TranslateError('expected np.concatenate((...)): ' + t2.src(n))
    out = []
    for e in n.args[0].elts:
        s = t2.src(e)
        if s == var:
            out.append(0)
        elif s == f'{var} + nt':
            out.append(1)
        elif (isinstance(e, ast.BinOp) and isinstance(e.op, ast.Add) and t2.src(e.left) == var
              and isinstance(e.right, ast.BinOp) and isinstance(e.right.op, ast.Mult)
              and isinstance(e.right.left, ast.Constant) and isinstance(e.right.left.value, int)
              and t2.src(e.right.right) == 'nt'):
            out.append(e.right.left.value)
        else:
            raise TranslateError('subdomain offset: ' + s)
    return out


def nat_mat(m):
    return clist([clist([cnat(x) for x in r]) for r in m])


def translate_quad():
    tree = t2.parse(QUAD)
    fn = t2.find_def(tree, 'to_meshtri', 'MeshQuad1')
    body = _body(fn)
    first = body[0]
    if not (isinstance(first, ast.If) and t2.src(first.test) == "style == 'x'" and len(first.body) == 2
            and len(first.orelse) == 1):
        raise TranslateError('to_meshtri: first statement is not the style branch')
    tnew, tx = first.body
    # tnew = np.arange(<base>, <base> + self.t.shape[1], dtype=np.int32): where are the centre nodes numbered from?
    v = tnew.value if isinstance(tnew, ast.Assign) and t2.src(tnew.targets[0]) == 'tnew' else None
    if not (isinstance(v, ast.Call) and t2.src(v.func) == 'np.arange' and len(v.args) == 2
            and [k.arg for k in v.keywords] == ['dtype'] and t2.src(v.args[1]) == t2.src(v.args[0]) + ' + self.t.shape[1]'):
        raise TranslateError('to_meshtri: tnew: ' + t2.src(tnew))
    bases = {'self.doflocs.shape[1]': 'npts', 'self.p.shape[1]': 'npts', 'np.max(self.t) + 1': 'maxt1'}
    if t2.src(v.args[0]) not in bases:
        raise TranslateError('to_meshtri: first centre node number: ' + t2.src(v.args[0]))
    base = bases[t2.src(v.args[0])]
    if not (isinstance(tx, ast.Assign) and t2.src(tx.targets[0]) == 't'):
        raise TranslateError('to_meshtri: t (style x)')
    split_x = []
    for e in _hstack_args(tx.value):
        if not (isinstance(e, ast.Call) and t2.src(e.func) == 'np.vstack' and len(e.args) == 1
                and isinstance(e.args[0], ast.Tuple) and len(e.args[0].elts) == 2
                and t2.src(e.args[0].elts[1]) == 'tnew'):
            raise TranslateError('to_meshtri: child (style x): ' + t2.src(e))
        split_x.append(_rows(e.args[0].elts[0]))
    td = first.orelse[0]
    if not (isinstance(td, ast.Assign) and t2.src(td.targets[0]) == 't'):
        raise TranslateError('to_meshtri: t (default style)')
    split = [_rows(e) for e in _hstack_args(td.value)]
    if t2.src(body[1]) != 'nt = self.t.shape[1]':
        raise TranslateError('to_meshtri: nt')
    # subdomains
    sub_if = [s for s in body if isinstance(s, ast.If) and t2.src(s.test) == 'self.subdomains']
    s = t2.only(sub_if, 'to_meshtri: if self.subdomains')
    inner = t2.only(s.body, 'to_meshtri: subdomain branch')
    if not (isinstance(inner, ast.If) and t2.src(inner.test) == "style == 'x'"):
        raise TranslateError('to_meshtri: subdomain style branch')
    offs = []
    for st in (t2.only(inner.body, 'x'), t2.only(inner.orelse, 'default')):
        v = st.value
        if not (isinstance(st, ast.Assign) and t2.src(st.targets[0]) == 'subdomains' and isinstance(v, ast.DictComp)
                and t2.src(v.key) == 'k' and t2.src(v.generators[0].target) == '(k, v)'
                and t2.src(v.generators[0].iter) == 'self.subdomains.items()' and not v.generators[0].ifs):
            raise TranslateError('to_meshtri: subdomains: ' + t2.src(st))
        offs.append(_offsets(v.value))
    # centre points of style x
    pif = [s for s in body if isinstance(s, ast.If) and t2.src(s.test) == "style == 'x'" and s is not first
           and isinstance(s.body[0], ast.Assign) and t2.src(s.body[0].targets[0]) == 'p']
    pst = t2.only(pif, 'to_meshtri: p')
    if t2.src(pst.body[0]) != 'p = np.hstack((self.doflocs, self.doflocs[:, self.t].mean(axis=1)))' \
            or t2.src(pst.orelse[0]) != 'p = self.doflocs':
        raise TranslateError('to_meshtri: p: ' + t2.src(pst))
    return (f'Definition gen_quad_split : mat nat := {nat_mat(split)}.\n'
            f'Definition gen_quad_split_x : mat nat := {nat_mat(split_x)}.   (* each followed by the centre node *)\n'
            f'Definition gen_quad_sub_offsets : list nat := {clist([cnat(x) for x in offs[1]])}.\n'
            f'Definition gen_quad_sub_offsets_x : list nat := {clist([cnat(x) for x in offs[0]])}.\n'
            f'(* number of the first centre node of style x, given |p| and max(t) + 1 *)\n'
            f'Definition gen_quad_x_base (npts maxt1 : nat) : nat := {base}.')


def translate_tets():
    out = []
    for rel, cls, nm in ((HEX, 'MeshHex1', 'hex'), (WEDGE, 'MeshWedge1', 'wedge')):
        fn = t2.find_def(t2.parse(rel), 'to_meshtet', cls)
        body = _body(fn)
        if len(body) != 2 or t2.src(body[1]) != 'return MeshTet1(self.doflocs, t)':
            raise TranslateError(f'{cls}.to_meshtet: statements')
        if not (isinstance(body[0], ast.Assign) and t2.src(body[0].targets[0]) == 't'):
            raise TranslateError(f'{cls}.to_meshtet: t')
        split = [_rows(e) for e in _hstack_args(body[0].value)]
        out.append(f'Definition gen_{nm}_split : mat nat := {nat_mat(split)}.')
    import skfem.refdom as rd
    for nm, ref in (('hex', rd.RefHex), ('wedge', rd.RefWedge)):
        p = np.asarray(ref.p)
        if p.shape[0] != 3 or not np.all(p == np.round(p)):
            raise TranslateError(f'{ref.__name__}.p is not an integer 3 x n table')
        pts = clist(['(' + ', '.join(cz(int(x)) for x in p[:, i]) + ')' for i in range(p.shape[1])])
        out.append(f'Definition gen_ref{nm}_p : list pt3 := {pts}.')
    return '\n'.join(out)


REIX = ['ixuniq = np.unique(ix)',
        't = np.zeros(np.max(ix) + 1, dtype=np.int32)',
        't[ixuniq] = np.arange(len(ixuniq), dtype=np.int32)',
        'return (np.ascontiguousarray(self.p[:, ixuniq]), np.ascontiguousarray(t[ix]), ixuniq)']

RESTRICT_SUB = ['newt = np.zeros(self.t.shape[1], dtype=np.int32) - 1',
                'newt[elements] = np.arange(len(elements), dtype=np.int32)',
                'new_subdomains = {k: newt[np.intersect1d(self.subdomains[k], elements).astype(np.int32)] '
                'for k in self.subdomains}']
RESTRICT_BND = ['newf = np.zeros(self.facets.shape[1], dtype=np.int32) - 1',
                'facets = np.unique(self.t2f[:, elements])',
                'newf[facets] = np.arange(len(facets), dtype=np.int32)',
                'new_boundaries = {k: newf[self.boundaries[k]] for k in self.boundaries}',
                'new_boundaries = {k: v[v >= 0] for k, v in new_boundaries.items()}']


def translate_restrict():
    tree = t2.parse(MESH)
    rx = _body(t2.find_def(tree, '_reix', 'Mesh'))
    if [t2.src(s) for s in rx] != REIX:
        raise TranslateError('_reix: ' + repr([t2.src(s) for s in rx]))
    rs = _body(t2.find_def(tree, 'restrict', 'Mesh'))
    src = [t2.src(s) for s in rs]
    # ALL nodes of the kept elements are renumbered (second-order meshes); the returned map is reduced to the vertices
    if src[0] != 'elements = self.normalize_elements(elements)' \
            or src[1] != 'p, t, ix = self._reix(self.dofs.element_dofs[:, elements])' \
            or src[2] != 'ix = ix[np.unique(t[:self.t.shape[0]])]':
        raise TranslateError('restrict: head: ' + repr(src[:3]))
    ifs = [s for s in rs if isinstance(s, ast.If)]
    # the two retagging blocks are identified by their BODY; their guards and the initial values are translated
    sub = [s for s in ifs if [t2.src(x) for x in s.body] == RESTRICT_SUB and not s.orelse]
    bnd = [s for s in ifs if [t2.src(x) for x in s.body] == RESTRICT_BND and not s.orelse]
    if len(sub) != 1:
        raise TranslateError('restrict: subdomain retagging: ' + repr([[t2.src(x) for x in s.body] for s in ifs]))
    if len(bnd) != 1:
        raise TranslateError('restrict: boundary retagging: ' + repr([[t2.src(x) for x in s.body] for s in ifs]))
    sub, bnd = sub[0], bnd[0]
    guards = {}
    for blk, kind, var in ((sub, 'subdomains', 'new_subdomains'), (bnd, 'boundaries', 'new_boundaries')):
        tests = {f'not skip_subdomains and self.{kind} is not None': 'skip_subdomains',
                 f'not skip_boundaries and self.{kind} is not None': 'skip_boundaries'}
        if t2.src(blk.test) not in tests:
            raise TranslateError(f'restrict: guard of the {kind} block: ' + t2.src(blk.test))
        guards[kind] = tests[t2.src(blk.test)]
        # the value handed over when the block is skipped
        prev = rs[rs.index(blk) - 1]
        if t2.src(prev) != f'{var} = None':
            raise TranslateError(f'restrict: initial value of {var}: ' + t2.src(prev))
    rep = [s for s in rs if isinstance(s, ast.Assign) and t2.src(s.targets[0]) == 'out']
    rep = t2.only(rep, 'restrict: out = replace(...)')
    if t2.src(rep.value) != ('replace(self, doflocs=p, t=t, _boundaries=new_boundaries, '
                             '_subdomains=new_subdomains)'):
        raise TranslateError('restrict: replace: ' + t2.src(rep.value))
    rm = _body(t2.find_def(tree, 'remove_elements', 'Mesh'))
    if [t2.src(s) for s in rm] != ['elements = self.normalize_elements(elements)',
                                   'return self.restrict(np.setdiff1d(np.arange(self.t.shape[1], dtype=np.int32), '
                                   'elements))']:
        raise TranslateError('remove_elements: ' + repr([t2.src(s) for s in rm]))
    un = _body(t2.find_def(tree, 'remove_unused_nodes', 'Mesh'))
    if [t2.src(s) for s in un] != ['p, t, _ = self._reix(self.dofs.element_dofs)', 'return replace(self, doflocs=p, t=t)']:
        raise TranslateError('remove_unused_nodes: ' + repr([t2.src(s) for s in un]))
    return '''(* Mesh._reix *)
Definition gen_reix_uniq (ix : mat nat) : list nat := unique_nat (concat ix).              (* np.unique(ix) *)
Definition gen_reix_table (ix : mat nat) : list nat :=
  let ixuniq := gen_reix_uniq ix in
  let t := repeat 0 (list_max (concat ix) + 1) in                                         (* np.zeros(np.max(ix) + 1) *)
  scatter ixuniq (seq 0 (length ixuniq)) t.                                               (* t[ixuniq] = arange(len(ixuniq)) *)
Definition gen_reix_t (ix : mat nat) : mat nat := map (map (fun v => nth v (gen_reix_table ix) 0)) ix.   (* t[ix] *)
Definition gen_reix_p {P} (d : P) (p : list P) (ix : mat nat) : list P := gather d p (gen_reix_uniq ix). (* self.p[:, ixuniq] *)
(* Mesh.restrict *)
Definition gen_restrict_ix {A} (d : A) (edofs : mat A) (elements : list nat) : mat A := take_cols d edofs elements.   (* self.dofs.element_dofs[:, elements] *)
(* ix = ix[np.unique(t[:M])] : old numbers of the vertices of the restricted mesh, M = number of vertex rows *)
Definition gen_restrict_vertex_map (M : nat) (ix : mat nat) : list nat :=
  gather 0 (reix_uniq ix) (unique_nat (concat (firstn M (reix_t ix)))).
Definition gen_restrict_subdomain (nt : nat) (elements sub : list nat) : list Z :=
  let newt := repeat (- 1)%Z nt in                                                        (* zeros(nt) - 1 *)
  let newt := scatter elements (map Z.of_nat (seq 0 (length elements))) newt in           (* newt[elements] = arange *)
  map (fun c => nth c newt (- 1)%Z) (intersect1d sub elements).                           (* newt[intersect1d(sub, elements)] *)
Definition gen_restrict_boundary (nf : nat) (t2f : mat nat) (elements b : list nat) : list Z :=
  let newf := repeat (- 1)%Z nf in
  let facets := unique_nat (concat (take_cols 0 t2f elements)) in                         (* np.unique(self.t2f[:, elements]) *)
  let newf := scatter facets (map Z.of_nat (seq 0 (length facets))) newf in
  let v := map (fun f => nth f newf (- 1)%Z) b in                                         (* newf[self.boundaries[k]] *)
  filter (fun x => (0 <=? x)%Z) v.                                                        (* v[v >= 0] *)
(* Mesh.restrict, options: a kind of tags is retagged iff it is present and its guard does not skip it; otherwise None *)
Definition gen_restrict_keeps_subdomains (skip_boundaries skip_subdomains : bool) : bool := negb @@GS@@.
Definition gen_restrict_keeps_boundaries (skip_boundaries skip_subdomains : bool) : bool := negb @@GB@@.
(* Mesh.remove_elements *)
Definition gen_remove_kept (nt : nat) (elements : list nat) : list nat := setdiff_range nt elements.'''.replace('@@GS@@', guards['subdomains']).replace('@@GB@@', guards['boundaries'])


DEDUPE = ['tmp = np.ascontiguousarray(p.T)',
          "tmp, ixa, ixb = np.unique(tmp.view([('', tmp.dtype)] * tmp.shape[1]), return_index=True, "
          "return_inverse=True)",
          'return (p[:, ixa], Mesh._squeeze_if(ixb[t]))']
ADD = ['cls = type(self)',
       "if not isinstance(other, cls):\n    raise TypeError('Can only join meshes with same type.')",
       'p = np.hstack((self.p.round(decimals=8), other.p.round(decimals=8)))',
       't = np.hstack((self.dofs.element_dofs, other.dofs.element_dofs + self.p.shape[1]))',
       'return cls(*self._remove_duplicate_nodes(p, t))']
CARRY = ("if self.boundaries:\n    boundaries = {}\n    nv = p.shape[1]\n"
         "    keys = mesh.facets[0].astype(np.int64) * nv + mesh.facets[1]\n"
         "    for k, ixs in self.boundaries.items():\n        order = np.argsort(ixs, kind='stable')\n"
         "        facets = self.facets[:, np.asarray(ixs)[order]]\n"
         "        newf = np.searchsorted(keys, facets[0].astype(np.int64) * nv + facets[1]).astype(np.int32)\n"
         "        if isinstance(ixs, OrientedBoundary):\n"
         "            cells = self.f2t[ixs.ori[order], np.asarray(ixs)[order]]\n"
         "            ori = mesh.f2t[0, newf] % nt != cells\n"
         "            boundaries[k] = OrientedBoundary(newf, ori)\n        else:\n            boundaries[k] = newf")


def translate_join():
    tree = t2.parse(MESH)
    dd = _body(t2.find_def(tree, '_remove_duplicate_nodes', 'Mesh'))
    if [t2.src(s) for s in dd] != DEDUPE:
        raise TranslateError('_remove_duplicate_nodes: ' + repr([t2.src(s) for s in dd]))
    ad = _body(t2.find_def(tree, '__add__', 'Mesh'))
    if [t2.src(s) for s in ad] != ADD:
        raise TranslateError('__add__: ' + repr([t2.src(s) for s in ad]))
    q = t2.find_def(t2.parse(QUAD), 'to_meshtri', 'MeshQuad1')
    carry = [s for s in _body(q) if isinstance(s, ast.If) and t2.src(s.test) == 'self.boundaries']
    carry = t2.only(carry, 'to_meshtri: if self.boundaries')
    # width of the integer arithmetic of the lookup keys: both products are cast to int64, or neither (int32 of the tables)
    csrc = t2.src(carry)
    ncast = csrc.count('.astype(np.int64)')
    if ncast not in (0, 2) or csrc.replace('.astype(np.int64)', '') != CARRY.replace('.astype(np.int64)', ''):
        raise TranslateError('to_meshtri: boundary carry-over: ' + csrc)
    bits = 64 if ncast == 2 else 32
    return '''(* Mesh._remove_duplicate_nodes: np.unique of the coordinate tuples with return_index / return_inverse *)
Definition gen_dedupe_p (p : list key) : list key :=
  let tmp := unique_keys p in                                         (* sorted distinct tuples *)
  let ixa := map (fun k => index_key k p) tmp in                      (* return_index: first occurrence *)
  gather [] p ixa.                                                    (* p[:, ixa] *)
Definition gen_dedupe_t (p : list key) (t : mat nat) : mat nat :=
  let ixb := map (fun k => index_key k (unique_keys p)) p in          (* return_inverse *)
  map (map (fun v => nth v ixb 0)) t.                                 (* ixb[t] *)
(* Mesh.__add__ (coordinates already rounded to 8 decimals) *)
Definition gen_join_p (p1 p2 : list key) : list key := gen_dedupe_p (p1 ++ p2).                    (* hstack((self.p, other.p)) *)
Definition gen_join_t (p1 p2 : list key) (t1 t2 : mat nat) : mat nat :=   (* t1, t2 = ALL node rows: dofs.element_dofs *)
  gen_dedupe_t (p1 ++ p2) (hstack2 t1 (map (map (fun v => v + length p1)) t2)).                  (* hstack((edofs1, edofs2 + n1)) *)
(* MeshQuad1.to_meshtri, boundaries: every tagged facet is looked up on its own among the sorted facets of the triangle mesh *)
Definition gen_carry_boundary (nv : nat) (old_facets new_facets : mat nat) (ixs : list nat) : list nat :=
  let keys := map (fun f => nth 0 f 0 * nv + nth 1 f 0) new_facets in                     (* mesh.facets[0] * nv + mesh.facets[1] *)
  map (fun i => searchsorted keys (facet_key nv (nth i old_facets []))) (sort_nat ixs).     (* searchsorted(keys, key(facets[:, ixs[order]])) *)
Definition gen_key_bits : nat := @@BITS@@.   (* facets[0].astype(np.int64) * nv + facets[1] *)
Definition gen_carry_oriented := lookup_oriented.   (* cells = f2t[ori[order], ixs[order]]; ori = mesh.f2t[0, newf] % nt != cells *)'''.replace('@@BITS@@', str(bits))


SIMPLEX = 'skfem/mesh/mesh_simplex.py'
RDN = ['p, t = self._remove_duplicate_nodes(self.doflocs, self.dofs.element_dofs)',
       'm = replace(self, doflocs=p, t=t, _boundaries=None)',
       'if self._boundaries is None:\n    return m',
       'newp = np.zeros(self.doflocs.shape[1], dtype=np.int64)',
       'newp[self.t] = t if m.sort_t else m.t',
       'candidates = m.t2f[:, self.f2t[0]]',
       'match = (self._sort_entities(m.facets)[:, candidates] == self._sort_entities(newp[self.facets])[:, None])'
       '.all(axis=0)',
       'newf = candidates[match.argmax(axis=0), np.arange(self.nfacets)]',
       'boundaries = {}',
       'for name, ixs in self._boundaries.items():\n    if isinstance(ixs, OrientedBoundary):\n'
       '        ori = m.f2t[1, newf[ixs]] == self.f2t[ixs.ori, ixs]\n'
       '        boundaries[name] = OrientedBoundary(newf[ixs], ori)\n    else:\n'
       '        boundaries[name] = np.unique(newf[ixs])',
       'return replace(m, _boundaries=boundaries)']
ORIENTED = ['flip = np.nonzero(self.orientation() == -1)[0].astype(np.int32)', 't = self.t.copy()', 't0 = t[0, flip]',
            't1 = t[1, flip]', 't[0, flip] = t1', 't[1, flip] = t0', 'return replace(self, t=t, sort_t=False)']
TRACE = ['facets = self.normalize_facets(facets)', 'p, t, _ = self._reix(self.facets[:, facets])',
         'return ((Mesh if mtype is None else mtype)(project(p) if project is not None else p, t), facets)']


def translate_misc():
    """remove_duplicate_nodes (boundary remapping), morphed, oriented, trace"""
    tree = t2.parse(MESH)
    rdn = [t2.src(s) for s in _body(t2.find_def(tree, 'remove_duplicate_nodes', 'Mesh'))]
    if rdn != RDN:
        raise TranslateError('remove_duplicate_nodes: ' + repr(rdn))
    tr = [t2.src(s) for s in _body(t2.find_def(tree, 'trace', 'Mesh'))]
    if tr != TRACE:
        raise TranslateError('trace: ' + repr(tr))
    ori = [t2.src(s) for s in _body(t2.find_def(t2.parse(SIMPLEX), 'oriented', 'MeshSimplex'))]
    if ori != ORIENTED:
        raise TranslateError('oriented: ' + repr(ori))
    # morphed: which array do the coordinate functions see?
    mo = _body(t2.find_def(tree, 'morphed', 'Mesh'))
    if len(mo) != 3 or t2.src(mo[0]) != 'p = self.p.copy()' or t2.src(mo[2]) != 'return replace(self, doflocs=p)':
        raise TranslateError('morphed: statements ' + repr([t2.src(x) for x in mo]))
    loop = mo[1]
    if not (isinstance(loop, ast.For) and t2.src(loop.target) == '(i, arg)' and t2.src(loop.iter) == 'enumerate(args)'
            and not loop.orelse and len(loop.body) == 2 and t2.src(loop.body[0]) == 'if arg is None:\n    continue'):
        raise TranslateError('morphed: loop ' + t2.src(loop))
    st = loop.body[1]
    if not (isinstance(st, ast.Assign) and t2.src(st.targets[0]) == 'p[i]' and isinstance(st.value, ast.Call)
            and t2.src(st.value.func) == 'arg' and len(st.value.args) == 1 and not st.value.keywords):
        raise TranslateError('morphed: store ' + t2.src(st))
    seen = t2.src(st.value.args[0])
    if seen == 'self.p':
        step = 'morph_step p'
    elif seen == 'p':
        step = 'morph_step_seen'
    else:
        raise TranslateError('morphed: argument of the coordinate function: ' + seen)
    return f'''(* Mesh.remove_duplicate_nodes, remapping of the named boundaries *)
Definition gen_remap_newp (npts : nat) (t t' : mat nat) : list nat :=
  scatter (concat t) (concat t') (repeat 0 npts).                                          (* newp = zeros; newp[self.t] = t *)
Definition gen_remap_newf (canon : list nat -> list nat) (nslots : nat) (newp : list nat) (F F' t2f' : mat nat)
    (f2t0 : list nat) (f : nat) : nat :=
  let candidates s := nth (nth f f2t0 0) (nth s t2f' []) 0 in                               (* m.t2f[:, self.f2t[0]] *)
  let matched s := nats_same (canon (nth (candidates s) F' [])) (canon (map (fun v => nth v newp 0) (nth f F []))) in
  let s := first_true matched nslots 0 in                                                  (* match.argmax(axis=0) *)
  candidates (if s <? nslots then s else 0).
Definition gen_remap_tag := remap_tag.   (* np.unique(newf[ixs]) / OrientedBoundary(newf[ixs], m.f2t[1, newf[ixs]] == self.f2t[ixs.ori, ixs]) *)
(* Mesh.morphed: p[i] = arg({seen}) *)
Definition gen_morphed_rows {{R}} (p : list R) (args : list (option (list R -> R))) : list R :=
  fst (fold_left ({step}) args (p, 0)).
(* MeshSimplex.oriented *)
Definition gen_oriented_t (flip : list bool) (t : mat nat) : mat nat := swap_rows01 flip t.
(* Mesh.trace: self._reix(self.facets[:, facets]) *)
Definition gen_trace_ix (Frows : mat nat) (facets : list nat) : mat nat := take_cols 0 Frows facets.'''


def translate_matmul():
    """Mesh.__matmul__: the vertex offset of the j-th mesh of the list"""
    fn = t2.find_def(t2.parse(MESH), '__matmul__', 'Mesh')
    body = _body(fn)
    blk = [s for s in body if isinstance(s, ast.If) and t2.src(s.test) == 'isinstance(other, list)']
    blk = t2.only(blk, '__matmul__: list branch')
    srcs = [t2.src(x) for x in blk.body]
    # higher-order meshes are refused (their extra nodes would not be merged)
    if srcs[0] != ("if any((m.dofs.element_dofs.shape[0] > m.t.shape[0] for m in [self] + other)):\n    raise NotImplementedError("
                   "'Joining higher order meshes with shared points is not supported.')"):
        raise TranslateError('__matmul__: guard for higher-order meshes: ' + srcs[0])
    srcs = srcs[1:]
    if srcs[0] != 'p = np.hstack((self.p,) + tuple([mesh.p for mesh in other]))' or not isinstance(blk.body[-1], ast.Return):
        raise TranslateError('__matmul__: stacking of the points: ' + srcs[0])
    ret = blk.body[-1].value
    if not (isinstance(ret, ast.List) and len(ret.elts) == 2 and isinstance(ret.elts[1], ast.Starred)
            and t2.src(ret.elts[0]) == 'cls(p, self._squeeze_if(ixb[self.t]))'):
        raise TranslateError('__matmul__: return: ' + t2.src(ret))
    lc = ret.elts[1].value
    if not (isinstance(lc, ast.ListComp) and t2.src(lc.generators[0].target) == '(i, m)'
            and t2.src(lc.generators[0].iter) == 'enumerate(other)'):
        raise TranslateError('__matmul__: comprehension: ' + t2.src(lc))
    e = t2.src(lc.elt)
    if e == 'type(m)(p, self._squeeze_if(ixb[m.t + offsets[i]]))':
        if 'offsets = np.cumsum([self.p.shape[1]] + [mesh.p.shape[1] for mesh in other])' not in srcs:
            raise TranslateError('__matmul__: offsets: ' + repr(srcs))
        off = 'list_sum (firstn j lens)'          # offsets[j - 1] = n_0 + ... + n_{j-1} for the j-th mesh overall
    elif e == 'type(m)(p, self._squeeze_if(ixb[m.t + self.p.shape[1]]))':
        off = 'nth 0 lens 0'
    else:
        raise TranslateError('__matmul__: element: ' + e)
    return ('(* Mesh.__matmul__: number added to the vertices of the j-th mesh (j >= 1) of [self] + other; lens = point counts *)\n'
            f'Definition gen_matmul_offset (lens : list nat) (j : nat) : nat := {off}.')


TRI = 'skfem/mesh/mesh_tri_1.py'
LINE = 'skfem/mesh/mesh_line_1.py'
MUL = ("if isinstance(other, MeshLine1):\n    points = np.zeros((3, 0), dtype=np.float64)\n    wedges = np.zeros((6, 0), dtype=np.int32)\n"
       "    diff = 0\n    levels, iscell = other._intervals()\n    for i, p in enumerate(levels):\n"
       "        points = np.hstack((points, np.vstack((self.p, np.array(self.p.shape[1] * [p])))))\n"
       "        if not iscell[i]:\n            pass\n        else:\n"
       "            wedges = np.hstack((wedges, np.vstack((self.t + diff, self.t + self.p.shape[1] + diff))))\n"
       "        diff += self.p.shape[1]\n    return MeshWedge1(points, wedges)")
INTERVALS = ['x = np.unique(self.p[0, self.t])', 'ends = np.searchsorted(x, np.sort(self.p[0, self.t], axis=0))',
             'iscell = np.zeros(len(x), dtype=bool)', 'iscell[ends[0, ends[1] == ends[0] + 1]] = True', 'return (x, iscell)']


def translate_extrude():
    """MeshTri1.__mul__ and MeshLine1._intervals (statement-exact)"""
    mul = t2.find_def(t2.parse(TRI), '__mul__', 'MeshTri1')
    blk = [s for s in _body(mul) if isinstance(s, ast.If)]
    blk = t2.only(blk, 'MeshTri1.__mul__: if isinstance(other, MeshLine1)')
    if t2.src(blk) != MUL:
        raise TranslateError('MeshTri1.__mul__: ' + t2.src(blk))
    iv = [t2.src(s) for s in _body(t2.find_def(t2.parse(LINE), '_intervals', 'MeshLine1'))]
    if iv != INTERVALS:
        raise TranslateError('MeshLine1._intervals: ' + repr(iv))
    return '''(* MeshLine1._intervals *)
Definition gen_line_levels (pz t0 t1 : list nat) : list nat := unique_nat (map (fun v => nth v pz 0) (t0 ++ t1)).   (* np.unique(p[0, t]) *)
Definition gen_line_iscell := line_iscell.   (* iscell[ends[0, ends[1] == ends[0] + 1]] = True, ends = searchsorted(x, sort(p[0, t], axis=0)) *)
(* MeshTri1.__mul__: level i = the points shifted by i * p.shape[1]; a layer of wedges only where iscell[i] *)
Definition gen_extrude_t (nv : nat) (iscell : list bool) (t : mat nat) : mat nat :=
  extrude_cells_t nv (filter (fun i => nth i iscell false) (seq 0 (length iscell))) t.'''


HEADER = '''(* GENERATED by vlib/c18_translate.py from skfem/mesh/mesh.py, mesh_quad_1.py, mesh_hex_1.py, mesh_wedge_1.py,
   refdom.py — do not edit *)
From Coq Require Import List Arith Bool ZArith.
Import ListNotations.
Require Import Model.C18_Surgery.
'''


def translate():
    """(text of Gen/C18Gen.v, list of (part, error)); parts are translated independently"""
    errors, parts = [], [HEADER]
    for name, fn in (('mesh_quad_1.py: to_meshtri', translate_quad), ('mesh_hex_1.py / mesh_wedge_1.py: to_meshtet, refdom', translate_tets),
                     ('mesh.py: _reix, restrict, remove_elements, remove_unused_nodes', translate_restrict),
                     ('mesh.py: _remove_duplicate_nodes, __add__; mesh_quad_1.py: boundary carry-over', translate_join),
                     ('mesh.py: remove_duplicate_nodes, morphed, trace; mesh_simplex.py: oriented', translate_misc),
                     ('mesh.py: __matmul__', translate_matmul),
                     ('mesh_tri_1.py: __mul__; mesh_line_1.py: _intervals', translate_extrude)):
        try:
            parts.append(fn())
        except TranslateError as e:
            errors.append((name, str(e)))
    return '\n\n'.join(parts) + '\n', errors
