"""T1 tie of C09/C03: run the REAL ``lbasis`` of an element on symbolic polynomial objects.

``Poly`` is a sparse multivariate polynomial over ``fractions.Fraction``.  The real ``lbasis(X, i)`` is
called with ``X`` an object-dtype ndarray of shape ``(dim, 1)`` (one "quadrature point" whose coordinates
are the indeterminates), exactly the array layout the library uses, so ``x, y = X``, ``0. * x``,
``np.zeros_like(x)``, ``np.array([...])`` … behave as in a numerical call and every arithmetic operation
lands in ``Poly.__add__`` etc.  Float constants are accepted only when a rational with denominator
<= 2**20 round-trips to exactly that double (``rat``); anything else raises ``NonRational``.  Unknown
operations (comparisons, sqrt, assignment into float arrays …) raise — fail closed.
"""
from fractions import Fraction as Fr

import numpy as np


class NonRational(Exception):
    pass


class SymbolicError(Exception):
    pass


# Only for the integrated-Legendre family (vlib/c09_pp.py): NumPy computes the coefficients of Legendre(c).integ() in
# floats, so they carry round-off (e.g. an integration constant of -5.6e-17 instead of 0).  With SNAP on, a float is
# replaced by the small-denominator rational within 4e-16 (relative to max(1,|c|)) of it — the IDEAL coefficient —
# and the tie of those classes is the tolerance correspondence, not exact evaluation.  Off for every other class.
SNAP = False


def rat(c):
    """exact rational meant by a numeric literal/constant of the source"""
    if isinstance(c, Fr):
        return c
    if isinstance(c, (bool, np.bool_)):
        raise SymbolicError('boolean used as number')
    if isinstance(c, (int, np.integer)):
        return Fr(int(c))
    if isinstance(c, (float, np.floating)):
        c = float(c)
        if c != c or c in (float('inf'), float('-inf')):
            raise NonRational(f'non-finite constant {c!r}')
        f = Fr(c).limit_denominator(1 << 20)
        if float(f) != c:
            if SNAP and abs(float(f) - c) <= 4e-16 * max(1.0, abs(c)):
                return f
            raise NonRational(f'constant {c!r} is not a small-denominator rational')
        return f
    raise SymbolicError(f'not a number: {type(c).__name__}')


class Poly:
    """sparse polynomial: dict exponent-tuple -> Fraction (no zero coefficients)"""
    __slots__ = ('t', 'nv')
    __array_priority__ = 1000
    # Q(sqrt r): when set to (variable index, r) that variable stands for sqrt(r): powers are reduced with s^2 = r on
    # construction and division by a polynomial in s alone is carried out in the field (only for ElementTriBDM1)
    SQRT = None

    def __init__(self, t, nv):
        if Poly.SQRT is not None and Poly.SQRT[0] < nv:
            idx, r = Poly.SQRT
            red = {}
            for k, v in t.items():
                if k[idx] >= 2:
                    v = v * Fr(r) ** (k[idx] // 2)
                    k = k[:idx] + (k[idx] % 2,) + k[idx + 1:]
                red[k] = red.get(k, 0) + v
            t = red
        self.t = {k: v for k, v in t.items() if v != 0}
        self.nv = nv

    def _field_inverse(self):
        """1 / (a + b s) in Q(sqrt r), for a polynomial in the variable s alone"""
        if Poly.SQRT is None:
            raise SymbolicError('division by a non-constant polynomial')
        idx, r = Poly.SQRT
        a = b = Fr(0)
        for k, v in self.t.items():
            if any(e for j, e in enumerate(k) if j != idx) or k[idx] > 1:
                raise SymbolicError('division by a polynomial in the coordinates')
            if k[idx] == 0:
                a = v
            else:
                b = v
        den = a * a - r * b * b
        if den == 0:
            raise SymbolicError('division by zero')
        e0 = (0,) * self.nv
        e1 = tuple(1 if j == idx else 0 for j in range(self.nv))
        return Poly({e0: a / den, e1: -b / den}, self.nv)

    # constructors
    @staticmethod
    def var(i, nv):
        return Poly({tuple(1 if j == i else 0 for j in range(nv)): Fr(1)}, nv)

    @staticmethod
    def const(c, nv):
        return Poly({(0,) * nv: rat(c)}, nv)

    def _lift(self, o):
        if isinstance(o, Poly):
            if o.nv != self.nv:
                raise SymbolicError('mixed dimensions')
            return o
        if isinstance(o, np.ndarray):
            return NotImplemented
        return Poly.const(o, self.nv)

    @staticmethod
    def _elementwise(f, arr):
        """Poly (op) ndarray: apply the scalar operation to every entry (NumPy defers to us because of the priority)"""
        out = np.empty(arr.shape, dtype=object)
        for idx in np.ndindex(arr.shape):
            out[idx] = f(arr[idx])
        return out

    # ring operations
    def __add__(self, o):
        if isinstance(o, np.ndarray):
            return Poly._elementwise(lambda v: self + v, o)
        o = self._lift(o)
        if o is NotImplemented:
            return o
        t = dict(self.t)
        for k, v in o.t.items():
            t[k] = t.get(k, 0) + v
        return Poly(t, self.nv)
    __radd__ = __add__

    def __neg__(self):
        return Poly({k: -v for k, v in self.t.items()}, self.nv)

    def __pos__(self):
        return self

    def __sub__(self, o):
        if isinstance(o, np.ndarray):
            return Poly._elementwise(lambda v: self - v, o)
        o = self._lift(o)
        if o is NotImplemented:
            return o
        return self + (-o)

    def __rsub__(self, o):
        if isinstance(o, np.ndarray):
            return Poly._elementwise(lambda v: v - self, o)
        o = self._lift(o)
        if o is NotImplemented:
            return o
        return o + (-self)

    def __mul__(self, o):
        if isinstance(o, np.ndarray):
            return Poly._elementwise(lambda v: self * v, o)
        o = self._lift(o)
        if o is NotImplemented:
            return o
        t = {}
        for k1, v1 in self.t.items():
            for k2, v2 in o.t.items():
                k = tuple(a + b for a, b in zip(k1, k2))
                t[k] = t.get(k, 0) + v1 * v2
        return Poly(t, self.nv)
    __rmul__ = __mul__

    def is_const(self):
        return all(all(e == 0 for e in k) for k in self.t)

    def const_value(self):
        assert self.is_const()
        return self.t.get((0,) * self.nv, Fr(0))

    def __truediv__(self, o):
        if isinstance(o, np.ndarray):
            return NotImplemented
        if isinstance(o, Poly):
            if not o.is_const():
                return self * o._field_inverse()
            o = o.const_value()
        o = rat(o)
        if o == 0:
            raise SymbolicError('division by zero')
        return self * (1 / o)

    def __rtruediv__(self, o):
        if not self.is_const():
            return self._field_inverse() * o
        if self.const_value() == 0:
            raise SymbolicError('division by a non-constant polynomial')
        return Poly.const(rat(o) / self.const_value(), self.nv)

    def __pow__(self, k):
        if isinstance(k, Poly):
            raise SymbolicError('polynomial exponent')
        k = rat(k)
        if k.denominator != 1 or k < 0:
            raise SymbolicError(f'exponent {k}')
        r = Poly.const(1, self.nv)
        for _ in range(int(k)):
            r = r * self
        return r

    # everything that would make the result depend on a *value* of the indeterminates is refused
    def _refuse(self, *a, **k):
        raise SymbolicError('comparison / truth value / conversion of a symbolic coordinate')
    __lt__ = __le__ = __gt__ = __ge__ = __bool__ = __float__ = __int__ = __abs__ = _refuse
    __hash__ = None

    def __eq__(self, o):
        raise SymbolicError('comparison of a symbolic coordinate')

    def __ne__(self, o):
        raise SymbolicError('comparison of a symbolic coordinate')

    def sqrt(self):  # np.sqrt on object arrays calls .sqrt()
        raise SymbolicError('sqrt of a symbolic coordinate')

    # analysis
    def degree(self):
        return max([sum(k) for k in self.t] or [0])

    def deriv(self, i):
        t = {}
        for k, v in self.t.items():
            if k[i] > 0:
                kk = tuple(e - 1 if j == i else e for j, e in enumerate(k))
                t[kk] = t.get(kk, 0) + v * k[i]
        return Poly(t, self.nv)

    def __call__(self, pt):
        s = Fr(0)
        for k, v in self.t.items():
            for x, e in zip(pt, k):
                v = v * Fr(x) ** e
            s += v
        return s

    def subst(self, polys):
        """composition with a tuple of polynomials (one per variable)"""
        nv = polys[0].nv
        out = Poly({}, nv)
        for k, v in self.t.items():
            term = Poly.const(v, nv)
            for q, e in zip(polys, k):
                term = term * q ** e
            out = out + term
        return out

    def terms(self):
        return sorted(self.t.items())

    def key(self):
        return tuple(self.terms())

    def __repr__(self):
        if not self.t:
            return '0'
        names = 'xyz'
        out = []
        for k, v in sorted(self.t.items(), reverse=True):
            mon = '*'.join(f'{names[j]}^{e}' if e > 1 else names[j] for j, e in enumerate(k) if e)
            out.append(f'{v}' + ('*' + mon if mon else ''))
        return ' + '.join(out)


def sym_points(dim):
    """the (dim, 1) object array handed to lbasis"""
    X = np.empty((dim, 1), dtype=object)
    for k in range(dim):
        X[k, 0] = Poly.var(k, dim)
    return X


def to_poly_tree(a, dim):
    """a returned field (ndarray / scalar / Poly / None) -> nested lists of Poly with the trailing point axis
    (length 1) removed; numeric entries become constants through ``rat``"""
    if a is None:
        return None
    if isinstance(a, Poly):
        return a
    arr = np.asarray(a, dtype=object) if not isinstance(a, np.ndarray) else a
    if arr.ndim == 0:
        v = arr[()]
        return v if isinstance(v, Poly) else Poly.const(v, dim)
    if arr.shape[-1] != 1:
        raise SymbolicError(f'returned field has shape {arr.shape}, trailing axis is not the point axis')

    def rec(x):
        if x.ndim == 1:
            v = x[0]
            return v if isinstance(v, Poly) else Poly.const(v, dim)
        return [rec(x[j]) for j in range(x.shape[0])]
    return rec(arr)


def nbfun(elem):
    return int(sum(elem._bfun_counts()))


def run_lbasis(elem):
    """list over local indices of tuples of poly trees, as the real lbasis returns them"""
    dim = elem.refdom.dim()
    out = []
    for i in range(nbfun(elem)):
        X = sym_points(dim)
        res = elem.lbasis(X, i)
        if not isinstance(res, tuple):
            raise SymbolicError('lbasis did not return a tuple')
        out.append(tuple(to_poly_tree(f, dim) for f in res))
    return out


def shape_of(tree):
    if tree is None:
        return None
    if isinstance(tree, Poly):
        return ()
    return (len(tree),) + shape_of(tree[0])
