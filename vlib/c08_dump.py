"""C08, tie T1: the complete behaviour of skfem.quadrature.get_quadrature, obtained by CALLING it.

Every binary64 the function returns is converted to its exact value m * 2^e (Fraction(float) is
exact); node coordinates of all rules of one run are expressed in units of one common power of
two (``KX``), the weights of a rule in units of that rule's own power of two.  Nodes are sorted
lexicographically (the property does not depend on their order; the tensor comparison does).
"""
from fractions import Fraction

import numpy as np

CELLS = ['RefPoint', 'RefLine', 'RefTri', 'RefQuad', 'RefTet', 'RefHex', 'RefWedge']
SHAPE = {'RefPoint': [], 'RefLine': [1], 'RefTri': [2], 'RefQuad': [1, 1], 'RefTet': [3],
         'RefHex': [1, 1, 1], 'RefWedge': [2, 1]}
COQ_ID = {'RefPoint': 'CPoint', 'RefLine': 'CLine', 'RefTri': 'CTri', 'RefQuad': 'CQuad',
          'RefTet': 'CTet', 'RefHex': 'CHex', 'RefWedge': 'CWedge'}
NMIN = -2
MAX_POINTS = 12000      # larger rules are not written out (a correct rule never is that large here)


def nmax(tier):
    q = tier == 'quick'
    return {'RefPoint': 24, 'RefLine': 40 if q else 80, 'RefTri': 24, 'RefQuad': 30 if q else 80,
            'RefTet': 24, 'RefHex': 14 if q else 40, 'RefWedge': 24}


def refdom(name):
    import skfem.refdom as rd
    return getattr(rd, name)


def dy(x):
    """binary64 -> (m, k) with x = m / 2^k exactly, k >= 0"""
    fr = Fraction(float(x))
    k = fr.denominator.bit_length() - 1
    assert fr.denominator == 1 << k
    return fr.numerator, k


class RuleDump:
    """one call get_quadrature(cell, n)"""

    def __init__(self, cell, n):
        self.cell, self.n = cell, n
        self.kind = None       # 'rule' | 'raises' | 'invalid'
        self.exc = None
        self.why = None
        self.X = self.W = None   # float arrays as returned
        self.nodes = None      # sorted list of (tuple of exact Fractions, Fraction)
        self.aliased = None    # set when a second request differs from the first after the first result was overwritten

    @property
    def key(self):
        return f'rule={self.cell}:order={self.n}'


def _scribble(X, W):
    """what a caller may legitimately do with arrays it was handed: overwrite them in place"""
    for a, v in ((X, 7.0), (W, -1.0)):
        try:
            a[...] = v
        except (ValueError, TypeError):      # read-only result: nothing to corrupt
            pass


def call(cell, n, twice=True):
    """get_quadrature(cell, n).  With ``twice`` the function is requested two times: the first result is copied and
    then overwritten in place, the second result must be bit-identical to the copy (the rule of a (cell, order) pair
    may not depend on what earlier callers did with their arrays); the SECOND answer is what is dumped and checked."""
    from skfem.quadrature import get_quadrature
    d = RuleDump(cell, n)
    first = None
    if twice:
        try:
            X0, W0 = get_quadrature(refdom(cell), n)
            X0, W0 = np.asarray(X0), np.asarray(W0)
            first = (X0.copy(), W0.copy())
            _scribble(X0, W0)
        except Exception:
            first = None
    try:
        X, W = get_quadrature(refdom(cell), n)
    except NotImplementedError:
        d.kind, d.exc = 'raises', 'NotImplementedError'
        return d
    except Exception as e:   # any other exception is also "raises an error"; recorded by type
        d.kind, d.exc = 'raises', type(e).__name__
        return d
    dim = sum(SHAPE[cell])
    X = np.asarray(X)
    W = np.asarray(W)
    d.X, d.W = X, W
    if first is not None and not (first[0].shape == X.shape and first[1].shape == W.shape
                                  and np.array_equal(first[0], X, equal_nan=True) and np.array_equal(first[1], W, equal_nan=True)):
        d.aliased = {'first_request_points': first[0].tolist()[:3], 'first_request_weights': first[1].tolist()[:8],
                     'second_request_points': X.tolist()[:3], 'second_request_weights': W.tolist()[:8]}
    if X.ndim != 2 or W.ndim != 1 or X.shape != (dim, W.shape[0]) or W.shape[0] == 0:
        d.kind, d.why = 'invalid', f'shapes {X.shape} {W.shape} for a {dim}-dimensional cell'
        return d
    if X.dtype.kind != 'f' or W.dtype.kind != 'f' or not (np.isfinite(X).all() and np.isfinite(W).all()):
        d.kind, d.why = 'invalid', f'dtype {X.dtype}/{W.dtype} or non-finite entries'
        return d
    nodes = [(tuple(Fraction(float(X[i, q])) for i in range(dim)), Fraction(float(W[q])))
             for q in range(W.shape[0])]
    nodes.sort()
    d.kind, d.nodes = 'rule', nodes
    return d


def dump_all(tier, cells=None):
    out = {}
    nm = nmax(tier)
    for cell in (cells or CELLS):
        for n in range(NMIN, nm[cell] + 1):
            out[(cell, n)] = call(cell, n)
    return out


def common_kx(dumps):
    k = 0
    for d in dumps.values():
        if d.kind == 'rule' and len(d.nodes) <= MAX_POINTS:
            for pt, _ in d.nodes:
                for x in pt:
                    k = max(k, x.denominator.bit_length() - 1)
    return k


def as_ints(d, kx):
    """(list of (coords ints, weight int), kw): x = X / 2^kx, w = W / 2^kw"""
    kw = max(w.denominator.bit_length() - 1 for _, w in d.nodes)
    out = []
    for pt, w in d.nodes:
        xs = []
        for x in pt:
            v = x * (1 << kx)
            assert v.denominator == 1
            xs.append(v.numerator)
        v = w * (1 << kw)
        assert v.denominator == 1
        out.append((xs, v.numerator))
    return out, kw
