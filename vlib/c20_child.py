"""C20 — the failing-input searches (helper oracle, operator oracle, NonlinearForm oracle) run in a child process while the
parent compiles the Coq files; this module is the child's entry point and the recorder it writes its findings to.

    python -m vlib.c20_child <seed> <tier> <out.json>
"""
import hashlib
import json
import sys
import time


class Recorder:
    """the subset of core.Ctx the oracles use; everything is replayed into the real Ctx by the parent"""

    def __init__(self, seed, tier):
        self.seed, self.tier = int(seed), tier
        self.t0 = time.time()
        self.failures, self.hists, self.extra, self.samples, self.logs = [], {}, {}, [], []
        self.evaluations = 0
        self.distinct = set()

    def quick(self):
        return self.tier == 'quick'

    def n(self, quick, thorough):
        return quick if self.tier == 'quick' else thorough

    def log(self, *a):
        self.logs.append(' '.join(str(x) for x in a))

    def count(self, case_repr, nontrivial=True):
        self.evaluations += 1
        if nontrivial:
            self.distinct.add(hashlib.sha1(repr(case_repr).encode()).hexdigest())

    def hist(self, key, val):
        d = self.hists.setdefault(key, {})
        d[str(val)] = d.get(str(val), 0) + 1

    def sample(self, s, limit=6):
        if len(self.samples) < limit:
            self.samples.append(s)

    def fail(self, key, what, data):
        for f in self.failures:
            if f['key'] == key:
                f['count'] = f.get('count', 1) + 1
                return
        self.failures.append({'key': key, 'what': what, 'data': data})


def main():
    seed, tier, out = sys.argv[1], sys.argv[2], sys.argv[3]
    import warnings
    warnings.simplefilter('ignore')
    import numpy as np
    from vlib import c20_nlo
    from vlib.props import c20
    rec = Recorder(seed, tier)
    rng = np.random.default_rng((rec.seed * 1000003 + 1) % (2 ** 63))
    err = None
    try:
        c20.helper_oracle(rec, rng)
        c20_nlo.run(rec, rng)
    except Exception:  # noqa: BLE001 - reported by the parent as a broken harness
        import traceback
        err = traceback.format_exc()
    json.dump({'failures': rec.failures, 'hists': rec.hists, 'extra': rec.extra, 'samples': rec.samples, 'evaluations': rec.evaluations,
               'distinct': sorted(rec.distinct), 'error': err, 'seconds': time.time() - rec.t0}, open(out, 'w'), default=str)


if __name__ == '__main__':
    main()
