"""C19 — vector, composite and block structures agree with their components.

tie T2 : Gen/C19Gen.v (COOData.__add__/tolocal/fromlocal/inverse/dot, asm/_sum, ElementVector decoding, bmat offsets,
         see vlib/c19_translate.py) and Gen/C19Comp.v (split_indices, _deduce_bfun, Dofs; vlib/c19_comp_translate.py),
         plus Gen/C01Gen.v (the assembler whose data tolocal reads); dyn/C19/*.v prove them equal to the models and
         transport the theorems.
proof  : props/C19.v
tie T3 : real COOData / asm / ElementVector / ElementComposite / Dofs / bmat on stub and real inputs vs the model
         by vm_compute (exact integers).
oracle : vlib/c19_oracle.py — local matrices vs single-cell assembly (F10), interpolation splitting, block assembly
         vs component forms under split_indices, asm over partitions, dot / fromlocal / inverse, bmat offsets.
"""
import os

import numpy as np

from .. import c01_stub as S
from .. import c01_translate, c19_translate
from ..core import COQ, TranslateError, clist, cnat, cnats, cz

BMAT_KEY = 'bmat-blocks:ncols>=4'


def _run(ctx, key, what, data, fn):
    try:
        return fn()
    except Exception as e:  # noqa: an exception of the implementation on a valid input is a failing input
        ctx.fail(key, f'{what}: unexpected {type(e).__name__}: {e}', data)
        return None


def _coo_term(c):
    ind = np.asarray(c.indices)
    rows = [cnats(r) for r in ind.reshape(len(c.shape), -1)]
    return f'({clist(rows)}, {clist([cz(x) for x in S.exact_ints(c.data)])}, {cnats(c.shape)})'


def _zss(a):
    return clist([clist([cz(x) for x in S.exact_ints(r)]) for r in a])


DEFS = S.COQ_DEFS + '''
Definition asmZ (k : list Z) (w : nat -> nat -> Z) (ub vb : basis Z VZ) := gen_bilinear_assemble Z 0%Z Z.add Z.mul VZ Z (form2 k) w ub (Some vb).
Inductive cin :=
| CAdd (k1 k2 : list Z) (w : nat -> nat -> Z) (u1 v1 u2 v2 : basis Z VZ)
| CSum (k : list Z) (w : nat -> nat -> Z) (us vs : list (basis Z VZ))
| CLocal (k : list Z) (w : nat -> nat -> Z) (ub vb : basis Z VZ)
| CRound (k : list Z) (w : nat -> nat -> Z) (ub vb : basis Z VZ)
| CDot (k : list Z) (w : nat -> nat -> Z) (ub vb : basis Z VZ) (x : list Z) (D : list nat)
| CVec (dim n : nat)
| CBmat (widths : list nat)
| CDofs (gs : list nat) (cn : list (list (list nat))) (d : list nat)
| CSplitC (gs : list nat) (cn : list (list (list nat))) (ls : list (list nat)) (n : nat)
| CSplitV (gs : list nat) (cn : list (list (list nat))) (d : list nat) (dim n : nat)
| CDeduce (ref : list nat) (ls : list (list nat)) (n : nat)
| CCBasis (bs : list (basis Z VZ)).
Inductive cout :=
| OCoo (c : option (list (list nat) * list Z * list nat))
| ODense (a : option (list (list Z)))
| OLocal (l : option (list (list (list Z))))
| OData (d : option (list Z))
| OPairs (p : list (nat * nat))
| ONats (l : list nat)
| ONatss (l : list (list nat)).
Definition mktopo (gs : list nat) (cn : list (list (list nat))) : topo :=
  mkTopo (fun K => nth K gs 0) (fun K => nth K cn []) (nth 3 gs 0).
Definition obind {A B} (o : option A) (f : A -> option B) : option B := match o with Some a => f a | None => None end.
Fixpoint sequence {A} (l : list (option A)) : option (list A) :=
  match l with [] => Some [] | o :: r => obind o (fun a => obind (sequence r) (fun t => Some (a :: t))) end.
Definition run (c : cin) : cout :=
  match c with
  | CAdd k1 k2 w u1 v1 u2 v2 =>
      OCoo (obind (asmZ k1 w u1 v1) (fun a => obind (asmZ k2 w u2 v2) (fun b => Some (coo_out (gen_coo_add Z a b)))))
  | CSum k w us vs =>
      ODense (obind (sequence (flat_map (fun u => map (fun v => asmZ k w u v) vs) us))
                    (fun l => obind (gen_coo_sum Z l) (gen_to_dense2 Z 0%Z Z.add)))
  | CLocal k w ub vb => OLocal (obind (asmZ k w ub vb) (fun c => gen_tolocal Z 0%Z (c_data c) (c_local c)))
  | CRound k w ub vb =>
      OData (obind (asmZ k w ub vb) (fun c =>
             match gen_tolocal Z 0%Z (c_data c) (c_local c), c_local c with
             | Some L, [n0; n1] => Some (gen_fromlocal Z 0%Z L (length L) n0 n1)
             | _, _ => None end))
  | CDot k w ub vb x D => OData (obind (asmZ k w ub vb) (fun c => gen_coo_dot Z 0%Z Z.add Z.mul c x D))
  | CVec dim n => OPairs (map (gen_vector_decode dim) (seq 0 n))
  | CBmat widths => ONats (gen_bmat_blocks widths)
  | CDofs gs cn d => ONatss (gen_element_dofs (mktopo gs cn) (fun K => nth K d 0))
  | CSplitC gs cn ls n => ONats (gen_composite_split (mktopo gs cn) ls n)
  | CSplitV gs cn d dim n => ONats (gen_vector_split (mktopo gs cn) (fun K => nth K d 0) dim n)
  | CDeduce ref ls n => OPairs (map (gen_deduce_bfun ref ls) (seq 0 n))
  | CCBasis bs => match bs with
                  | [] => ONatss []
                  | b0 :: rest => match gen_composite_basis Z VZ (list VZ) (fun n x => repeat (0%Z, 0%Z) n ++ [x]) b0 rest false with
                                  | Some C => ONatss ([bN C; bNbfun C; bnelems C] :: bedofs C)
                                  | None => ONatss [[0]]       (* rejected *)
                                  end
                  end
  end.
Definition natpair_eqb (a b : nat * nat) := Nat.eqb (fst a) (fst b) && Nat.eqb (snd a) (snd b).
Definition cout_eqb (a b : cout) : bool :=
  match a, b with
  | OCoo x, OCoo y => option_eqb out_eqb x y
  | ODense x, ODense y => option_eqb zss_eqb x y
  | OLocal x, OLocal y => option_eqb zsss_eqb x y
  | OData x, OData y => option_eqb zs_eqb x y
  | OPairs x, OPairs y => list_eqb natpair_eqb x y
  | ONats x, ONats y => nats_eqb x y
  | ONatss x, ONatss y => natss_eqb x y
  | _, _ => false
  end.
'''
IMPORTS = ('From Coq Require Import List Arith Bool ZArith.\n'
           'Require Import Base.C01_Sums Model.C01_Assembly Model.C19_Blocks Model.C19_Composite Gen.C01Gen Gen.C19Gen Gen.C19Comp.')


def observe_vector_decode(elem, dim, mesh):
    """which scalar basis function / component the i-th basis function of ElementVector(elem, dim) is (by values)"""
    from skfem.element import ElementVector
    ev = ElementVector(elem, dim)
    mp = mesh._mapping()
    rng = np.random.default_rng(7)
    X = rng.random((mesh.dim(), 5)) * (0.5 / mesh.dim()) + 0.1 / mesh.dim()
    nb = int(sum(elem._bfun_counts()))
    scal = [np.array(elem.gbasis(mp, X, k)[0]) for k in range(nb)]
    out = []
    for i in range(nb * dim):
        f = np.array(ev.gbasis(mp, X, i)[0])
        comps = [n for n in range(dim) if np.abs(f[n]).max() > 0]
        if len(comps) != 1:
            return None, f'basis function {i} has components {comps}'
        n = comps[0]
        match = [k for k in range(nb) if np.array_equal(scal[k], f[n])]
        if len(match) != 1:
            return None, f'basis function {i}: scalar matches {match}'
        out.append((match[0], n))
    return out, None


def _layout(e, dim3):
    return [int(e.nodal_dofs), int(e.edge_dofs) if dim3 else 0, int(e.facet_dofs), int(e.interior_dofs)]


def _topo_terms(m):
    dim3 = m.dim() == 3
    nt = m.nelements
    gs = [m.nvertices, m.nedges if dim3 else 0, m.nfacets if m.dim() >= 2 else 0, nt]
    cn = [m.t.tolist(), m.t2e.tolist() if dim3 else [], m.t2f.tolist() if m.dim() >= 2 else [], [list(range(nt))]]
    return cnats(gs), clist([clist([cnats(r) for r in tab]) for tab in cn]), dim3


FIXED_TABLES = [('tri-struct', 'V:ElementTriP4'), ('tri-struct', 'V:DG:ElementTriP2'), ('quad-jiggled', 'V:ElementQuadP(3)'),
                ('tet-struct', 'V:DG:ElementTetP1')]


def correspond_tables(ctx, cases):
    """Dofs.element_dofs, split_indices and _deduce_bfun of the real classes vs the regenerated models"""
    import skfem
    from skfem.assembly import Dofs, CellBasis
    from .. import c01_oracle as O1
    from ..c19_oracle import VEC_ELEMS
    rng = ctx.rng
    meshes = ['tri-delaunay', 'quad-jiggled', 'tet-struct', 'hex-jiggled', 'line-random', 'tri-struct', 'tet-delaunay']
    for c in range(ctx.n(8, 60)):
        mname = meshes[c % len(meshes)]
        fam = O1.FAMILY[mname]
        m = O1.make_mesh(mname, rng.randrange(10 ** 6))
        spec = rng.choice(VEC_ELEMS[fam])
        if c < len(FIXED_TABLES):                   # >= 2 interior DOFs per cell in the scalar element, every tier
            mname, spec = FIXED_TABLES[c]
            fam = O1.FAMILY[mname]
            m = O1.make_mesh(mname, 4242 + c)
        info = {'mesh': mname, 'elem': spec, 'nelements': int(m.nelements)}
        elem = _run(ctx, 'tables:element', 'element construction', info, lambda: O1.make_elem(spec))
        if elem is None:
            continue
        gs, cn, dim3 = _topo_terms(m)
        basis = _run(ctx, 'tables:basis', 'CellBasis construction', info, lambda: CellBasis(m, elem, intorder=1))
        if basis is None:
            continue
        ctx.hist('tables element', spec)
        whole = _layout(elem, dim3)
        cases.append((f'(CDofs {gs} {cn} {cnats(whole)})', f'(ONatss {clist([cnats(r) for r in basis.dofs.element_dofs.tolist()])})',
                      ('dofs', True, info)))
        ix = _run(ctx, 'tables:split_indices', 'split_indices', info, lambda: basis.split_indices())
        if ix is None:
            continue
        if spec.startswith('C:'):
            ls = [_layout(e, dim3) for e in elem.elems]
            lst = clist([cnats(l) for l in ls])
            for n in range(len(ls)):
                cases.append((f'(CSplitC {gs} {cn} {lst} {cnat(n)})', f'(ONats {cnats(ix[n].tolist())})', ('splitc', len(ls) >= 2, info)))
                # the component's own Dofs table (what split_bases builds)
                if ctx.quick() and n >= 1:
                    continue
                cb = Dofs(m, elem.elems[n])
                cases.append((f'(CDofs {gs} {cn} {cnats(ls[n])})', f'(ONatss {clist([cnats(r) for r in cb.element_dofs.tolist()])})',
                              ('dofs', True, info)))
            rd = elem.refdom
            ref = [rd.nnodes, rd.nedges if dim3 else 0, rd.nfacets if m.dim() >= 2 else 0, 1]
            nb = int(sum(elem._bfun_counts()))
            obs = _run(ctx, 'tables:_deduce_bfun', 'ElementComposite._deduce_bfun', info,
                       lambda: [tuple(int(x) for x in elem._deduce_bfun(i)) for i in range(nb)])
            if obs is not None:
                cases.append((f'(CDeduce {cnats(ref)} {lst} {cnat(nb)})', '(OPairs ' + clist([f'({cnat(a)}, {cnat(b)})' for a, b in obs]) + ')',
                              ('deduce', len(ls) >= 2, info)))
        else:
            d = _layout(elem.elem, dim3)
            ctx.hist('vector component count vs spatial dimension', 'n=d' if elem.dim == m.dim() else 'n!=d')
            if whole != [elem.dim * x for x in d]:
                ctx.fail(f'vector-layout:{spec}', 'ElementVector: per-entity DOF counts are not (number of components) x (counts of the scalar element)',
                         dict(info, counts=whole, scalar_counts=d, components=int(elem.dim)))
            for n in range(elem.dim):
                cases.append((f'(CSplitV {gs} {cn} {cnats(d)} {cnat(elem.dim)} {cnat(n)})', f'(ONats {cnats(ix[n].tolist())})',
                              ('splitv', elem.dim >= 2, info)))
    # _deduce_bfun on synthetic layouts (components with very different layouts), via a duck-typed element list
    from skfem.element import ElementComposite
    for c in range(ctx.n(6, 40)):
        M = rng.randint(1, 4)
        ref = [rng.randint(1, 4), rng.randint(0, 3), rng.randint(0, 3), 1]
        ls = [[rng.randint(0, 2) for _ in range(4)] for _ in range(M)]

        class _E:                                    # only what _deduce_bfun reads
            def __init__(self, l):
                self.nodal_dofs, self.edge_dofs, self.facet_dofs, self.interior_dofs = l

            def _bfun_counts(self):
                return np.array([self.nodal_dofs * ref[0], self.edge_dofs * ref[1], self.facet_dofs * ref[2], self.interior_dofs])
        host = ElementComposite.__new__(ElementComposite)
        host.elems = [_E(l) for l in ls]
        nb = int(sum(sum(e._bfun_counts()) for e in host.elems))
        info = {'ref': ref, 'layouts': ls}
        if nb == 0:
            continue
        obs = _run(ctx, 'tables:_deduce_bfun', 'ElementComposite._deduce_bfun on synthetic layouts', info,
                   lambda: [tuple(int(x) for x in ElementComposite._deduce_bfun(host, i)) for i in range(nb)])
        if obs is not None:
            cases.append((f'(CDeduce {cnats(ref)} {clist([cnats(l) for l in ls])} {cnat(nb)})',
                          '(OPairs ' + clist([f'({cnat(a)}, {cnat(b)})' for a, b in obs]) + ')', ('deduce', M >= 2, info)))
            ctx.hist('synthetic composite components', M)


def correspond(ctx, gen_ok):
    import skfem
    from skfem.assembly import BilinearForm, asm
    from skfem.element import DiscreteField
    from skfem.utils import bmat
    import scipy.sparse as sp
    Stub = S.make_stub_class()
    rng = ctx.rng
    cases = []

    def stub(N, nb, nt, nq, dx):
        return Stub(N, *S.random_tables(rng, N, nb, nt, nq, -2, 3), dx, nt, nq)

    def wfield(nt, nq):
        wt = [[rng.randint(-2, 3) for _ in range(nq)] for _ in range(nt)]
        return wt, DiscreteField(np.array(wt, dtype=float).reshape(nt, nq))
    for c in range(ctx.n(16, 200)):
        Nu, Nv = rng.randint(1, 4), rng.randint(1, 4)
        if c < 10:
            while Nv == Nu:
                Nv = rng.randint(1, 4)
        nt, nq = rng.randint(0 if c % 9 == 8 else 1, 4), rng.randint(1, 2)
        NU, NV = rng.randint(2, 6), rng.randint(2, 6)
        dx = S.random_dx(rng, nt, nq)
        ub, vb = stub(NU, Nu, nt, nq, dx), stub(NV, Nv, nt, nq, dx)
        wt, wc = wfield(nt, nq)
        k = [rng.randint(-3, 3) for _ in range(4)]
        kt = clist([cz(x) for x in k])
        wterm = f'(tab2 {S.cz2(wt)})'
        ut, vt = S.coq_basis(ub.tables), S.coq_basis(vb.tables)
        info = {'Nu': Nu, 'Nv': Nv, 'nt': nt, 'nq': nq, 'k': k, 'w': wt, 'u': {x: ub.tables[x] for x in ('N', 'edofs')},
                'v': {x: vb.tables[x] for x in ('N', 'edofs')}, 'case': c}
        rect = Nu != Nv and nt >= 2
        ctx.hist('stub Nu,Nv', (Nu, Nv))
        form = BilinearForm(S.py_form2(k))
        coo = _run(ctx, 'stub:elemental', 'Form.elemental on stub bases', info, lambda: form.elemental(ub, vb, c=wc))
        if coo is None:
            continue
        # tolocal / fromlocal
        L = _run(ctx, 'stub:tolocal', 'COOData.tolocal', info, lambda: coo.tolocal())
        if L is not None:
            loc = clist([_zss(m) for m in L])
            cases.append((f'(CLocal {kt} {wterm} {ut} {vt})', f'(OLocal (Some {loc}))', ('local', rect, info)))
            back = _run(ctx, 'stub:fromlocal', 'COOData.fromlocal', info, lambda: coo.fromlocal(L).data)
            if back is not None:
                cases.append((f'(CRound {kt} {wterm} {ut} {vt})', f'(OData (Some {clist([cz(x) for x in S.exact_ints(back)])}))',
                              ('round', rect, info)))
                # aliasing: fromlocal returns NEW data for C-ordered, F-ordered input and for tolocal() itself (a view of
                # coo.data); changing either side afterwards must not change the other
                for nm, arr in (('tolocal()', L), ('C-ordered copy', np.ascontiguousarray(L)), ('F-ordered copy', np.asfortranarray(np.array(L)))):
                    if arr.size == 0:
                        continue
                    r = coo.fromlocal(arr)
                    d0, c0 = r.data.copy(), coo.data.copy()
                    shared = np.shares_memory(r.data, arr) or np.shares_memory(r.data, coo.data)
                    arr[...] += 1.0
                    changed = not np.array_equal(r.data, d0)
                    arr[...] -= 1.0
                    r.data[...] += 1.0
                    changed2 = not np.array_equal(coo.data, c0) and not (nm == 'tolocal()' and False)
                    ctx.count(('alias', nm, info), nontrivial=True)
                    if shared or changed or changed2:
                        ctx.fail('coo:fromlocal-aliases-input', f'COOData.fromlocal({nm}) shares memory with its input / the original data: '
                                 'an in-place change of one side changes the other', dict(info, input=nm, shares_memory=bool(shared),
                                                                                         result_changed_with_input=bool(changed), original_changed_with_result=bool(changed2)))
                if not np.array_equal(back, coo.data):
                    ctx.fail('stub:fromlocal-tolocal', 'fromlocal(tolocal(c)).data differs from c.data',
                             dict(info, got=np.asarray(back).tolist(), expected=coo.data.tolist()))
        # __add__ with a second assembly (other sizes, other shape: entrywise max)
        Nu2, Nv2 = rng.randint(1, 3), rng.randint(1, 3)
        ub2, vb2 = stub(rng.randint(2, 6), Nu2, nt, nq, dx), stub(rng.randint(2, 6), Nv2, nt, nq, dx)
        k2 = [rng.randint(-3, 3) for _ in range(4)]
        s = _run(ctx, 'stub:add', 'COOData.__add__', info,
                 lambda: coo + BilinearForm(S.py_form2(k2)).elemental(ub2, vb2, c=wc))
        if s is not None:
            cases.append((f'(CAdd {kt} {clist([cz(x) for x in k2])} {wterm} {ut} {vt} {S.coq_basis(ub2.tables)} {S.coq_basis(vb2.tables)})',
                          f'(OCoo (Some {_coo_term(s)}))', ('add', True, info)))
            c0 = coo.data.copy()
            sdat = s.data
            if sdat.size:
                sdat[...] += 1.0
                if np.shares_memory(sdat, coo.data) or not np.array_equal(coo.data, c0):
                    ctx.fail('coo:add-aliases-operand', 'the sum of two COOData shares its data with an operand', info)
                sdat[...] -= 1.0
            if s.local_shape is not None:
                ctx.fail('stub:add-local-shape', 'the sum of two COOData keeps a local shape', info)
        # asm over lists of bases (product), same global sizes
        if c % 2 == 0:
            us = [ub] + [stub(NU, rng.randint(1, 3), nt, nq, dx) for _ in range(rng.randint(0, 2))]
            vs = [vb] + [stub(NV, rng.randint(1, 3), nt, nq, dx) for _ in range(rng.randint(0, 1))]
            A = _run(ctx, 'stub:asm-lists', 'asm over lists of bases', info, lambda: asm(form, us, vs, c=wc))
            if A is not None:
                cases.append((f'(CSum {kt} {wterm} {clist([S.coq_basis(b.tables) for b in us])} {clist([S.coq_basis(b.tables) for b in vs])})',
                              f'(ODense (Some {_zss(A.toarray())}))', ('sum', len(us) * len(vs) >= 2, info)))
        # dot: rectangular data (NV x NU), x has one entry per column (trial DOF), the result one per row
        if c % 3 == 0:
            x = [rng.randint(-3, 3) for _ in range(NU)]
            D = sorted(rng.sample(range(min(NU, NV)), rng.randint(0, 2)))
            z = _run(ctx, 'stub:dot', 'COOData.dot on rectangular data', dict(info, x=x, D=D),
                     lambda: coo.dot(np.array(x, dtype=float), D=np.array(D, dtype=np.int64) if D else None))
            if z is not None:
                cases.append((f'(CDot {kt} {wterm} {ut} {vt} {clist([cz(v) for v in x])} {cnats(D)})',
                              f'(OData (Some {clist([cz(v) for v in S.exact_ints(z)])}))', ('dot', NU != NV, info)))
                ref = coo.tocsr() @ np.array(x, dtype=float)
                ref[D] = np.array(x, dtype=float)[D]
                if np.shape(z) != ref.shape or not np.array_equal(ref, z):
                    ctx.fail('stub:dot', 'COOData.dot differs from the product with the assembled (rectangular) matrix',
                             dict(info, x=x, D=D, got=np.asarray(z).tolist(), expected=ref.tolist()))
    # ElementVector decoding observed on real elements
    tri, tet, quad = skfem.MeshTri(), skfem.MeshTet(), skfem.MeshQuad()
    for elem, mesh, dims in [(skfem.ElementTriP2(), tri, (1, 2, 3)), (skfem.ElementTriMini(), tri, (2,)),
                             (skfem.ElementTetP2(), tet, (3, 2)), (skfem.ElementQuad2(), quad, (2, 4)),
                             (skfem.ElementTriP1(), tri, (2, 5)), (skfem.ElementTetCCR(), tet, (3,))]:
        for dim in dims:
            info = {'elem': type(elem).__name__, 'dim': dim}
            obs, err = observe_vector_decode(elem, dim, mesh)
            if obs is None:
                ctx.fail(f'vector-decode:{type(elem).__name__}:dim={dim}', 'ElementVector basis function is not one component of one scalar basis function: ' + err, info)
                continue
            cases.append((f'(CVec {cnat(dim)} {cnat(len(obs))})', '(OPairs ' + clist([f'({cnat(a)}, {cnat(b)})' for a, b in obs]) + ')',
                          ('vec', dim >= 2, info)))
            ctx.hist('vector decode', f'{type(elem).__name__}^{dim}')
    # bmat offsets
    for c in range(ctx.n(8, 40)):
        n = rng.randint(1, 6) if c >= 2 else 4 + c
        widths = [rng.randint(1, 4) for _ in range(n)] if c >= 2 else [2, 3, 4, 5, 1][:n]
        m = rng.randint(1, 2)
        heights = [rng.randint(1, 3) for _ in range(m)]
        blocks = [[sp.csr_matrix(np.ones((h, w))) for w in widths] for h in heights]
        if m == 2 and n >= 2:
            blocks[0][rng.randrange(n)] = None          # the width is then taken from the second row
        info = {'widths': widths, 'heights': heights}
        M = _run(ctx, 'bmat:exception', 'skfem.utils.bmat', info, lambda: bmat(blocks, 'csr'))
        if M is None:
            continue
        cases.append((f'(CBmat {cnats(widths)})', f'(ONats {cnats(M.blocks)})', ('bmat', n >= 3, info)))
        want = [int(x) for x in np.cumsum(widths)[:-1]]
        ctx.count(('bmat', widths, heights), nontrivial=n >= 3)
        if list(M.blocks) != want:
            ctx.fail(BMAT_KEY if n >= 4 else 'bmat-blocks', 'skfem.utils.bmat(...).blocks are not the prefix sums of the block-column widths',
                     dict(info, got=[int(x) for x in M.blocks], expected=want))
    # dense conversion of N-tensors (COOData.toarray, N-tensor branch) with duplicate index triples: real and complex data
    from skfem.assembly.form.coo_data import COOData
    for c in range(ctx.n(6, 30)):
        shp = (rng.randint(1, 3), rng.randint(1, 3), rng.randint(1, 3))
        n = rng.randint(0, 8)
        ind = np.array([[rng.randrange(shp[a]) for _ in range(n)] for a in range(3)], dtype=np.int64).reshape(3, n)
        cplx = c % 2 == 0
        dat = np.array([complex(rng.randint(-3, 3), rng.randint(-3, 3)) if cplx else float(rng.randint(-3, 3)) for _ in range(n)],
                       dtype=np.complex128 if cplx else np.float64)
        info = {'shape': shp, 'indices': ind.tolist(), 'data': [str(x) for x in dat], 'complex': cplx}
        got = _run(ctx, 'coo:toarray3', 'COOData.toarray of a 3-tensor', info, lambda: COOData(ind, dat, shp, None).toarray())
        ref = np.zeros(shp, dtype=dat.dtype)
        np.add.at(ref, tuple(ind), dat)
        ctx.count(('toarray3', info), nontrivial=n >= 2)
        if got is not None and (np.shape(got) != shp or not np.array_equal(got, ref)):
            ctx.fail('coo:toarray3-complex' if cplx else 'coo:toarray3', 'COOData.toarray of a 3-tensor is not the sum of the triplets'
                     + (' (imaginary part lost)' if cplx else ''), dict(info, got=[str(x) for x in np.asarray(got).ravel()],
                                                                        expected=[str(x) for x in ref.ravel()]))
    # CompositeBasis of stub bases: N, Nbfun, nelems and the stacked element_dofs; rejected combinations
    for c in range(ctx.n(6, 40)):
        M = rng.randint(1, 3) if c >= 2 else 3 + c
        nt, nq = rng.randint(1, 3), rng.randint(1, 2)
        dx = S.random_dx(rng, nt, nq)
        sts = [stub(rng.randint(1, 4), rng.randint(1, 3), nt, nq, dx) for _ in range(M)]
        bad = c % 4 == 3 and M >= 2
        if bad:
            sts[-1] = stub(3, 2, nt + 1, nq, S.random_dx(rng, nt + 1, nq))
        info = {'bases': [{x: b.tables[x] for x in ('N', 'edofs', 'nt_full')} for b in sts], 'case': c}
        from skfem.assembly.basis.composite_basis import CompositeBasis
        try:
            cb = CompositeBasis(*sts)
            out = [[int(cb.N), int(cb.Nbfun), int(cb.nelems)]] + cb.element_dofs.tolist()
        except ValueError:
            out = [[0]]
        except Exception as e:  # noqa
            ctx.fail('stub:compositebasis', f'CompositeBasis on stub bases: unexpected {type(e).__name__}: {e}', info)
            continue
        if out != [[0]]:
            refd, o = [], 0
            for b in sts:
                refd += (b.element_dofs + o).tolist()
                o += int(b.N)
            if out[1:] != refd or out[0][0] != o:
                ctx.fail('compositebasis:offsets', 'CompositeBasis.element_dofs are not the component tables shifted by N_0 + ... + N_{n-1}',
                         dict(info, got=out, expected=[[o, int(cb.Nbfun), int(cb.nelems)]] + refd))
        if bad and out != [[0]]:
            ctx.fail('compositebasis:accepts-different-element-counts', 'CompositeBasis accepted bases with different numbers of elements', info)
        cases.append((f'(CCBasis {clist([S.coq_basis(b.tables) for b in sts])})', f'(ONatss {clist([cnats(r) for r in out])})',
                      ('cbasis', M >= 2, info)))
    correspond_tables(ctx, cases)
    if gen_ok:
        ctx.corr('blocks', IMPORTS, 'run', 'cout_eqb', cases, per_file=(70 if ctx.quick() else 25), defs=DEFS, nontrivial=lambda r: r[1])
        ctx.sample({'kind': 'stub local matrices (input term, implementation output)', 'input': cases[0][0][:500], 'output': cases[0][1][:300]})



def _compile_stage(ctx, rels):
    """compile independent files in parallel, with the bookkeeping of Ctx.compile_dyn (one obligation per lemma)"""
    import os as _os
    from ..core import scan_forbidden
    res = ctx.coqc_many(rels)
    allok = True
    for rel in rels:
        path = _os.path.join(ctx.bdir, rel)
        txt = open(path).read()
        names = [m.group(2) for m in ctx._thm_re.finditer(txt)]
        bad = scan_forbidden([path])
        ok, out, err, secs = res[rel]
        if bad:
            ok = False
            err = 'forbidden construct: ' + '; '.join(bad)
        ctx.log(f'coqc {rel}: {"ok" if ok else "FAILED"} ({secs:.1f}s, {len(names)} lemmas)')
        failed_at = None
        if not ok:
            allok = False
            failed_at = ctx._failing_theorem(txt, err)
            ctx.broken.append({'kind': 'proof', 'name': f'{rel}:{failed_at or "?"}', 'detail': err[-1500:]})
        seen_fail = False
        for nm in names:
            if not ok and (failed_at is None or nm == failed_at):
                seen_fail = True
            ctx.obligations.append({'name': f'{rel}:{nm}', 'kind': 'generated', 'ok': ok or not seen_fail})
    return allok


def run(ctx):
    ctx.trusted += ['NumPy reshape/moveaxis/flatten orders, hstack, add.at, python sum, scipy.sparse.bmat (modelled; corresponded)',
                    'numpy.linalg.inv (runtime; only the bookkeeping around it is modelled)',
                    'int(floor(float(i)/float(dim))) = i // dim on the small non-negative integers involved']
    ctx.assumptions += ['component elements list their basis functions in the order nodal, edge, facet, interior (Dofs order)',
                        'every block column of bmat has at least one block that is not None']
    ctx.cov['rule'] = ('stub correspondence: random rectangular local sizes, nt 0..4, sums, products of basis lists, dot with D; '
                       'ElementVector decoding observed by values on 6 elements x dims; bmat with 1..6 block columns; '
                       'Dofs/split_indices/_deduce_bfun on random layouts; oracle on real composite/vector bases with '
                       'components of different DOF layouts. non-trivial = rectangular or >= 2 components with different layouts')
    # the box is shared: at most 4 coqc at a time, generous per-file timeout
    _many = type(ctx).coqc_many
    ctx.coqc_many = lambda rels, timeout=300, jobs=None: _many(ctx, rels, max(timeout, 900), jobs=4)
    ctx.ensure_static()
    known_bmat = BMAT_KEY in ctx.known.findings.get('C19', {})
    gen_ok = True
    try:
        ctx.write_gen('C01Gen', c01_translate.translate())
        ctx.write_gen('C19Gen', c19_translate.translate(known_bmat=known_bmat))
        ctx.write_gen('C19Comp', c19_translate.translate_comp())
    except TranslateError as e:
        ctx.broke('translator', 'c19_translate / c01_translate', e)
        gen_ok = False
    comp_ok = False
    if gen_ok:
        gen_ok = _compile_stage(ctx, ['gen/C01Gen.v', 'gen/C19Gen.v', 'gen/C19Comp.v'])
    if gen_ok:
        ctx.write('dyn/C01Tie.v', open(os.path.join(COQ, 'dyn', 'C01', 'C01Tie.v')).read())
        dyn = ctx.copy_dyn()
        order = ['dyn/C19Tie.v', 'dyn/C19Bmat.v', 'dyn/C19CompTie.v']
        _compile_stage(ctx, ['dyn/C01Tie.v'])
        _compile_stage(ctx, ['dyn/C19Tie.v', 'dyn/C19Bmat.v'])
        _compile_stage(ctx, ['dyn/C19CompTie.v'] + [f for f in dyn if f not in order])
        if known_bmat:
            # the finding is listed: its Coq side is the refutation; if that no longer compiles the entry is stale
            ctx.write('dyn/C19BmatKnown.v', 'From Coq Require Import List.\nImport ListNotations.\n'
                      'Require Import Model.C19_Blocks Gen.C19Gen.\n'
                      'Lemma bmat_blocks_known_refuted : exists w, gen_bmat_blocks w <> prefix_sums w.\n'
                      'Proof. exists [2; 3; 4; 5]. vm_compute. discriminate. Qed.\n')
            ok, out, err, secs = ctx.coqc('dyn/C19BmatKnown.v')
            ctx.obligations.append({'name': 'dyn/C19BmatKnown.v:bmat_blocks_known_refuted', 'kind': 'refutation', 'ok': True})
            if not ok:
                ctx.log(f'NOTE: known finding key={BMAT_KEY} is stale: the refutation no longer holds for the regenerated bmat loop')
    ctx.prove()
    correspond(ctx, gen_ok)
    from .. import c19_oracle, c01_api
    c19_oracle.run(ctx)
    c01_api.run_c19(ctx)


def replay(ctx, data):
    from .. import c19_oracle
    ctx.log('replaying', data.get('key'))
    inp = data.get('input', {})
    if isinstance(inp, dict) and inp.get('oracle_case') is not None:
        c19_oracle.replay(ctx, inp)
    else:
        run(ctx)
