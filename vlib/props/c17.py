"""C17 — saving and loading a mesh round-trips geometry, connectivity and tags.

tie T2 : Gen/C17Gen.v is regenerated from skfem/mesh/mesh.py (_encode_cell_data incl. encode_boundary,
         _decode_cell_data, save_npz/load_npz key scheme) and skfem/io/meshio.py (HEX_MAPPING, INV_HEX_MAPPING
         and where to_meshio/from_meshio apply them) by the fail-closed translator vlib/c17_translate.py;
         dyn/C17_Tie.v, dyn/C17_TieDecode.v prove the regenerated definitions equal to Model.C17_TagCodec.
tie T3 : the real Mesh._encode_cell_data / _decode_cell_data on random small meshes vs the regenerated
         definitions evaluated by vm_compute (exact integers); the boolean coherence test of the theorem's
         hypotheses evaluated on the tables of real meshes.
proof  : props/C17.v (bit mask round trip for all slot sets; boundary round trip for all tables, facet sets
         and orientation vectors under the stated coherence hypothesis; subdomain indicator; hexahedron
         node permutations; npz key scheme).
oracle : real round trips (to_meshio/from_meshio, gmsh 2.2 / 4.1, vtk, vtu, npz, dict, json) of random
         first- and second-order tri/quad/tet/hex meshes x random tag sets incl. oriented interior interfaces
         x point / cell data; operand checksums before / after export.
"""
import contextlib
import io
import logging
import os
import tempfile

import numpy as np

from .. import c17_translate as T
from ..c17_meshes import (ALL, FIRST, SECOND, checksum, mesh_from_json, mesh_json, rand_mesh, rand_mesh1,
                          rand_tags, tag_ori)
from ..core import TranslateError, cN, cbool, clist, cnat, cnats, cz, np_seed

KEY_F7 = 'ori-wrong:_decode_cell_data'


# ------------------------------------------------------------------------------ Coq terms

def cmat_nat(a):
    return clist([cnats(r) for r in np.asarray(a).tolist()])


def cmat_z(a):
    return clist([clist([cz(x) for x in r]) for r in np.asarray(a).tolist()])


def cbools(l):
    return clist([cbool(bool(x)) for x in l])


def cNs(l):
    return clist([cN(int(x)) for x in l])


def tables(m):
    return (m.t2f.shape[0], m.t.shape[1], cmat_nat(m.t2f), cmat_z(m.f2t))


# ------------------------------------------------------------------------------ comparison of two tagged meshes

def compare(m, M, exact=True, tol=0.0, want_ori=True, same_class=True):
    """list of (what, detail) differences that the property forbids"""
    out = []
    if same_class and type(m) is not type(M):
        out.append(('class', f'{type(m).__name__} -> {type(M).__name__}'))
    if m.p.shape != M.p.shape:
        out.append(('p-shape', f'{m.p.shape} -> {M.p.shape}'))
    elif exact and not np.array_equal(m.p, M.p):
        out.append(('p', f'max abs diff {np.abs(m.p - M.p).max():.3e} (binary format: must be exact)'))
    elif not exact and np.abs(m.p - M.p).max() > tol:
        out.append(('p', f'max abs diff {np.abs(m.p - M.p).max():.3e} > {tol}'))
    if m.t.shape != M.t.shape or not np.array_equal(m.t, M.t):
        # a triangle mesh whose cells are not in ascending vertex order (oriented(), sort_t=False) is loaded by a class
        # that sorts them: the same cells, vertex order within a cell aside
        if not (m.t.shape == M.t.shape and not getattr(m, 'sort_t', True) is True and type(m).__name__ == 'MeshTri1'
                and np.array_equal(np.sort(m.t, axis=0), np.sort(M.t, axis=0))):
            out.append(('t', 'connectivity differs'))
    for what, a, b in (('subdomains', m.subdomains, M.subdomains), ('boundaries', m.boundaries, M.boundaries)):
        a, b = a or {}, b or {}
        if sorted(a) != sorted(b):
            out.append((what + '-names', f'{sorted(a)} -> {sorted(b)}'))
            continue
        for k in a:
            sa, sb = np.asarray(a[k]).astype(np.int64), np.asarray(b[k]).astype(np.int64)
            if sorted(sa.tolist()) != sorted(sb.tolist()):
                out.append((what + '-set', f'{k}: {sorted(sa.tolist())} -> {sorted(sb.tolist())}'))
            elif what == 'boundaries' and want_ori:
                # orientation = which cell is on the tagged side (the flag indexes the rows of f2t; equal tables: equal flags)
                # (multisets of (facet, cell on the tagged side): a facet may be listed from both sides)
                def sides(mesh, tag):
                    o = getattr(tag, 'ori', None)
                    o = np.zeros(len(tag), dtype=int) if o is None else np.asarray(o).astype(int)
                    return sorted((int(f), int(mesh.f2t[int(oo), int(f)])) for f, oo in zip(np.asarray(tag), o))
                da, db = sides(m, a[k]), sides(M, b[k])
                if getattr(a[k], 'ori', None) is None and getattr(b[k], 'ori', None) is None:
                    continue            # unoriented before and after: no side to compare
                # (an unoriented tag that comes back with flags must still designate the side f2t[0] it had implicitly)
                if da != db:
                    bad = [x for x in da if x not in db] or db
                    out.append(('orientation', f'{k}: (facet, cell on the tagged side) pairs differ, e.g. {bad[0]} of '
                                               f'{da[:6]} -> {db[:6]}'))
    return out


@contextlib.contextmanager
def quiet():
    buf = io.StringIO()
    lvl = logging.root.manager.disable
    logging.disable(logging.WARNING)
    try:
        with contextlib.redirect_stdout(buf), contextlib.redirect_stderr(buf):
            yield
    finally:
        logging.disable(lvl)


# ------------------------------------------------------------------------------ the formats

def _file_rt(suffix, **kw):
    def rt(m, pd, cd):
        from skfem import Mesh
        with tempfile.TemporaryDirectory(prefix='c17_') as d:
            fn = os.path.join(d, 'm' + suffix)
            m.save(fn, point_data=pd, cell_data=cd, **kw)
            out = ['point_data', 'cell_data']
            M = Mesh.load(fn, out=out)
        return M, out[0], out[1]
    return rt


def _meshio_rt(m, pd, cd):
    from skfem.io.meshio import from_meshio, to_meshio
    out = ['point_data', 'cell_data']
    M = from_meshio(to_meshio(m, pd, cd), out=out)
    return M, out[0], out[1]


def _npz_rt(m, pd, cd):
    with tempfile.TemporaryDirectory(prefix='c17_') as d:
        fn = os.path.join(d, 'm.npz')
        m.save_npz(fn)
        return type(m).load_npz(fn), None, None


def _dict_rt(m, pd, cd):
    import copy
    d = m.to_dict()
    d0 = copy.deepcopy(d)
    M = type(m).from_dict(d)
    if list(d) != list(d0) or any(type(d[k]) is not type(d0[k]) or d[k] != d0[k] for k in d0):
        raise AssertionError('from_dict modified the dictionary given by the caller')
    return M, None, None


def _json_rt(m, pd, cd):
    from skfem.io.json import from_file, to_file
    with tempfile.TemporaryDirectory(prefix='c17_') as d:
        fn = os.path.join(d, 'm.json')
        to_file(m, fn)
        return from_file(fn), None, None


# name -> (round trip, exact p?, tolerance, carries user data?, carries orientation by design of the format code,
#          first-order only?)
FORMATS = {
    'meshio': (_meshio_rt, True, 0.0, True, False),
    'gmsh22': (_file_rt('.msh', file_format='gmsh22'), True, 0.0, True, False),
    'gmsh41': (_file_rt('.msh', file_format='gmsh'), True, 0.0, True, False),
    'vtk': (_file_rt('.vtk'), True, 0.0, True, False),
    'vtu': (_file_rt('.vtu'), True, 0.0, True, False),
    'vtk-ascii': (_file_rt('.vtk', binary=False), False, 1e-9, True, False),
    'vtu-ascii': (_file_rt('.vtu', binary=False), False, 1e-9, True, False),
    'npz': (_npz_rt, True, 0.0, False, False),
    'dict': (_dict_rt, True, 0.0, False, True),
    'json': (_json_rt, True, 0.0, False, True),
}
PLAIN = ('npz', 'dict', 'json')        # formats that store the index arrays themselves


def meshio_ascii_gmsh_works():
    """the gmsh ASCII reader of the installed meshio raises on its own output as soon as there is cell data;
    probe that independently of skfem and leave those variants out if so"""
    import meshio
    try:
        with quiet(), tempfile.TemporaryDirectory(prefix='c17_') as d:
            mm = meshio.Mesh(np.array([[0., 0, 0], [1, 0, 0], [0, 1, 0]]), {'triangle': np.array([[0, 1, 2]])},
                             cell_data={'u': [np.array([1.0])]})
            fn = os.path.join(d, 'a.msh')
            meshio.write(fn, mm, file_format='gmsh22', binary=False)
            meshio.read(fn)
        return True
    except Exception:
        return False


# ------------------------------------------------------------------------------ codec: direct search (finds F7)

def codec_direct(ctx, m, name='x'):
    """decode(encode(tags)) on the real code for every boundary tag of m; returns True when all round-trip"""
    ok = True
    enc = m._encode_cell_data()
    bnd, sub = m._decode_cell_data(enc)
    for k, b in (m.boundaries or {}).items():
        want = tag_ori(b)
        got = tag_ori(bnd[k]) if k in bnd else None
        if got != want:
            ok = False
            okset = got is not None and sorted(got) == sorted(want)
            bad = sorted(f for f in want if got is None or got.get(f) != want[f])
            ctx.fail(KEY_F7 if okset else 'tagset-wrong:_decode_cell_data',
                     ('Mesh._decode_cell_data(Mesh._encode_cell_data()) returns wrong orientation flags'
                      if okset else 'Mesh._decode_cell_data(Mesh._encode_cell_data()) returns a different facet set'),
                     {'mesh': mesh_json(m), 'tag': k, 'facets': sorted(want), 'ori': [want[f] for f in sorted(want)],
                      'got_facets': None if got is None else sorted(got),
                      'got_ori': None if got is None else [got[f] for f in sorted(got)],
                      'first_bad_facet': bad[:5], 'f2t_of_bad': m.f2t[:, bad[:5]].tolist() if bad else []})
    for k, s in (m.subdomains or {}).items():
        if k not in sub or sorted(np.asarray(s).tolist()) != np.asarray(sub[k]).tolist():
            ok = False
            ctx.fail('subdomain-wrong:_decode_cell_data', 'subdomain indicator does not round-trip',
                     {'mesh': mesh_json(m), 'tag': k, 'got': None if k not in sub else np.asarray(sub[k]).tolist()})
    return ok


# ------------------------------------------------------------------------------ correspondence

def correspondence(ctx, gen_ok, ho_ok=True):
    import skfem
    from skfem.generic_utils import OrientedBoundary
    rng = np_seed(ctx, 17)
    enc_cases, dec_cases, coh_cases, sub_cases, dict_cases = [], [], [], [], []
    nmesh = ctx.n(32, 300)
    for k in range(nmesh):
        name = FIRST[k % 4]
        small = [2, 3] if name in ('MeshTri1', 'MeshQuad1') else [2, 2, 2 + (k // 4) % 2]
        if name in ('MeshTri1', 'MeshQuad1') and k % 3 == 0:
            small = [3, 3]
        m = rand_mesh1(name, rng, size=small)
        ns, nt, t2f, f2t = tables(m)
        nf = m.facets.shape[1]
        for rep in range(ctx.n(3, 4)):
            kind = ['valid', 'valid', 'illegal', 'dups'][rep % 4] if rep else 'valid'
            kk = int(rng.integers(0, nf + 1))
            f = rng.choice(nf, size=kk, replace=False).astype(np.int32)
            if rng.random() < 0.5:
                f = np.sort(f)
            ori = rng.integers(0, 2, size=kk)
            if kind == 'valid':
                ori[m.f2t[1, f] == -1] = 0
            if kind == 'dups' and kk:
                f = np.concatenate([f, f[:2]])
                ori = np.concatenate([ori, 1 - ori[:2]])
                ori[m.f2t[1, f] == -1] = 0
            plain = kind == 'valid' and rng.random() < 0.25
            if plain:
                ori[:] = 0
            mt = m.with_boundaries({'x': f if plain else OrientedBoundary(f, ori)})
            data = np.asarray(mt._encode_cell_data()['skfem:b:x'][0])
            tbl = f'{cnat(ns)}, {cnat(nt)}, {t2f}, {f2t}'
            enc_cases.append((f'({tbl}, {cbools(ori)}, {cnats(f)})', cNs(data),
                              ('enc', name, kind, int(kk))))
            ctx.hist('corr_encode_kind', kind)
            if kind == 'valid':
                coh_cases.append((f'({tbl}, {cbools(ori)}, {cnats(f)})', 'true', ('coh', name, int(kk))))
                bnd, _ = mt._decode_cell_data({'skfem:b:x': [data]})
                g = bnd['x']
                go = getattr(g, 'ori', None)
                go = [0] * len(g) if go is None else np.asarray(go).tolist()
                dec_cases.append((f'({tbl}, {cNs(data)})', f'({cnats(np.asarray(g))}, {cbools(go)})',
                                  ('dec', name, int(kk), int(sum(ori)))))
                if len(ctx.cov['samples']) < 2 and kk >= 3 and sum(ori) >= 1:
                    ctx.sample({'kind': 'codec correspondence', 'class': name, 'facets': f.tolist(), 'ori': ori.tolist(),
                                'cell_data_of_impl': data.tolist(), 'decoded_by_impl': [np.asarray(g).tolist(), go]})
        # decode of data not produced by encode: any set of (slot, cell) bits whose facets are pairwise distinct
        seen, bits = set(), np.zeros(nt, dtype=np.int64)
        for s, c in rng.permutation([(s, c) for s in range(ns) for c in range(nt)]):
            fct = int(m.t2f[s, c])
            if fct not in seen and rng.random() < 0.5:
                seen.add(fct)
                bits[c] |= 1 << int(s)
        bnd, _ = m._decode_cell_data({'skfem:b:y': [bits]})
        g = bnd['y']
        go = getattr(g, 'ori', None)
        go = [0] * len(g) if go is None else np.asarray(go).tolist()
        dec_cases.append((f'({cnat(ns)}, {cnat(nt)}, {t2f}, {f2t}, {cNs(bits)})', f'({cnats(np.asarray(g))}, {cbools(go)})',
                          ('dec-raw', name, len(seen), int(sum(go)))))
        # subdomains
        kk = int(rng.integers(0, nt + 1))
        s = rng.choice(nt, size=kk, replace=False).astype(np.int32)
        ms = m.with_subdomains({'s': s})
        ind = np.asarray(ms._encode_cell_data()['skfem:s:s'][0])
        _, sd = ms._decode_cell_data({'skfem:s:s': [ind]})
        sub_cases.append((f'({cnat(nt)}, {cnats(s)})', f'({cNs(ind)}, {cnats(np.asarray(sd["s"]))})', ('sub', name, kk)))
    # from_meshio on meshes whose cells are NOT in ascending vertex order: the decoder gets the slot table of the connectivity
    # as read (= the encoder's table) but the neighbour table of the loaded (re-sorted) mesh
    from skfem.io.meshio import from_meshio, to_meshio
    for k in range(ctx.n(10, 40)):
        name = ['MeshTri1', 'MeshTet1'][k % 2]
        m = rand_mesh1(name, rng, size=[2, 3] if k % 2 == 0 else [2, 2, 2]).oriented()
        nf = m.facets.shape[1]
        kk = int(rng.integers(1, nf + 1))
        f = np.sort(rng.choice(nf, size=kk, replace=False)).astype(np.int32)
        ori = rng.integers(0, 2, size=kk)
        ori[m.f2t[1, f] == -1] = 0
        mt = m.with_boundaries({'x': OrientedBoundary(f, ori)})
        M = from_meshio(to_meshio(mt))
        data = np.asarray(mt._encode_cell_data()['skfem:b:x'][0])
        g = M.boundaries['x']
        go = getattr(g, 'ori', None)
        go = [0] * len(g) if go is None else np.asarray(go).tolist()
        ns, nt, t2f, _ = tables(mt)
        dec_cases.append((f'({cnat(ns)}, {cnat(nt)}, {t2f}, {cmat_z(M.f2t)}, {cNs(data)})', f'({cnats(np.asarray(g))}, {cbools(go)})',
                          ('dec-loaded', name, int(kk), int(sum(ori)))))
    def cstr(x):
        assert '"' not in x and x.isascii()
        return f'"{x}"%string'
    # to_meshio: the data dictionaries of the caller combined with the encoded tags, under both flags
    fw_cases = []
    for k in range(ctx.n(8, 24)):
        m = rand_mesh1(FIRST[k % 4], rng, size=[2, 2] if k % 4 < 2 else [2, 2, 2])
        sub, bnd = rand_tags(m, rng, empty=False)
        m = m.with_subdomains(sub).with_boundaries(bnd)
        encc, encp = list(m._encode_cell_data()), list(m._encode_point_data())
        for ecd in (False, True):
            for epd in (False, True):
                for give in (0, 1, 2):                       # no dictionaries / plain user keys / a user key that collides
                    pd = cd = None
                    if give:
                        pd = {'u': np.full(m.p.shape[1], 7.0)}
                        cd = {'c': [np.full(m.t.shape[1], 8.0)]}
                        if give == 2:
                            pd[encp[0]] = np.full(m.p.shape[1], 9.0)
                            cd[encc[0]] = [np.full(m.t.shape[1], 10.0)]
                    mio = to_meshio(m, pd, cd, encode_cell_data=ecd, encode_point_data=epd)

                    def tagged(res, user, enc, cell):
                        out = []
                        for kk, v in res.items():
                            a = np.asarray(v[0] if cell else v)
                            j = None if user is None else next((i for i, uk in enumerate(user)
                                                                if uk == kk and a.size and np.all(a == [7., 9.][i] + (1 if cell else 0))), None)
                            out.append((kk, j if j is not None else 100 + enc.index(kk)))
                        return out

                    def cdict(d):
                        return clist([f'({cstr(a)}, {cnat(b)})' for a, b in d])
                    up = None if pd is None else [(kk, i) for i, kk in enumerate(pd)]
                    uc = None if cd is None else [(kk, i) for i, kk in enumerate(cd)]
                    inp = (f'({cbool(ecd)}, {cbool(epd)}, {"None" if up is None else "Some " + cdict(up)}, '
                           f'{"None" if uc is None else "Some " + cdict(uc)}, {cdict([(kk, 100 + i) for i, kk in enumerate(encp)])}, '
                           f'{cdict([(kk, 100 + i) for i, kk in enumerate(encc)])})')
                    outp = (f'({cdict(tagged(mio.point_data, None if pd is None else list(pd), encp, False))}, '
                            f'{cdict(tagged(mio.cell_data, None if cd is None else list(cd), encc, True))})')
                    fw_cases.append((inp, outp, ('to_meshio-data', ecd, epd, give)))
    # to_dict / from_dict at the level of the tag dictionaries
    for k in range(ctx.n(12, 40)):
        m = rand_mesh1(FIRST[k % 4], rng, size=[2, 2] if k % 4 < 2 else [2, 2, 2])
        _, bnd = rand_tags(m, rng)
        m = m.with_boundaries(bnd)
        d = m.to_dict()
        M = type(m).from_dict(dict(d))

        def tagterm(b):
            o = getattr(b, 'ori', None)
            return f'({cnats(np.asarray(b))}, {"None" if o is None else "Some " + cbools(np.asarray(o))})'
        inp = clist([f'({cstr(n)}, {tagterm(b)})' for n, b in m.boundaries.items()])
        out = ('(' + clist([f'({cstr(n)}, {cnats(v)})' for n, v in d['boundaries'].items()]) + ', '
               + clist([f'({cstr(n)}, {cbools(v)})' for n, v in d.get('orientations', {}).items()]) + ', '
               + clist([f'({cstr(n)}, {tagterm(b)})' for n, b in M.boundaries.items()]) + ')')
        dict_cases.append((inp, out, ('dict', len(bnd), sum(getattr(b, 'ori', None) is not None for b in bnd.values()))))
    # high-order reordering of __post_init__: canonical second-order meshes whose nodes are renumbered at random
    ho_cases = []
    import skfem
    for k in range(ctx.n(12, 48)):
        name = ['MeshTri2', 'MeshQuad2', 'MeshTet2', 'MeshHex2'][k % 4]
        base = rand_mesh1(SECOND[name], rng, size=[2, 2] if k % 4 < 2 else [2, 2, 2], integer=True, holes=False)
        cls = getattr(skfem, name)
        m2 = cls.from_mesh(base)
        N = m2.p.shape[1]
        perm = rng.permutation(N)                       # external number of canonical node v is perm[v]
        pe = np.empty_like(m2.p)
        pe[:, perm] = m2.p
        te = perm[m2.dofs.element_dofs]
        Mx = cls(pe, te)
        Mrows = cls.elem.refdom.nnodes
        p2 = clist([clist([cz(int(round(2 * x))) for x in col]) for col in pe.T.tolist()])
        d2 = clist([clist([cz(int(round(2 * x))) for x in col]) for col in Mx.p.T.tolist()])
        ho_cases.append((f'({cnat(Mrows)}, {cnat(te.shape[1])}, {p2}, {cmat_nat(te)}, {cmat_nat(Mx.dofs.element_dofs[Mrows:])})',
                         f'({cmat_nat(Mx.t)}, {d2})', ('postinit', name, N)))
        # every local node of every cell keeps its coordinates (the vertex numbers follow the order of the external ones)
        if not np.array_equal(Mx.p[:, Mx.dofs.element_dofs], m2.p[:, m2.dofs.element_dofs]):
            ctx.fail(f'postinit-geometry:{name}', 'a second-order mesh given with renumbered nodes does not keep the '
                     'coordinates of its local nodes', {'mesh': mesh_json(m2), 'perm': perm.tolist()})
    if not gen_ok:
        return
    imp = ('Require Import Model.C17_TagCodec Gen.C17Gen.\nFrom Coq Require Import List Arith Bool ZArith NArith.')
    defs = '''
Definition Ns_eqb := list_eqb N.eqb.
Definition bools_eqb := list_eqb Bool.eqb.
Definition enc (c : nat * nat * mat nat * mat Z * list bool * list nat) : list N :=
  let '(ns, nt, t2f, f2t, ori, b) := c in gen_encode_boundary ns nt t2f f2t ori b.
Definition dec (c : nat * nat * mat nat * mat Z * list N) : list nat * list bool :=
  let '(ns, nt, t2f, f2t, data) := c in gen_decode_boundary ns nt t2f f2t data.
Definition coh (c : nat * nat * mat nat * mat Z * list bool * list nat) : bool :=
  let '(ns, nt, t2f, f2t, ori, b) := c in coherent_tagb ns nt t2f f2t ori b.
Definition tag_eqb (a b : tagval) : bool := nats_eqb (fst a) (fst b) && option_eqb bools_eqb (snd a) (snd b).
Definition assoc_eqb {V} (e : V -> V -> bool) := list_eqb (fun (a b : String.string * V) => String.eqb (fst a) (fst b) && e (snd a) (snd b)).
Definition dict_out_eqb (a b : list (String.string * list nat) * list (String.string * list bool) * bdict) : bool :=
  assoc_eqb nats_eqb (fst (fst a)) (fst (fst b)) && assoc_eqb bools_eqb (snd (fst a)) (snd (fst b)) && assoc_eqb tag_eqb (snd a) (snd b).
Definition dict_rt (b : bdict) := (gen_dict_boundaries b, gen_dict_orientations b, gen_dict_load (gen_dict_boundaries b) (gen_dict_orientations b)).
Definition fw (c : bool * bool * option (list (String.string * nat)) * option (list (String.string * nat))
                  * list (String.string * nat) * list (String.string * nat))
  : list (String.string * nat) * list (String.string * nat) :=
  let '(ecd, epd, up, uc, encp, encc) := c in
  let flat (o : option (list (String.string * nat))) := match o with Some d => d | None => [] end in
  (flat (gen_point_data_of_to_meshio ecd epd up encp), flat (gen_cell_data_of_to_meshio ecd epd uc encc)).
Definition sub (c : nat * list nat) : list N * list nat :=
  let '(nt, s) := c in (gen_encode_subdomain nt s, gen_decode_subdomain (gen_encode_subdomain nt s)).
'''
    jobs = [
        lambda: ctx.corr('encode_boundary', imp, 'enc', 'Ns_eqb', enc_cases, defs=defs, nontrivial=lambda r: r[3] >= 2),
        lambda: ctx.corr('decode_boundary', imp, 'dec', '(pair_eqb nats_eqb bools_eqb)', dec_cases, defs=defs,
                         nontrivial=lambda r: r[2] >= 2 and r[3] >= 1),
        lambda: ctx.corr('coherence_of_real_tables', imp, 'coh', 'Bool.eqb', coh_cases, defs=defs,
                         nontrivial=lambda r: r[2] >= 2),
        lambda: ctx.corr('subdomain_codec', imp, 'sub', '(pair_eqb Ns_eqb nats_eqb)', sub_cases, defs=defs,
                         nontrivial=lambda r: r[2] >= 1),
        lambda: ctx.corr('to_meshio_data_dicts', imp + '\nFrom Coq Require String.', 'fw',
                         '(pair_eqb (assoc_eqb Nat.eqb) (assoc_eqb Nat.eqb))', fw_cases, defs='Import String.\n' + defs,
                         nontrivial=lambda r: r[3] >= 1),
        lambda: ctx.corr('to_dict_from_dict', imp + '\nFrom Coq Require String.', 'dict_rt', 'dict_out_eqb', dict_cases,
                         defs='Import String.\n' + defs, nontrivial=lambda r: r[2] >= 1),
    ]
    if ho_ok:
        jobs.append(lambda: ctx.corr(
            'postinit_high_order', 'Require Import Model.C18_Surgery Model.C17_HighOrder Gen.C17GenHO.\n'
            'From Coq Require Import List Arith Bool ZArith.', 'postinit', '(pair_eqb natss_eqb (list_eqb zs_eqb))', ho_cases,
            defs='Definition postinit (c : nat * nat * list (list Z) * mat nat * mat nat) : mat nat * list (list Z) :=\n'
                 "  let '(M, nc, p, t, eh) := c in (gen_hi_t M t, gen_hi_doflocs [] M nc p t eh).\n",
            nontrivial=lambda r: r[2] >= 9))
    from concurrent.futures import ThreadPoolExecutor
    with ThreadPoolExecutor(4) as ex:                  # the coqc runs are independent processes
        list(ex.map(lambda j: j(), jobs))


# ------------------------------------------------------------------------------ oracle

def one_roundtrip(ctx, m, fmt, rng, codec_ok):
    fn, exact, tol, userdata, first_only = FORMATS[fmt]
    name = type(m).__name__
    pd = cd = None
    extra = []
    if userdata:
        pd = {'upoint': rng.random(m.p.shape[1])}
        cd = {'ucell': [rng.random(m.t.shape[1])]}
        extra = [pd['upoint'], cd['ucell'][0]]
        keep = (pd['upoint'].copy(), cd['ucell'][0].copy())
    cs0 = checksum(m, extra)
    own = None if not userdata else (list(pd), list(cd), pd['upoint'], cd['ucell'], cd['ucell'][0])
    try:
        with quiet():
            M, opd, ocd = fn(m, pd, cd)
    except Exception as e:                                      # noqa: BLE001 — an exception IS a failing input
        import traceback
        ctx.fail(f'exception:{fmt}:{name}', f'{fmt} round trip of a {name} raises {type(e).__name__}: {e}',
                 {'mesh': mesh_json(m), 'format': fmt, 'traceback': traceback.format_exc()[-1500:]})
        return
    if checksum(m, extra) != cs0:
        ctx.fail(f'mutated:{fmt}:{name}', 'exporting altered the mesh or the user data arrays',
                 {'mesh': mesh_json(m), 'format': fmt})
    if own is not None and not (list(pd) == own[0] and list(cd) == own[1] and pd['upoint'] is own[2]
                                and cd['ucell'] is own[3] and cd['ucell'][0] is own[4]):
        ctx.fail(f'caller-dict-changed:{fmt}:{name}', 'exporting changed the point_data / cell_data dictionaries of the caller',
                 {'mesh': mesh_json(m), 'format': fmt, 'point_data_keys': list(pd), 'cell_data_keys': list(cd)})
    plain = fmt in PLAIN
    diffs = compare(m, M, exact=exact, tol=tol, want_ori=True, same_class=not (first_only and name in SECOND))
    if not exact and m.p.shape == M.p.shape:
        ctx.extra['max_ascii_coordinate_discrepancy'] = max(ctx.extra.get('max_ascii_coordinate_discrepancy', 0.0),
                                                            float(np.abs(m.p - M.p).max()))
    if userdata:
        for what, got, want in (('point_data', None if opd is None else opd.get('upoint'), keep[0]),
                                ('cell_data', None if ocd is None or 'ucell' not in ocd else np.asarray(ocd['ucell'][0]), keep[1])):
            if got is None or np.asarray(got).shape != want.shape:
                diffs.append((what, 'missing or reshaped'))
            elif exact and not np.array_equal(np.asarray(got), want):
                diffs.append((what, f'max abs diff {np.abs(np.asarray(got) - want).max():.3e}'))
            elif not exact and np.abs(np.asarray(got) - want).max() > tol:
                diffs.append((what, f'max abs diff {np.abs(np.asarray(got) - want).max():.3e}'))
    for what, detail in diffs:
        if what == 'orientation' and not plain and not codec_ok:
            continue      # already reported with the codec itself as the call site (KEY_F7)
        key = f'{what}:{fmt}:{name}'
        msg = f'{fmt} round trip of a {name}: {what} not preserved ({detail})'
        ctx.fail(key, msg, {'mesh': mesh_json(m), 'format': fmt, 'difference': [what, detail]})


def empty_tags_then_restrict(ctx, rng):
    """an empty named boundary / subdomain must survive dict and JSON as an index array: restrict afterwards works"""
    import skfem
    from skfem.io.json import from_file, to_file
    for name in FIRST:
        m = rand_mesh1(name, rng, integer=True)
        m = m.with_boundaries({'none': np.array([], dtype=np.int32), 'some': m.boundary_facets()[:2]}) \
             .with_subdomains({'void': np.array([], dtype=np.int32)})
        for fmt in ('dict', 'json'):
            try:
                if fmt == 'dict':
                    M = type(m).from_dict(m.to_dict())
                else:
                    with tempfile.TemporaryDirectory(prefix='c17_') as d:
                        to_file(m, os.path.join(d, 'm.json'))
                        M = from_file(os.path.join(d, 'm.json'))
                kinds = {k: np.asarray(v).dtype.kind for k, v in list(M.boundaries.items()) + list(M.subdomains.items())}
                if any(k not in 'iu' for k in kinds.values()):
                    ctx.fail(f'tag-dtype:{fmt}:{name}', f'{fmt} round trip turns an empty tag into a non-integer array '
                             f'({kinds})', {'mesh': mesh_json(m), 'format': fmt})
                R = M.restrict(np.arange(max(1, M.t.shape[1] // 2)))
                if sorted(R.boundaries) != ['none', 'some'] or len(R.boundaries['none']) != 0:
                    ctx.fail(f'restrict-after:{fmt}:{name}', 'restrict after a round trip loses the empty tag',
                             {'mesh': mesh_json(m), 'format': fmt})
            except Exception as e:                        # noqa: BLE001
                import traceback
                ctx.fail(f'exception:restrict-after-{fmt}:{name}', f'restrict after a {fmt} round trip of a {name} with an '
                         f'empty tag raises {type(e).__name__}: {e}',
                         {'mesh': mesh_json(m), 'format': fmt, 'traceback': traceback.format_exc()[-1200:]})
            ctx.count(('empty-tags', fmt, name), nontrivial=True)


def two_sided_tags(ctx, rng, fmts):
    """deterministic witnesses: an oriented tag that lists facets from BOTH sides ([f, f] with flags [0, 1]), hand-made and
    as produced by remove_duplicate_nodes on two stacked meshes, through every format"""
    import skfem
    from skfem.generic_utils import OrientedBoundary
    for name in FIRST:
        m = rand_mesh1(name, rng, integer=True, holes=False, size=[2, 3] if name in ('MeshTri1', 'MeshQuad1') else [2, 2, 2])
        itf = np.nonzero(m.f2t[1] != -1)[0][:3]
        hand = m.with_boundaries({'both': OrientedBoundary(np.concatenate([itf, itf]).astype(np.int32),
                                                           np.concatenate([np.zeros(len(itf), int), np.ones(len(itf), int)])),
                                  'one': OrientedBoundary(itf.astype(np.int32), np.ones(len(itf), int))})
        # two copies side by side, NOT merged; the seam is tagged on both copies; the merge makes the tag two-sided
        ax = 0
        dv = [0.0] * m.p.shape[0]
        dv[ax] = float(m.p[ax].max() - m.p[ax].min())
        o = m.translated(dv)
        st = type(m)(np.hstack((m.p, o.p)), np.hstack((m.t, o.t + m.p.shape[1])))
        xs = float(m.p[ax].max())
        seam = np.nonzero(np.all(st.p[ax, st.facets] == xs, axis=0))[0].astype(np.int32)
        st = st.with_boundaries({'seam': OrientedBoundary(seam, np.zeros(len(seam), int))})
        merged = st.remove_duplicate_nodes()
        g = merged.boundaries['seam']
        if len(g) != len(seam) or len(set(np.asarray(g).tolist())) * 2 != len(g):
            ctx.fail(f'two-sided-tag:remove_duplicate_nodes:{name}', 'the seam tagged on both copies does not become a two-sided tag',
                     {'mesh': mesh_json(st), 'got': np.asarray(g).tolist()})
            continue
        for mt in (hand, merged):
            codec_ok = codec_direct_multiset(ctx, mt)
            for fmt in fmts:
                one_roundtrip(ctx, mt, fmt, rng, codec_ok)
                ctx.count(('two-sided', fmt, mesh_json(mt)), nontrivial=True)


def codec_direct_multiset(ctx, m):
    """decode(encode) on tags that may list a facet twice: compared as multisets of (facet, tagged-side cell)"""
    bnd, _ = m._decode_cell_data(m._encode_cell_data())
    ok = True
    for k, b in m.boundaries.items():
        def sides(tag):
            o = getattr(tag, 'ori', None)
            o = np.zeros(len(tag), dtype=int) if o is None else np.asarray(o).astype(int)
            return sorted((int(f), int(m.f2t[int(oo), int(f)])) for f, oo in zip(np.asarray(tag), o))
        if k not in bnd or sides(bnd[k]) != sides(b):
            ok = False
            ctx.fail('two-sided-tag:_decode_cell_data', 'Mesh._decode_cell_data(Mesh._encode_cell_data()) does not return a tag that '
                     'lists facets from both sides', {'mesh': mesh_json(m), 'tag': k, 'want': sides(b),
                                                      'got': None if k not in bnd else sides(bnd[k])})
    return ok


def api_forms(ctx, rng):
    """public call forms of save / load that forward to the codecs (coverage audit): pathlib paths, the class-level loader,
    to_file / from_file, the options of save (encode_point_data, encode_cell_data) and of load (out, ignore_orientation,
    force_meshio_type, int_data_to_sets), MeshLine1"""
    import pathlib
    import skfem
    from skfem.io.meshio import from_file, to_file, to_meshio, from_meshio
    types = {'MeshTri1': 'triangle', 'MeshQuad1': 'quad', 'MeshTet1': 'tetra', 'MeshHex1': 'hexahedron'}
    for name in FIRST:
        m = rand_mesh1(name, rng)
        sub, bnd = rand_tags(m, rng, empty=False)
        m = m.with_subdomains(sub).with_boundaries(bnd)

        def chk(form, M, want=None):
            d = compare(want if want is not None else m, M)
            ctx.count(('api', form, name), nontrivial=True)
            ctx.hist('api_form', form)
            if d:
                ctx.fail(f'api:{form}:{name}', f'{form}: {d[0][0]} not preserved ({d[0][1]})',
                         {'mesh': mesh_json(m), 'form': form, 'difference': list(d[0])})
        with tempfile.TemporaryDirectory(prefix='c17_') as d, quiet():
            fn = pathlib.Path(d) / 'm.vtk'
            try:
                m.save(fn)
                chk('pathlib+class.load', getattr(skfem, name).load(fn))
                chk('load:ignore_orientation', skfem.Mesh.load(fn, ignore_orientation=True))
                chk('load:force_meshio_type', skfem.Mesh.load(fn, force_meshio_type=types[name]))
                out = ['point_data', 'cell_data', 'cells_dict']
                chk('load:out', skfem.Mesh.load(fn, out=out))
                if not (isinstance(out[2], dict) and types[name] in out[2]):
                    ctx.fail(f'api:load:out:{name}', 'out= does not return the requested attributes', {'mesh': mesh_json(m)})
                m.save(fn, encode_point_data=True)
                chk('save:encode_point_data', skfem.Mesh.load(fn))
                # user data together with the encoding options: the user's arrays come back unchanged, the tags too
                from dataclasses import replace as _rp
                from skfem.io.meshio import from_meshio as _fm, to_meshio as _tm
                for epd in (False, True):
                    for ecd in (True, False):
                        up, uc = rng.random(m.p.shape[1]), rng.random(m.t.shape[1])
                        pdat, cdat = {'u': up.copy()}, {'c': [uc.copy()]}
                        form = f'save:user-data:encode_point_data={epd}:encode_cell_data={ecd}'
                        want = m if ecd else _rp(m, _boundaries=None, _subdomains=None)
                        for via in ('file', 'meshio'):
                            out = ['point_data', 'cell_data']
                            if via == 'file':
                                m.save(fn, point_data=pdat, cell_data=cdat, encode_point_data=epd, encode_cell_data=ecd)
                                M = skfem.Mesh.load(fn, out=out)
                            else:
                                M = _fm(_tm(m, pdat, cdat, encode_cell_data=ecd, encode_point_data=epd), out=out)
                            chk(form + ':' + via, M, want)
                            gp = out[0].get('u') if isinstance(out[0], dict) else None
                            gc = out[1].get('c') if isinstance(out[1], dict) else None
                            if gp is None or not np.array_equal(np.asarray(gp), up) or gc is None \
                                    or not np.array_equal(np.asarray(gc[0]), uc):
                                ctx.fail(f'api:user-data-lost:encode_point_data={epd}:encode_cell_data={ecd}:{name}',
                                         f'point_data / cell_data of the caller do not come back ({via}; point_data keys '
                                         f'{sorted(out[0]) if isinstance(out[0], dict) else out[0]}, cell_data keys '
                                         f'{sorted(out[1]) if isinstance(out[1], dict) else out[1]})',
                                         {'mesh': mesh_json(m), 'encode_point_data': epd, 'encode_cell_data': ecd, 'via': via})
                            if list(pdat) != ['u'] or list(cdat) != ['c']:
                                ctx.fail(f'api:caller-dict-changed:{name}', 'the dictionaries of the caller were changed',
                                         {'mesh': mesh_json(m), 'point_data_keys': list(pdat), 'cell_data_keys': list(cdat)})
                m.save(fn, encode_cell_data=False)
                M = skfem.Mesh.load(fn)
                if M.boundaries is not None or M.subdomains is not None:
                    ctx.fail(f'api:save:encode_cell_data=False:{name}', 'tags were written although encode_cell_data=False',
                             {'mesh': mesh_json(m)})
                from dataclasses import replace
                chk('save:encode_cell_data=False', M, replace(m, _boundaries=None, _subdomains=None))
                fu = str(pathlib.Path(d) / 'n.vtu')
                to_file(m, fu)
                chk('to_file/from_file', from_file(fu, None))
            except Exception as e:                            # noqa: BLE001
                import traceback
                ctx.fail(f'api:exception:{name}:{type(e).__name__}', f'a save / load call form of a {name} raises {type(e).__name__}: {e}',
                         {'mesh': mesh_json(m), 'traceback': traceback.format_exc()[-1200:]})
            try:
                m.save(fn)
                chk('load:int_data_to_sets', skfem.Mesh.load(fn, int_data_to_sets=True))
            except Exception as e:                            # noqa: BLE001
                ctx.fail('load-option:int_data_to_sets', f'Mesh.load(..., int_data_to_sets=True) raises {type(e).__name__}: {e}',
                         {'mesh': mesh_json(m), 'format': 'vtk'})
    # one-dimensional meshes through the in-memory form
    L = skfem.MeshLine1(np.array([[0., 1., 3., 6.]]), np.array([[0, 1, 2], [1, 2, 3]], dtype=np.int32))
    L = L.with_subdomains({'a': np.array([1], dtype=np.int32)}).with_boundaries({'ends': L.boundary_facets()})
    with quiet():
        d = compare(L, from_meshio(to_meshio(L)))
    if d:
        ctx.fail('api:meshio:MeshLine1', f'MeshLine1 through to_meshio / from_meshio: {d[0]}', {'mesh': mesh_json(L)})
    # observation outside the classes named by the property: MeshWedge1
    try:
        w = skfem.MeshTri1() * skfem.MeshLine(np.array([0., 1., 2.]))
        with quiet():
            from_meshio(to_meshio(w))
        ctx.extra['wedge_through_meshio'] = 'ok'
    except Exception as e:                                    # noqa: BLE001
        ctx.extra['wedge_through_meshio'] = f'{type(e).__name__}: {e} (MeshWedge1 is outside the classes the property names)'


def oracle(ctx):
    rng = np_seed(ctx, 71)
    api_forms(ctx, np_seed(ctx, 73))
    empty_tags_then_restrict(ctx, rng)
    two_sided_tags(ctx, rng, ['meshio', 'gmsh22', 'gmsh41', 'vtk', 'vtu', 'npz', 'dict', 'json', 'vtu-ascii'])
    fmts = ['meshio', 'gmsh22', 'gmsh41', 'vtk', 'vtu', 'npz', 'dict', 'json', 'vtu-ascii']
    if not ctx.quick():
        fmts.append('vtk-ascii')
    ctx.extra['formats'] = fmts
    ctx.extra['excluded_variants'] = []
    if not meshio_ascii_gmsh_works():
        ctx.extra['excluded_variants'].append('gmsh 2.2 / 4.1 ASCII: the installed meshio cannot read back its own ASCII '
                                              '$ElementData (probed without skfem); binary variants are checked')
    nper = ctx.n(10, 120)
    # (1) codec directly, many oriented interfaces (this is where F7 shows)
    ndirect = ctx.n(300, 5000)
    nbad = 0
    for k in range(ndirect):
        name = ALL[k % 8]
        m = rand_mesh(name, rng)
        sub, bnd = rand_tags(m, rng)
        m = m.with_subdomains(sub).with_boundaries(bnd)
        ok = codec_direct(ctx, m)
        nbad += not ok
        nor = sum(int(np.sum(getattr(b, 'ori', 0))) for b in bnd.values())
        ctx.count(('codec', mesh_json(m)), nontrivial=nor >= 1)
        ctx.hist('codec_direct_class', name)
    ctx.extra['codec_direct'] = {'meshes': ndirect, 'with_wrong_result': nbad}
    # (2) formats
    for name in ALL:
        for rep in range(nper):
            m = rand_mesh(name, rng)
            if rep % 3 == 1 and name in ('MeshTri1', 'MeshTet1'):
                m = m.oriented()                                   # cells not in ascending vertex order (sort_t=False)
                ctx.hist('unsorted_cells', name)
            sub, bnd = rand_tags(m, rng, empty=rep > 0)
            if rep == nper - 1 and rng.random() < 0.5:
                mt = m                                             # an untagged mesh now and then
            else:
                mt = m.with_subdomains(sub).with_boundaries(bnd)
            with quiet():
                codec_ok = (mt.boundaries is None) or all(
                    tag_ori(b) == tag_ori(mt._decode_cell_data(mt._encode_cell_data())[0].get(k, []))
                    for k, b in mt.boundaries.items())
            for fmt in fmts:
                if fmt == 'json' and name in SECOND:
                    # the statement offers the dictionary/JSON form for first-order meshes only; from_dict on
                    # the class itself is still exercised by 'dict'
                    continue
                one_roundtrip(ctx, mt, fmt, rng, codec_ok)
                nor = 0 if mt.boundaries is None else sum(int(np.sum(getattr(b, 'ori', 0))) for b in mt.boundaries.values())
                ctx.count(('rt', fmt, mesh_json(mt)), nontrivial=mt.boundaries is not None and nor >= 1)
                ctx.hist('format', fmt)
            ctx.hist('class', name)
            ctx.hist('ncells', mt.t.shape[1])
            if len(ctx.cov['samples']) < 5 and mt.boundaries is not None and 'iface' in mt.boundaries:
                ctx.sample({'kind': 'format round trip', 'class': name, 'ncells': int(mt.t.shape[1]),
                            'tags': {k: [np.asarray(v).tolist(), np.asarray(getattr(v, 'ori', [])).tolist()]
                                     for k, v in mt.boundaries.items()}})


# ------------------------------------------------------------------------------ the check

def run(ctx):
    ctx.trusted += ['meshio (file readers/writers), numpy.savez/load, json (external, exercised by the oracle only)',
                    'NumPy semantics of fancy/boolean indexing, nonzero, sort/argsort, bit operations (modelled; '
                    'corresponded on every run)']
    ctx.assumptions += ['boundary_roundtrip assumes the coherence of each tagged (facet, flag) with (t2f, f2t) stated in '
                        'Proofs.coherent1 (flag 0 on boundary facets, owner cell lists the facet in exactly one slot, '
                        'f2t[0] != f2t[1]); the boolean version is evaluated on the tables of every real mesh of the '
                        'correspondence run',
                        'facet lists are duplicate-free (sets); np.argsort ties therefore never arise',
                        'cell data are non-negative integers below 2^nslots (what the encoder produces)']
    ctx.cov['rule'] = ('correspondence: random tensor meshes (tri/quad/tet/hex, random vertex relabelling, cell order, quad '
                       'rotations, removed cells) x random facet sets (valid oriented, illegal flag on boundary facets, '
                       'duplicates, raw bit sets); oracle: eight classes (second order with displaced edge/face/cell nodes) '
                       'x random tag sets x formats; non-trivial = at least one facet with orientation flag 1 / at least '
                       'two tagged facets; distinct by content hash')
    ctx.ensure_static()
    txt, tm, mt, errors = T.translate()
    for name, err in errors:
        ctx.broke('translator', 'c17_translate: ' + name, err)
    ctx.write_gen('C17Gen', txt)
    try:
        ctx.write_gen('C17GenHO', T.translate_highorder())
        ho_ok = True
    except TranslateError as e:
        ctx.broke('translator', 'c17_translate: mesh.py: __post_init__ (high order), element DOF locations', e)
        ho_ok = False
    ctx.extra['type_mesh_mapping'] = tm
    gen_ok = not errors
    ctx.compile_dyn(['gen/C17Gen.v'] + (['gen/C17GenHO.v'] if ho_ok else []) + ctx.copy_dyn())
    ctx.prove()
    from ..c17_cov import Recorder
    rec = Recorder()
    rec.__enter__()
    try:
        correspondence(ctx, gen_ok, ho_ok)
    except Exception as e:      # noqa: BLE001 — the implementation raised while the cases were generated: the oracle
        import traceback        # below looks for the concrete input; the tie is reported as broken in any case
        ctx.broke('correspondence', f'case generation raised {type(e).__name__}', traceback.format_exc())
    try:
        oracle(ctx)
    finally:
        rec.__exit__()
    ctx.extra['api_coverage'] = rec.table(API_NOTES)


API_NOTES = {
             'draw': 'visualisation: out of scope',
             'plot': 'visualisation: out of scope',
             'element_finder': 'point location: property C14',
             'mapping': 'reference mapping: property C10',
             'p2e': 'incidence table: property C11',
             'p2f': 'incidence table: property C11',
             'p2t': 'incidence table: property C11',
             'e2t': 'incidence table: property C11',
             'f2e': 'derived connectivity: property C11',
             'boundary_edges': 'derived connectivity: property C11',
             'interior_edges': 'derived connectivity: property C11',
             'boundary_nodes': 'derived connectivity: property C11',
             'interior_nodes': 'derived connectivity: property C11',
             'edges_satisfying': 'selector on edges: property C07/C11',
             'nodes_satisfying': 'selector on nodes: property C07',
             'normalize_nodes': 'selector on nodes: property C07',
             'param': 'mesh parameter: not part of the statement',
             'params': 'mesh parameter: not part of the statement',
             'hash_args': 'cache key: property C15',
             'deprecated': 'decorator: out of scope',
             'smoothed': 'moves interior vertices, not one of the operations of the statement',
             'brefdom': 'accessor',
             'periodic': 'MeshDG constructor: periodic meshes are not among the classes of the statement',
             'init_tensor': 'constructor (used to build the test meshes)',
             'strip_extra_coordinates': 'exercised by the 2-D vtk/vtu round trips',
             'is_valid': 'validation helper (the oracle validates independently)',
             '__iter__': 'p, t = mesh: accessor',
             'load': 'MeshDG.load / save raise NotImplementedError by design',
             'save': 'MeshDG.load / save raise NotImplementedError by design'}

API_NOTES.update({n: 'mesh surgery / selectors / constructors: exercised by the check of property C18' for n in ['__add__', '__matmul__', '__rmatmul__', 'copy', 'elements_satisfying', 'facets_around', 'facets_satisfying', 'init_refdom', 'mirrored', 'morphed', 'normalize_facets', 'refined', 'remove_elements', 'remove_unused_nodes', 'remove_duplicate_nodes', 'restrict', 'scaled', 'translated', 'trace', 'with_defaults', 'oriented', 'orientation', 'to_meshtri', 'to_meshtet', '__mul__', 'init_circle', 'init_lshaped', 'init_sqsymmetric', 'init_symmetric', 'init_ball', '__call__', 'normalize_elements']})


def replay(ctx, data):
    """re-run one recorded failing input on the implementation"""
    ctx.log('replaying', data.get('key'))
    inp = data['input']
    m = mesh_from_json(inp['mesh'])
    rng = np_seed(ctx, 5)
    if 'format' in inp:
        codec_ok = codec_direct(ctx, m)
        one_roundtrip(ctx, m, inp['format'], rng, codec_ok)
    else:
        codec_direct(ctx, m)
