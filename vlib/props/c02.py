"""C02 — integration is exact for polynomial data on cells and facets (PARTIAL, DESIGN.md section 5).

tie T2 : Gen/C02Gen.v is regenerated from mapping_affine.py (A, detA, invA, B, detB, detDF, detDG), cell_basis.py /
         facet_basis.py (dx = |det| * W) and abstract_basis.py (default order 2*maxdeg); dyn/C02Tie.v proves for every
         commutative ring / field: detA = Leibniz determinant, vertex renumbering changes it by the sign only,
         translation / linear-map laws, invA is the two-sided inverse, detB^2 = Gram determinant, dx totals,
         partition-of-unity mass-sum = sum_e |detA_e| sum_q W_q.
corr   : the generated terms are evaluated by vm_compute over Z / Qc on the vertex coordinates of random integer meshes
         and compared with MappingAffine's detA, invA, detB of the same meshes.
oracle : exact Fraction integrals (independent code) of all monomials up to the integration order over cells, cell
         subsets (also as named subdomains), facet sets of random integer-coordinate meshes of all cell types, and
         invariance under renumbering / cell order / integer rigid motions / refinement; exact P1/P2 mass, stiffness,
         load; partition-of-unity mass sums.  Tolerance 1e-11 relative to the size of the integrand.
"""
import itertools
from fractions import Fraction

import numpy as np

from .. import c02_t2 as T
from .. import c02_elems as EL
from .. import c02_oracle as X
from ..core import TranslateError, clist, cz, cnat

RTOL = 1e-11


# ------------------------------------------------------------------------------ helpers

def monos(d, n):
    return [e for e in itertools.product(range(n + 1), repeat=d) if sum(e) <= n]


def functional_of(poly):
    from skfem.assembly import Functional
    items = [(e, float(c)) for e, c in poly.items()]

    def form(w):
        out = 0.0
        for e, c in items:
            term = c
            for i, ei in enumerate(e):
                if ei:
                    term = term * w.x[i] ** ei
            out = out + term
        return out + 0.0 * w.x[0]
    return Functional(form)


def scale_of(m, poly, measure):
    r = float(np.abs(m.p).max()) + 1.0
    return measure * sum(abs(float(c)) * r ** sum(e) for e, c in poly.items()) + 1e-300


class Track:
    def __init__(self, ctx):
        self.ctx = ctx
        self.maxrel = 0.0
        self.where = None

    def cmp(self, key, what, got, want, scale, data):
        rel = abs(got - want) / scale
        if rel > self.maxrel:
            self.maxrel, self.where = rel, what
        if not (rel <= RTOL):
            d = dict(data)
            d.update({'got': got, 'exact': want, 'relative_error': rel, 'tolerance': RTOL})
            self.ctx.fail(key, what + f': got {got!r}, exact {want!r} (relative {rel:.2e})', d)
            return False
        return True


def mesh_data(m):
    return {'mesh': type(m).__name__, 'p': np.asarray(m.p).tolist(), 't': np.asarray(m.t).tolist()}


def default_elem(m):
    import skfem
    k = X.mesh_kind(m)
    return {'line': skfem.ElementLineP1, 'tri': skfem.ElementTriP1, 'tet': skfem.ElementTetP1, 'quad': skfem.ElementQuad1,
            'hex': skfem.ElementHex1, 'wedge': skfem.ElementWedge1}[k]()


# ------------------------------------------------------------------------------ the check

def run(ctx):
    ctx.trusted += ['thorough tier: coqchk re-checks all modules except the generated Gen.C02Elems (per-element vm_compute lemmas), '
                    'which is checked by the coqc kernel only',
                    'change of variables int_{F(K^)} p = |det A| int_{K^} p o F and additivity of the integral over the cells are '
                    'the definition of the exact integral over a physical cell (not formalised)',
                    'exactness of the reference rules is property C08 (2^-45); NumPy broadcasting / einsum in Functional and the '
                    'basis classes is covered by the oracle only',
                    'isoparametric (general quadrilateral) cells: oracle only']
    ctx.assumptions += ['partial: the theorems cover the algebra that turns reference weights into dx on affine cells and facets '
                        '(determinants, inverse, Gram determinant, |det| under renumbering / translation / linear maps, dx totals, '
                        'partition-of-unity mass sum, default order); the analytic step (change of variables, additivity) is assumed',
                        'oracle inputs are integer-coordinate, well-conditioned meshes; tolerance 1e-11 relative to measure * max|x|^deg']
    ctx.cov['rule'] = ('oracle: random integer-coordinate meshes (line, tri, tet, parallelogram quad, box/parallelepiped hex, general convex '
                       'quad, prism) x intorder x every monomial of degree <= intorder (<= intorder-1 on general quads) on all cells, '
                       'random cell subsets, named subdomains, random facet sets and the boundary; non-trivial = degree >= 1 and >= 2 cells; '
                       'correspondence: every cell / facet of the generated simplex meshes')
    ctx.ensure_static()
    gen_ok = True
    try:
        ctx.write_gen('C02Gen', T.translate_all())
    except TranslateError as e:
        ctx.broke('translator', 'c02_t2.translate_all', e)
        gen_ok = False
    relems = []
    try:
        etxt, relems = EL.generate(ctx.tier)
        ctx.write_gen('C02Elems', etxt)
        ctx.extra['reference_elements'] = [e.name for e in relems]
        ctx.extra['reference_stiffness_elements'] = [e.name for e in relems if e.stiff is not None]
    except TranslateError as e:
        ctx.broke('translator', 'c02_elems.generate (symbolic execution of lbasis)', e)
        gen_ok = False
    tr = Track(ctx)
    meshes = _meshes(ctx)

    def oracles():
        import traceback
        for fn, args in ((_oracle_reference_matrices, (ctx, relems, tr)), (_oracle_tind_mapping, (ctx, meshes, tr)),
                         (_oracle_repeated_bases, (ctx, meshes, tr)), (_oracle_given_quadrature, (ctx, meshes, tr)),
                         (_oracle_subset_sequences, (ctx, meshes, tr)), (_oracle_order_sweep, (ctx, tr)), (_oracle_derived_bases, (ctx, tr)),
                         (_oracle_api_forms, (ctx, meshes, tr)),
                         (_oracle_cells, (ctx, meshes, tr)), (_oracle_facets, (ctx, meshes, tr)), (_oracle_invariance, (ctx, meshes, tr)),
                         (_oracle_lagrange, (ctx, tr)), (_oracle_partition_of_unity, (ctx, meshes, tr))):
            try:
                fn(*args)
            except Exception as e:     # the implementation raised on a valid straight-sided integer mesh
                ctx.fail(f'exception:{fn.__name__}:{type(e).__name__}', f'{type(e).__name__} raised by the implementation during {fn.__name__}: {e}',
                         {'traceback': traceback.format_exc()[-3000:], 'seed': ctx.seed})
    # the oracle (pure Python) runs in a second thread while coqc compiles
    from concurrent.futures import ThreadPoolExecutor
    # thorough tier: coqchk (no VM) re-checks everything except the generated module of reference matrices, whose lemmas
    # are pure VM computations (checked by the coqc kernel)
    from .c08 import _patch_coqchk
    _patch_coqchk(ctx, ['Gen.C02Elems'])
    with ThreadPoolExecutor(1) as ex:
        fut = ex.submit(oracles)
        if gen_ok:
            gen_ok = ctx.compile_dyn(['gen/C02Gen.v', 'gen/C02Elems.v'] + ctx.copy_dyn(), timeout=600)
        ctx.prove()
        if gen_ok:
            _correspond(ctx, meshes)
        fut.result()
    ctx.extra['max_relative_discrepancy'] = tr.maxrel
    ctx.extra['max_relative_discrepancy_at'] = tr.where
    ctx.extra['tolerance'] = RTOL
    ctx.log(f'oracle: max relative discrepancy {tr.maxrel:.2e} (tolerance {RTOL:g}) at {tr.where}')


def _meshes(ctx):
    rng = ctx.rng
    out = []
    plan = [('line', False), ('line', True), ('tri', False), ('tri', True), ('tet', False), ('tet', True),
            ('quad', False), ('quad', True), ('hex', False), ('wedge', False)]
    reps = ctx.n(2, 8)
    for kind, general in plan:
        for rep in range(reps):
            for _try in range(50):
                m = X.make_mesh(kind, rng, general=general, size=2 + rep % 2)
                if X.is_valid(m) and float(np.abs(m.p).max()) <= 40:
                    break
            else:
                raise RuntimeError(f'could not generate a valid {kind} mesh')
            out.append((kind, general, m))
            ctx.hist('mesh', kind + ('-general' if general else '-affine'))
            ctx.hist('cells', m.t.shape[1])
    return out


# ---- correspondence of the generated closed forms with MappingAffine

def _correspond(ctx, meshes):
    from skfem.mapping import MappingAffine
    det_cases, inv_cases, facet_cases = [], [], []
    for kind, general, m in meshes:
        if kind not in ('line', 'tri', 'tet'):
            continue
        d = m.p.shape[0]
        mp = MappingAffine(m)
        detA = np.asarray(mp.detA)
        invA = np.asarray(mp.invA)
        detB = np.asarray(mp.detB)
        P = np.asarray(m.p)
        for c in range(m.t.shape[1]):
            V = [[int(P[i, k]) for k in m.t[:, c]] for i in range(d)]     # coordinate x local vertex
            if any(float(P[i, k]) != int(P[i, k]) for i in range(d) for k in m.t[:, c]):
                continue
            dv = float(detA[c])
            if dv != round(dv):
                ctx.fail(f'detA-not-integer:{kind}', 'detA of an integer simplex is not an integer', {**mesh_data(m), 'cell': c, 'detA': dv})
                continue
            det_cases.append((f'({cnat(d)}, {clist([clist([cz(x) for x in r]) for r in V])})', cz(int(round(dv))), ('detA', kind, d, c)))
            if len(inv_cases) < 150 and dv != 0:
                rows = []
                good = True
                for i in range(d):
                    row = []
                    for j in range(d):
                        val = float(invA[i, j, c]) * dv
                        if abs(val - round(val)) > 1e-7:
                            good = False
                        fr = Fraction(int(round(val)), int(round(dv)))
                        row.append(f'(Q2Qc (({fr.numerator})%Z # {fr.denominator}%positive))')
                    rows.append(clist(row))
                if not good:
                    ctx.fail(f'invA-not-cofactor:{kind}', 'invA * detA is not an integer matrix on an integer simplex',
                             {**mesh_data(m), 'cell': c})
                    continue
                inv_cases.append((f'({cnat(d)}, {clist([clist([cz(x) for x in r]) for r in V])})', clist(rows), ('invA', kind, d, c)))
        if d >= 2:
            for f in range(m.facets.shape[1]):
                V = [[int(P[i, k]) for k in m.facets[:, f]] for i in range(d)]
                sq = float(detB[f]) ** 2
                if abs(sq - round(sq)) > 1e-9 * max(1.0, sq):
                    ctx.fail(f'detB2-not-integer:{kind}', 'detB^2 of an integer facet is not an integer', {**mesh_data(m), 'facet': f, 'detB': float(detB[f])})
                    continue
                facet_cases.append((f'({cnat(d)}, {clist([clist([cz(x) for x in r]) for r in V])})', cz(int(round(sq))), ('detB', kind, d, f)))
    imports = ('From Coq Require Import ZArith List QArith Qcanon.\n'
               'Require Import Base.C02_Ops Gen.C02Gen Dyn.C02Tie.')
    defs = '''
Definition vz (M : list (list Z)) : nat -> nat -> Z := fun i k => nth k (nth i M []) 0%Z.
Definition model_det (c : nat * list (list Z)) : Z :=
  match fst c with
  | 1%nat => simplex_det1 Z Zops (vz (snd c)) | 2%nat => simplex_det2 Z Zops (vz (snd c))
  | _ => simplex_det3 Z Zops (vz (snd c)) end.
Definition model_detB2 (c : nat * list (list Z)) : Z :=
  match fst c with 2%nat => facet_sq2 Z Zops (vz (snd c)) | _ => facet_sq3 Z Zops (vz (snd c)) end.
Definition vq (M : list (list Z)) : nat -> nat -> Qc := fun i k => Q2Qc (inject_Z (nth k (nth i M []) 0%Z)).
Definition aq (M : list (list Z)) : nat -> nat -> Qc := fun i j => gen_A Qcops (vq M) i j.
Definition model_inv (c : nat * list (list Z)) : list (list Qc) :=
  let a := aq (snd c) in
  match fst c with
  | 1%nat => [[invA1_00 Qcops (a 0 0)%nat (detA1 Qcops (a 0 0)%nat)]]
  | 2%nat => let d := detA2 Qcops (a 0 0) (a 0 1) (a 1 0) (a 1 1) in
       [[invA2_00 Qcops (a 0 0) (a 0 1) (a 1 0) (a 1 1) d; invA2_01 Qcops (a 0 0) (a 0 1) (a 1 0) (a 1 1) d];
        [invA2_10 Qcops (a 0 0) (a 0 1) (a 1 0) (a 1 1) d; invA2_11 Qcops (a 0 0) (a 0 1) (a 1 0) (a 1 1) d]]%nat
  | _ => map (fun i => map (fun j => inv3 Qc Qcops a (det3 Qc Qcops a) i j) [0; 1; 2]) [0; 1; 2]
  end%nat.
Definition qcs_eqb := list_eqb (list_eqb Qc_eq_bool).
Open Scope nat_scope.
'''
    nt = lambda r: r[2] >= 2
    from concurrent.futures import ThreadPoolExecutor
    jobs = [('detA', 'model_det', 'Z.eqb', det_cases[:ctx.n(300, 1200)], 400),
            ('invA', 'model_inv', 'qcs_eqb', inv_cases, 150),
            ('detB2', 'model_detB2', 'Z.eqb', facet_cases[:ctx.n(300, 1200)], 400)]
    with ThreadPoolExecutor(3) as ex:
        list(ex.map(lambda j: ctx.corr(j[0], imports, j[1], j[2], j[3], defs=defs, per_file=j[4], nontrivial=nt), jobs))


# ---- exact integrals over cells, subsets, named subdomains

def _orders(ctx, kind):
    hi = {'line': 7, 'tri': 6, 'tet': 4, 'quad': 5, 'hex': 3, 'wedge': 3}[kind]
    if ctx.quick():
        return sorted({1, 2, hi - 1, hi} - {0})
    return list(range(1, hi + 1))


def _oracle_cells(ctx, meshes, tr):
    from skfem.assembly import Basis
    rng = ctx.rng
    for kind, general, m in meshes:
        d = m.p.shape[0]
        elem = default_elem(m)
        nt_ = m.t.shape[1]
        sub = sorted(rng.sample(range(nt_), max(1, nt_ // 2)))
        msub = m.with_subdomains({'tagged': np.array(sub, dtype=np.int64)})
        measure_all = float(sum(X.cell_integrals(m, {tuple([0] * d): Fraction(1)})))
        for n in _orders(ctx, kind):
            b_all = Basis(m, elem, intorder=n)
            b_sub = Basis(m, elem, intorder=n, elements=np.array(sub))
            b_tag = Basis(msub, elem, intorder=n, elements='tagged')
            degmax = n - 1 if (kind == 'quad' and general) else n
            ms = monos(d, degmax)
            if ctx.quick() and len(ms) > 12:
                ms = [ms[0]] + [e for e in ms if sum(e) == degmax][:6] + rng.sample(ms, 5)
            for e in ms:
                poly = X.monomial(e)
                per_cell = X.cell_integrals(m, poly)
                F = functional_of(poly)
                sc = scale_of(m, poly, measure_all)
                key = f'cells:{kind}{"-general" if general else ""}:order={n}'
                data = {**mesh_data(m), 'intorder': n, 'monomial': list(e)}
                ctx.count(('cells', kind, general, n, e, np.asarray(m.p).tobytes()), nontrivial=sum(e) >= 1 and nt_ >= 2)
                tr.cmp(key, f'Functional(x^{list(e)}) over all cells of a {kind} mesh, intorder {n}', float(F.assemble(b_all)),
                       float(sum(per_cell)), sc, data)
                # elementwise values too
                el = np.asarray(F.elemental(b_all))
                for c in range(nt_):
                    if not (abs(el[c] - float(per_cell[c])) <= RTOL * sc):
                        tr.cmp(key + ':elemental', f'Functional.elemental cell {c}', float(el[c]), float(per_cell[c]), sc, {**data, 'cell': c})
                want = float(sum(per_cell[c] for c in sub))
                tr.cmp(f'subset:{kind}:order={n}', f'Functional(x^{list(e)}) over a cell subset', float(F.assemble(b_sub)), want, sc,
                       {**data, 'elements': sub})
                tr.cmp(f'subdomain:{kind}:order={n}', f'Functional(x^{list(e)}) over a named subdomain', float(F.assemble(b_tag)), want, sc,
                       {**data, 'elements': sub})
            ctx.hist('intorder', n)
        if len(ctx.cov['samples']) < 4:
            ctx.sample({'mesh': type(m).__name__, 'p': np.asarray(m.p).astype(int).tolist(), 't': np.asarray(m.t).tolist(),
                        'exact_measure': str(sum(X.cell_integrals(m, {tuple([0] * d): Fraction(1)})))})


# ---- every integration order the tables offer (odd ones too), cells and facets, small meshes near the origin

def _offered_orders(refdom, cap):
    from skfem.quadrature import get_quadrature
    out = []
    for n in range(1, cap + 1):
        try:
            get_quadrature(refdom, n)
        except NotImplementedError:
            break
        out.append(n)
    return out


def _small_mesh(kind, rng, tries=60):
    """the candidate with the smallest coordinates (high powers stay well conditioned)"""
    best = None
    for _try in range(tries):
        m = X.make_mesh(kind, rng, general=False, size=1)
        if X.is_valid(m):
            r = float(np.abs(m.p).max())
            if best is None or r < best[0]:
                best = (r, m)
    if best is None:
        raise RuntimeError(f'could not generate a small {kind} mesh')
    return best[1]


def _sweep_monos(d, n, rng):
    top = [e for e in monos(d, n) if sum(e) == n]
    pick = {top[0], top[-1], top[len(top) // 2]} | set(rng.sample(top, min(2, len(top))))
    low = [e for e in monos(d, n) if 1 <= sum(e) < n]
    pick |= set(rng.sample(low, min(2, len(low))))
    pick.add(tuple([0] * d))
    return sorted(pick)


def _tight_scale(m, e, measure):
    r = np.abs(np.asarray(m.p)).max(axis=1)
    return measure * float(np.prod([max(float(r[i]), 1.0) ** ei for i, ei in enumerate(e)])) + 1e-300


def _oracle_order_sweep(ctx, tr):
    """one small mesh per cell type and per integration order that get_quadrature offers for the cell (and for its
    facets): integrals of monomials up to that order over all cells / over the boundary vs the exact values"""
    from skfem.assembly import Basis, FacetBasis
    rng = ctx.rng
    q = ctx.quick()
    caps = {'line': 12 if q else 30, 'tri': 40, 'tet': 40, 'quad': 9 if q else 16, 'hex': 5 if q else 8, 'wedge': 40}
    fcaps = {'tri': 12 if q else 30, 'quad': 12 if q else 30, 'tet': 40, 'hex': 7 if q else 12}
    for kind in ('line', 'tri', 'tet', 'quad', 'hex', 'wedge'):
        m = _small_mesh(kind, rng)
        d = m.p.shape[0]
        elem = default_elem(m)
        one = {tuple([0] * d): Fraction(1)}
        measure = float(sum(X.cell_integrals(m, one)))
        orders = _offered_orders(m.refdom if hasattr(m, 'refdom') else elem.refdom, caps[kind])
        ctx.extra.setdefault('orders_swept_cells', {})[kind] = [orders[0], orders[-1]]
        for n in orders:
            b = Basis(m, elem, intorder=n)
            for e in _sweep_monos(d, n, rng):
                poly = X.monomial(e)
                want = float(sum(X.cell_integrals(m, poly)))
                got = float(functional_of(poly).assemble(b))
                ctx.count(('sweep-cells', kind, n, e, np.asarray(m.p).tobytes()), nontrivial=sum(e) >= 1)
                tr.cmp(f'cells:{kind}:order={n}', f'Functional(x^{list(e)}) over all cells of a {kind} mesh, intorder {n}', got, want,
                       _tight_scale(m, e, measure), {**mesh_data(m), 'intorder': n, 'monomial': list(e)})
            ctx.hist('sweep-intorder:' + kind, n)
        if kind in fcaps:
            fs = m.boundary_facets()
            fmeasure = max(X.facet_integral_value(m, one, fs), 1.0)
            forders = _offered_orders(elem.refdom.brefdom, fcaps[kind])
            ctx.extra.setdefault('orders_swept_facets', {})[kind] = [forders[0], forders[-1]]
            for n in forders:
                fb = FacetBasis(m, elem, facets=fs, intorder=n)
                for e in _sweep_monos(d, n, rng)[:6]:
                    poly = X.monomial(e)
                    want = X.facet_integral_value(m, poly, fs)
                    got = float(functional_of(poly).assemble(fb))
                    ctx.count(('sweep-facets', kind, n, e, np.asarray(m.p).tobytes()), nontrivial=sum(e) >= 1)
                    tr.cmp(f'facets:{kind}:boundary:order={n}', f'Functional(x^{list(e)}) over boundary facets of a {kind} mesh, intorder {n}',
                           got, want, _tight_scale(m, e, fmeasure),
                           {**mesh_data(m), 'facets': np.asarray(fs).tolist(), 'intorder': n, 'monomial': list(e)})


# ---- the memory-saving MappingAffine(mesh, tind=cells) passed as mapping= to a basis restricted to those cells

def _tind_witnesses():
    import skfem
    A2 = np.array([[2., 1.], [0., 1.]])
    mt = skfem.MeshTri.init_tensor(np.array([0., 1., 3.]), np.array([0., 2., 3.]))
    A3 = np.array([[1., 1., 0.], [0., 2., 1.], [1., 0., 1.]])
    mk = skfem.MeshTet.init_tensor(np.array([0., 1.]), np.array([0., 2.]), np.array([0., 1., 3.]))
    return [('tri', skfem.MeshTri(A2 @ mt.p, mt.t), [1, 2, 5]), ('tri', skfem.MeshTri(A2 @ mt.p, mt.t), [0, 7]),
            ('tet', skfem.MeshTet(A3 @ mk.p, mk.t), [0, 3, 5]), ('tet', skfem.MeshTet(A3 @ mk.p, mk.t), [2, 4, 7, 9])]


def _oracle_tind_mapping(ctx, meshes, tr):
    """Basis(mesh, elem, mapping=MappingAffine(mesh, tind=cells), elements=cells): integrals of monomials (detA of the
    restricted mapping) and of a derivative of an interpolated linear function (invA of the restricted mapping) over the
    subset vs the exact values; fixed witnesses (every tier) plus the random simplex meshes of the run"""
    from skfem.assembly import Basis, Functional
    from skfem.mapping import MappingAffine
    rng = ctx.rng
    cases = [(k, m, sorted(c), True) for k, m, c in _tind_witnesses()]
    for kind, general, m in meshes:
        if kind in ('tri', 'tet') and m.t.shape[1] >= 2:
            nt_ = m.t.shape[1]
            cases.append((kind, m, sorted(rng.sample(range(nt_), max(1, nt_ // 2))), False))
    for kind, m, cells, fixed in cases:
        d = m.p.shape[0]
        elem = default_elem(m)
        cells_a = np.array([c for c in cells if c < m.t.shape[1]], dtype=np.int64)
        n = 3
        one = {tuple([0] * d): Fraction(1)}
        measure = float(sum(X.cell_integrals(m, one)))
        sub_measure = float(sum(X.cell_integrals(m, one, cells_a)))
        basis = Basis(m, elem, mapping=MappingAffine(m, tind=cells_a), elements=cells_a, intorder=n)
        for e in [tuple([0] * d)] + [e for e in monos(d, 1) if sum(e) == 1] + [e for e in monos(d, n) if sum(e) == n][:2]:
            poly = X.monomial(e)
            want = float(sum(X.cell_integrals(m, poly, cells_a)))
            got = float(functional_of(poly).assemble(basis))
            ctx.count(('tind-mapping', kind, fixed, e, np.asarray(m.p).tobytes(), tuple(cells)), nontrivial=True)
            tr.cmp(f'tind-mapping:{kind}', f'Functional(x^{list(e)}) over cells {list(map(int, cells_a))} of a {kind} mesh with '
                   f'mapping=MappingAffine(mesh, tind=cells)', got, want, scale_of(m, poly, measure),
                   {**mesh_data(m), 'intorder': n, 'monomial': list(e), 'elements': [int(c) for c in cells_a], 'tind_mapping': True})
        # d/dx_0 of the P1 interpolant of x_0 + 2 x_1 (+ 3 x_2) is 1: uses invA of the restricted mapping
        full = Basis(m, elem)
        coef = [1.0, 2.0, 3.0][:d]
        u = sum(c * full.doflocs[i] for i, c in enumerate(coef))
        got = float(Functional(lambda w: w['u'].grad[0]).assemble(basis, u=basis.interpolate(u)))
        tr.cmp(f'tind-mapping:{kind}:gradient', f'integral of d/dx_0 of the interpolant of a linear function over cells {list(map(int, cells_a))} '
               f'with mapping=MappingAffine(mesh, tind=cells)', got, sub_measure, measure,
               {**mesh_data(m), 'elements': [int(c) for c in cells_a], 'tind_mapping': True, 'linear_function_coefficients': coef})


# ---- REPEATED construction of bases on one mesh / mapping object (results may not depend on what was built before)

def _oracle_repeated_bases(ctx, meshes, tr):
    """three CellBasis (and FacetBasis) objects built one after the other on the same mesh object with the same order:
    every one must integrate exactly.  Includes 1-D isoparametric mappings: a MappingIsoparametric shared by the bases
    of a MeshLine, and a periodic MeshLine1DG"""
    import skfem
    from skfem.assembly import Basis, FacetBasis
    from skfem.mapping import MappingIsoparametric
    rng = ctx.rng
    cases = []      # (label, mesh for construction, mesh for exact values, kwargs factory)
    xs = np.array([0., 1., 3., 4., 7.])
    ml = skfem.MeshLine(xs)
    iso = MappingIsoparametric(ml, skfem.ElementLineP1())
    cases.append(('line-isoparametric', ml, ml, {'mapping': iso}))
    mper = skfem.MeshLine1DG.periodic(skfem.MeshLine(xs), [len(xs) - 1], [0])
    cases.append(('line-periodic-DG', mper, skfem.MeshLine(xs), {}))
    ml2 = X.make_mesh('line', rng, general=True)
    cases.append(('line-isoparametric', ml2, ml2, {'mapping': MappingIsoparametric(ml2, skfem.ElementLineP1())}))
    for kind, general, m in meshes:
        cases.append((kind + ('-general' if general else ''), m, m, {}))
    for label, m, mex, kw in cases:
        d = mex.p.shape[0]
        kindx = X.mesh_kind(mex)
        elem = default_elem(mex)
        n = 3
        deg = 2 if label == 'quad-general' else 3
        polys = [X.monomial(tuple([0] * d)), X.monomial(tuple([deg] + [0] * (d - 1)))]
        one = {tuple([0] * d): Fraction(1)}
        measure = float(sum(X.cell_integrals(mex, one)))
        wants = [float(sum(X.cell_integrals(mex, pl))) for pl in polys]
        for k in range(3):
            b = Basis(m, elem, intorder=n, **kw)
            for pl, want in zip(polys, wants):
                e = next(iter(pl))
                got = float(functional_of(pl).assemble(b))
                ctx.count(('repeat', label, k, e, np.asarray(mex.p).tobytes()), nontrivial=k >= 1)
                tr.cmp(f'repeated-basis:{label}', f'Functional(x^{list(e)}) with CellBasis no. {k + 1} built on one {label} mesh object, intorder {n}',
                       got, want, scale_of(mex, pl, measure),
                       {**mesh_data(mex), 'construction': label, 'intorder': n, 'monomial': list(e), 'repetition': k + 1})
        if kw or kindx in ('wedge', 'line') or label in ('quad-general', 'line-periodic-DG'):
            continue
        fs = m.boundary_facets()
        fone = max(X.facet_integral_value(m, one, fs), 1.0)
        fwants = [X.facet_integral_value(m, pl, fs) for pl in polys]
        for k in range(2):
            fb = FacetBasis(m, elem, facets=fs, intorder=n)
            for pl, want in zip(polys, fwants):
                e = next(iter(pl))
                got = float(functional_of(pl).assemble(fb))
                ctx.count(('repeat-facets', label, k, e, np.asarray(m.p).tobytes()), nontrivial=k >= 1)
                tr.cmp(f'repeated-facetbasis:{label}', f'Functional(x^{list(e)}) with FacetBasis no. {k + 1} built on one {label} mesh object',
                       got, want, scale_of(m, pl, fone),
                       {**mesh_data(m), 'facets': np.asarray(fs).tolist(), 'intorder': n, 'monomial': list(e), 'repetition': k + 1})


# ---- an explicitly given quadrature rule is THE rule of the basis, whatever intorder says

def _oracle_given_quadrature(ctx, meshes, tr):
    """Basis(mesh, elem, quadrature=(X, W), intorder=n): basis.X / basis.W are the given arrays and the integrals are those
    of the given rule (exact up to the degree of that rule), for n below and above the rule's degree"""
    from skfem.assembly import Basis, FacetBasis
    from skfem.quadrature import get_quadrature
    seen = set()
    for kind, general, m in meshes:
        if kind in seen or general:
            continue
        seen.add(kind)
        d = m.p.shape[0]
        elem = default_elem(m)
        krule = {'line': 5, 'tri': 4, 'tet': 3, 'quad': 3, 'hex': 3, 'wedge': 3}[kind]
        Xq, Wq = get_quadrature(elem.refdom, krule)
        one = {tuple([0] * d): Fraction(1)}
        measure = float(sum(X.cell_integrals(m, one)))
        for n in (1, krule + 2, None):
            Xg, Wg = np.array(Xq, copy=True), np.array(Wq, copy=True)
            b = Basis(m, elem, quadrature=(Xg, Wg), intorder=n) if n is not None else Basis(m, elem, quadrature=(Xg, Wg))
            ctx.count(('given-quadrature', kind, n), nontrivial=n is not None)
            if not (np.array_equal(np.asarray(b.X), Xq) and np.array_equal(np.asarray(b.W), Wq)):
                ctx.fail(f'given-quadrature:{kind}:points', f'Basis(.., quadrature=(X, W), intorder={n}) on a {kind} mesh does not use the given rule: '
                         f'basis.W has {np.asarray(b.W).shape[0]} weights, the given rule {Wq.shape[0]}',
                         {**mesh_data(m), 'rule_order': krule, 'intorder': n, 'given_W': Wq.tolist(), 'basis_W': np.asarray(b.W).tolist()})
            for e in [e for e in monos(d, krule) if sum(e) == krule][:3]:
                pl = X.monomial(e)
                want = float(sum(X.cell_integrals(m, pl)))
                got = float(functional_of(pl).assemble(b))
                tr.cmp(f'given-quadrature:{kind}', f'Functional(x^{list(e)}) with quadrature = the order-{krule} rule and intorder={n} on a {kind} mesh',
                       got, want, scale_of(m, pl, measure),
                       {**mesh_data(m), 'rule_order': krule, 'intorder': n, 'monomial': list(e)})
        if kind in ('tri', 'quad', 'tet'):
            kf = 4
            Xf, Wf = get_quadrature(elem.refdom.brefdom, kf)
            fs = m.boundary_facets()
            fone = max(X.facet_integral_value(m, one, fs), 1.0)
            fb = FacetBasis(m, elem, facets=fs, quadrature=(np.array(Xf, copy=True), np.array(Wf, copy=True)), intorder=1)
            if not (np.array_equal(np.asarray(fb.X), Xf) and np.array_equal(np.asarray(fb.W), Wf)):
                ctx.fail(f'given-quadrature:{kind}:facet-points', f'FacetBasis(.., quadrature=(X, W), intorder=1) on a {kind} mesh does not use the given rule',
                         {**mesh_data(m), 'rule_order': kf, 'intorder': 1})
            for e in [e for e in monos(d, kf) if sum(e) == kf][:2]:
                pl = X.monomial(e)
                tr.cmp(f'given-quadrature:{kind}:facets', f'Functional(x^{list(e)}) over the boundary with quadrature = the order-{kf} rule and intorder=1',
                       float(functional_of(pl).assemble(fb)), X.facet_integral_value(m, pl, fs), scale_of(m, pl, fone),
                       {**mesh_data(m), 'rule_order': kf, 'intorder': 1, 'monomial': list(e)})


# ---- public call forms that forward to the core integration path (coverage audit)

API_COVERAGE = {
    'CellBasis / Basis(mesh, elem, intorder, elements=array)': 'covered before',
    'Basis(elements=<callable on midpoints> | <subdomain name> | <list of names> | int)': 'covered now (api-forms: same integral as the index array, exact)',
    'FacetBasis(facets=array, intorder)': 'covered before',
    'FacetBasis(facets=<callable on facet midpoints> | <boundary name> | <list of names> | int, side=1)': 'covered now (api-forms)',
    'InteriorFacetBasis(side=0/1, facets=None | array)': 'covered now (api-forms: exact integral over interior facets)',
    'aliases Basis / InteriorBasis / BoundaryFacetBasis / ExteriorFacetBasis': 'covered now (identity of classes + one integral)',
    'CellBasis.boundary / with_elements / with_element, FacetBasis.with_element': 'covered before (derived-basis, every order)',
    'FacetBasis.trace(x, projection)': 'covered now (api-forms: integrals over the projected trace mesh, tri and quad)',
    'CompositeBasis (b1 * b2): dx / X / W forwarding': 'covered now (api-forms: Functional over the composite basis, exact)',
    'CellBasis.project / FacetBasis.project / AbstractBasis.ones / zeros / zero_w': 'covered now (api-forms: int of the projected / interpolated field, exact)',
    'Functional(...).assemble / elemental': 'covered before',
    'skfem.asm(functional | plain function, basis | [bases])': 'covered now (api-forms: list of bases sums the integrals)',
    'Basis(quadrature=(X, W), intorder=...)': 'covered before (given-quadrature)',
    'Basis(mapping=MappingAffine(mesh, tind=...)) / MappingIsoparametric(mesh, elem)': 'covered before (tind-mapping, repeated-basis)',
    'Mesh*2 (straight-sided second-order) and periodic Mesh*DG as integration domains': 'covered now (api-forms: Mesh*2.from_mesh; MeshLine1DG before)',
    'MappingAffine.detA/invA/detB/F/invF/G/detDF/detDG/normals, MappingIsoparametric.*': 'covered before (executed by every basis; T2 + correspondence)',
    'MappingAffine.DF, Mapping (abstract base)': 'out of scope: Jacobian array for H(div)/H(curl) push-forward (C10); abstract methods raise NotImplementedError',
    'CellBasis.refinterp / probes / interpolator / point_source': 'out of scope: point evaluation, not integration (C19 / C14)',
    'AbstractBasis.nodal_dofs / facet_dofs / edge_dofs / interior_dofs / get_dofs / complement_dofs / split*': 'out of scope: DOF numbering and selection (C04 / C07 / C19)',
    'AbstractBasis.plot / plot3 / draw': 'out of scope: visualisation wrappers',
    'Refdom.on_facet': 'out of scope: skeleton elements (piecewise, excluded by name in C09)',
}


def _oracle_api_forms(ctx, meshes, tr):
    import skfem
    from skfem import asm
    from skfem.assembly import Basis, CellBasis, FacetBasis, InteriorFacetBasis, Functional
    import skfem.assembly as ASM
    ctx.extra['api_coverage'] = API_COVERAGE
    for nm in ('InteriorBasis', 'BoundaryFacetBasis', 'ExteriorFacetBasis'):
        cls = getattr(ASM, nm, None)
        want = CellBasis if nm == 'InteriorBasis' else FacetBasis
        if cls is not None and cls is not want:
            ctx.fail(f'api-forms:alias:{nm}', f'skfem.assembly.{nm} is not {want.__name__}', {'alias': nm})
    if Basis is not CellBasis:
        ctx.fail('api-forms:alias:Basis', 'skfem.assembly.Basis is not CellBasis', {})
    seen = set()
    for kind, general, m in meshes:
        if (kind, general) in seen:
            continue
        seen.add((kind, general))
        d = m.p.shape[0]
        elem = default_elem(m)
        n = 3
        deg = 2 if (kind == 'quad' and general) else 3
        e = tuple([deg] + [0] * (d - 1))
        pl = X.monomial(e)
        one = {tuple([0] * d): Fraction(1)}
        F = functional_of(pl)
        nt_ = m.t.shape[1]
        measure = float(sum(X.cell_integrals(m, one)))
        sc = scale_of(m, pl, measure)
        data = {**mesh_data(m), 'intorder': n, 'monomial': list(e)}

        def chk(form, got, want, scale=sc, extra=None):
            ctx.count(('api', kind, general, form), nontrivial=True)
            tr.cmp(f'api-forms:{kind}:{form}', f'Functional(x^{list(e)}) via {form} on a {kind} mesh', got, want, scale, {**data, 'form': form, **(extra or {})})
        # ---- elements= forms
        mid = np.asarray(m.p)[:, np.asarray(m.t)].mean(axis=1)
        thr = float(np.median(mid[0]))
        cells = [int(c) for c in np.nonzero(mid[0] <= thr)[0]]
        want = float(sum(X.cell_integrals(m, pl, cells)))
        chk('elements=callable', float(F.assemble(Basis(m, elem, intorder=n, elements=lambda x: x[0] <= thr))), want, extra={'elements': cells})
        other_cells = [c for c in range(nt_) if c not in cells]
        mnamed = m.with_subdomains({'a': np.array(cells), 'b': np.array(other_cells, dtype=np.int64)}) if other_cells else m.with_subdomains({'a': np.array(cells)})
        chk('elements=name', float(F.assemble(Basis(mnamed, elem, intorder=n, elements='a'))), want, extra={'elements': cells})
        if other_cells:
            chk('elements=[names]', float(F.assemble(Basis(mnamed, elem, intorder=n, elements=['a', 'b']))), float(sum(X.cell_integrals(m, pl))))
        chk('elements=int', float(F.assemble(Basis(m, elem, intorder=n, elements=int(cells[0])))), float(sum(X.cell_integrals(m, pl, [cells[0]]))),
            extra={'elements': [cells[0]]})
        # ---- asm wrappers: list of bases sums the integrals; a plain function is wrapped as a Functional
        b_a = Basis(m, elem, intorder=n, elements=np.array(cells))
        full = float(sum(X.cell_integrals(m, pl)))
        if other_cells:
            b_b = Basis(m, elem, intorder=n, elements=np.array(other_cells))
            chk('asm(F,[basis_a,basis_b])', float(asm(F, [b_a, b_b])), full)
        ball = Basis(m, elem, intorder=n)
        chk('asm(F,basis)', float(asm(F, ball)), full)
        chk('asm(plain function,basis)', float(asm(lambda w: 1.0 + 0.0 * w.x[0], ball)), measure, scale=measure)
        chk('@Functional decorator', float(Functional(lambda w: 1.0 + 0.0 * w.x[0]).assemble(ball)), measure, scale=measure)
        # ---- ones / zeros / project / composite
        chk('basis.ones()', float(Functional(lambda w: w['u']).assemble(ball, u=ball.ones())), measure, scale=measure)
        chk('basis.zeros()', float(Functional(lambda w: w['u'] + 1.0).assemble(ball, u=ball.zeros())), measure, scale=measure)
        if kind != 'wedge':
            lin = X.padd({tuple([0] * d): Fraction(1)}, X.monomial([1] + [0] * (d - 1)))
            u = ball.project(lambda x: 1.0 + x[0])
            chk('basis.project(1+x0)', float(Functional(lambda w: w['u'] ** 2).assemble(ball, u=u)),
                float(sum(X.cell_integrals(m, X.pmul(lin, lin)))), scale=scale_of(m, X.pmul(lin, lin), measure))
        chk('basis.zero_w()', float(Functional(lambda w: w['u'] + 1.0).assemble(ball, u=ball.zero_w())), measure, scale=measure)
        comp = ball * ball
        chk('CompositeBasis(b*b)', float(F.assemble(comp)), full)
        if not (np.array_equal(np.asarray(comp.X), np.asarray(ball.X)) and np.array_equal(np.asarray(comp.W), np.asarray(ball.W))
                and comp.nelems == ball.nelems):
            ctx.fail(f'api-forms:{kind}:CompositeBasis.X/W', 'CompositeBasis does not forward the quadrature rule / cell count of its parts', data)
        # ---- straight-sided second-order mesh classes as integration domain
        cls2 = {'tri': 'MeshTri2', 'quad': 'MeshQuad2', 'tet': 'MeshTet2', 'hex': 'MeshHex2'}.get(kind)
        if cls2 and hasattr(skfem, cls2):
            m2 = getattr(skfem, cls2).from_mesh(m)
            chk(f'{cls2}.from_mesh', float(F.assemble(Basis(m2, elem, intorder=n + (1 if kind in ('quad', 'hex') else 0)))), full)
        # ---- facets
        if kind in ('wedge', 'line') or (kind == 'quad' and general):
            continue
        f2t = np.asarray(m.f2t)
        interior = np.nonzero(f2t[1] != -1)[0]
        bnd = m.boundary_facets()
        fone = max(X.facet_integral_value(m, one, range(m.facets.shape[1])), 1.0)
        fsc = scale_of(m, pl, fone)
        if len(interior):
            want_i = X.facet_integral_value(m, pl, interior)
            for side in (0, 1):
                chk(f'InteriorFacetBasis(side={side})', float(F.assemble(InteriorFacetBasis(m, elem, side=side, intorder=n))), want_i, scale=fsc)
                chk(f'FacetBasis(facets=interior,side={side})', float(F.assemble(FacetBasis(m, elem, facets=interior, side=side, intorder=n))), want_i, scale=fsc)
            some = interior[:max(1, len(interior) // 2)]
            chk('InteriorFacetBasis(facets=subset,side=1)', float(F.assemble(InteriorFacetBasis(m, elem, facets=some, side=1, intorder=n))),
                X.facet_integral_value(m, pl, some), scale=fsc, extra={'facets': some.tolist()})
        fmid = np.asarray(m.p)[:, np.asarray(m.facets)].mean(axis=1)
        fthr = float(np.median(fmid[0][bnd]))
        fsel = [int(f) for f in bnd if fmid[0][f] <= fthr]
        want_f = X.facet_integral_value(m, pl, fsel)
        mb = m.with_boundaries({'left': lambda x: x[0] <= fthr})
        chk('facets=boundary name', float(F.assemble(FacetBasis(mb, elem, facets='left', intorder=n))), want_f, scale=fsc, extra={'facets': fsel})
        allsel = [int(f) for f in range(m.facets.shape[1]) if fmid[0][f] <= fthr]
        chk('facets=callable', float(F.assemble(FacetBasis(m, elem, facets=lambda x: x[0] <= fthr, intorder=n))),
            X.facet_integral_value(m, pl, allsel), scale=fsc, extra={'facets': allsel})
        if kind in ('tri', 'tet'):
            lin = X.padd({tuple([0] * d): Fraction(1)}, X.monomial([1] + [0] * (d - 1)))
            fbb = FacetBasis(m, elem, facets=bnd, intorder=n)
            ub = fbb.project(lambda x: 1.0 + x[0])
            chk('FacetBasis.project(1+x0)', float(Functional(lambda w: w['u'] ** 2).assemble(fbb, u=ub)),
                X.facet_integral_value(m, X.pmul(lin, lin), bnd), scale=scale_of(m, X.pmul(lin, lin), fone))
        chk('facets=int', float(F.assemble(FacetBasis(m, elem, facets=int(bnd[0]), intorder=n))), X.facet_integral_value(m, pl, [int(bnd[0])]),
            scale=fsc, extra={'facets': [int(bnd[0])]})
        # ---- trace onto the projected boundary mesh (2-D only: the projected cells are intervals of the x-axis)
        if kind in ('tri', 'quad'):
            P = np.asarray(m.p)
            tsel = [int(f) for f in bnd if P[0, m.facets[0, f]] != P[0, m.facets[1, f]]]
            fb = FacetBasis(m, elem, facets=np.array(tsel), intorder=n)
            tb, _ = fb.trace(ball.zeros(), lambda p: p[0:1])
            ends = [(Fraction(float(P[0, m.facets[0, f]])), Fraction(float(P[0, m.facets[1, f]]))) for f in tsel]
            want_len = float(sum(abs(b - a) for a, b in ends))
            want_x2 = float(sum(abs(b ** 3 - a ** 3) for a, b in ends) / 3)
            chk('FacetBasis.trace:length', float(Functional(lambda w: 1.0 + 0.0 * w.x[0]).assemble(tb)), want_len, scale=max(want_len, 1.0), extra={'facets': tsel})
            chk('FacetBasis.trace:x^2', float(Functional(lambda w: w.x[0] ** 2).assemble(tb)), want_x2,
                scale=max(want_len, 1.0) * (float(np.abs(P[0]).max()) + 1.0) ** 2, extra={'facets': tsel})


# ---- bases obtained through the convenience constructors, every order

def _same_rule(b1, b2):
    return (np.asarray(b1.X).shape == np.asarray(b2.X).shape and np.array_equal(np.asarray(b1.X), np.asarray(b2.X))
            and np.array_equal(np.asarray(b1.W), np.asarray(b2.W)))


def _oracle_derived_bases(ctx, tr):
    """basis.boundary(intorder=k), basis.boundary(facets, intorder=k), basis.with_elements(cells), basis.with_element(elem)
    (and the FacetBasis counterparts where they exist): same quadrature rule as the directly constructed basis of that order
    (X / W identical) and exact integrals of monomials up to that order, for every order the tables offer"""
    import skfem
    from skfem.assembly import Basis, FacetBasis
    rng = ctx.rng
    q = ctx.quick()
    fcaps = {'tri': 12 if q else 30, 'quad': 12 if q else 30, 'tet': 40, 'hex': 7 if q else 12}
    ccaps = {'line': 12 if q else 30, 'tri': 40, 'tet': 40, 'quad': 9 if q else 16, 'hex': 5 if q else 8, 'wedge': 40}
    other = {'line': skfem.ElementLineP2, 'tri': skfem.ElementTriP2, 'tet': skfem.ElementTetP2, 'quad': skfem.ElementQuad2,
             'hex': skfem.ElementHex2, 'wedge': skfem.ElementWedge1}
    for kind in ('line', 'tri', 'tet', 'quad', 'hex', 'wedge'):
        m = _small_mesh(kind, rng)
        d = m.p.shape[0]
        elem = default_elem(m)
        one = {tuple([0] * d): Fraction(1)}
        measure = float(sum(X.cell_integrals(m, one)))
        nt_ = m.t.shape[1]
        cells = sorted(rng.sample(range(nt_), max(1, nt_ // 2)))
        sub_measure = float(sum(X.cell_integrals(m, one, cells)))
        # cell bases: with_elements / with_element keep the rule of the basis they are derived from
        for n in _offered_orders(elem.refdom, ccaps[kind]):
            b = Basis(m, elem, intorder=n)
            derived = [('with_elements', b.with_elements(np.array(cells)), cells, sub_measure),
                       ('with_element', b.with_element(other[kind]()), None, measure)]
            for name, bd, cs, meas in derived:
                ctx.count(('derived-cells', kind, name, n), nontrivial=True)
                if not _same_rule(bd, b):
                    ctx.fail(f'derived-basis:{kind}:{name}:rule', f'Basis(.., intorder={n}).{name}(..) on a {kind} mesh does not keep the quadrature rule '
                             f'({np.asarray(bd.W).shape[0]} points instead of {np.asarray(b.W).shape[0]})',
                             {**mesh_data(m), 'intorder': n, 'constructor': name})
                e = [e for e in monos(d, n) if sum(e) == n][0]
                pl = X.monomial(e)
                tr.cmp(f'derived-basis:{kind}:{name}', f'Functional(x^{list(e)}) with Basis(.., intorder={n}).{name}(..) on a {kind} mesh',
                       float(functional_of(pl).assemble(bd)), float(sum(X.cell_integrals(m, pl, cs))), _tight_scale(m, e, measure),
                       {**mesh_data(m), 'intorder': n, 'monomial': list(e), 'constructor': name, 'elements': cs})
        if kind not in fcaps:
            continue
        cb = Basis(m, elem)
        bnd = m.boundary_facets()
        nf = m.facets.shape[1]
        some = np.array(sorted(rng.sample(range(nf), max(1, nf // 3))))
        for n in _offered_orders(elem.refdom.brefdom, fcaps[kind]):
            for name, fs, fb in (('boundary(intorder)', bnd, cb.boundary(intorder=n)),
                                 ('boundary(facets,intorder)', some, cb.boundary(some, intorder=n))):
                direct = FacetBasis(m, elem, facets=fs, intorder=n)
                ctx.count(('derived-facets', kind, name, n), nontrivial=True)
                if not _same_rule(fb, direct):
                    ctx.fail(f'derived-basis:{kind}:{name}:rule', f'Basis(..).{name} with intorder={n} on a {kind} mesh does not use the rule of '
                             f'FacetBasis(.., intorder={n}) ({np.asarray(fb.W).shape[0]} points instead of {np.asarray(direct.W).shape[0]})',
                             {**mesh_data(m), 'intorder': n, 'constructor': name, 'facets': np.asarray(fs).tolist()})
                fone = max(X.facet_integral_value(m, one, fs), 1.0)
                for e in [e for e in monos(d, n) if sum(e) == n][:2]:
                    pl = X.monomial(e)
                    tr.cmp(f'derived-basis:{kind}:{name}', f'Functional(x^{list(e)}) with Basis(..).{name}, intorder={n}, on a {kind} mesh',
                           float(functional_of(pl).assemble(fb)), X.facet_integral_value(m, pl, fs), _tight_scale(m, e, fone),
                           {**mesh_data(m), 'intorder': n, 'monomial': list(e), 'constructor': name, 'facets': np.asarray(fs).tolist()})
            if hasattr(FacetBasis, 'with_element'):
                fb0 = FacetBasis(m, elem, facets=bnd, intorder=n)
                fbe = fb0.with_element(other[kind]())
                if not _same_rule(fbe, fb0):
                    ctx.fail(f'derived-basis:{kind}:FacetBasis.with_element:rule', f'FacetBasis(.., intorder={n}).with_element(..) on a {kind} mesh does not keep the rule',
                             {**mesh_data(m), 'intorder': n})
                e = [e for e in monos(d, n) if sum(e) == n][0]
                pl = X.monomial(e)
                fone = max(X.facet_integral_value(m, one, bnd), 1.0)
                tr.cmp(f'derived-basis:{kind}:FacetBasis.with_element', f'Functional(x^{list(e)}) with FacetBasis(.., intorder={n}).with_element(..)',
                       float(functional_of(pl).assemble(fbe)), X.facet_integral_value(m, pl, bnd), _tight_scale(m, e, fone),
                       {**mesh_data(m), 'intorder': n, 'monomial': list(e), 'facets': np.asarray(bnd).tolist()})


# ---- several different cell / facet subsets of EQUAL size, one after the other on ONE long-lived mesh object

def _oracle_subset_sequences(ctx, meshes, tr):
    from skfem.assembly import Basis, FacetBasis
    rng = ctx.rng
    for kind, general, m in meshes:
        d = m.p.shape[0]
        nt_ = m.t.shape[1]
        if nt_ < 3:
            continue
        elem = default_elem(m)
        n = 3
        deg = 2 if (kind == 'quad' and general) else 3
        polys = [X.monomial(e) for e in ([tuple([0] * d)] + [e for e in monos(d, deg) if sum(e) == deg][:2] + [e for e in monos(d, 1) if sum(e) == 1][:1])]
        one = {tuple([0] * d): Fraction(1)}
        measure = float(sum(X.cell_integrals(m, one)))
        size = max(1, nt_ // 3)
        seq = []
        while len(seq) < 4:
            sub = sorted(rng.sample(range(nt_), size))
            if sub not in seq or nt_ <= 4:
                seq.append(sub)
        for k, sub in enumerate(seq):
            b = Basis(m, elem, intorder=n, elements=np.array(sub))
            for poly in polys:
                e = next(iter(poly))
                want = float(sum(X.cell_integrals(m, poly, sub)))
                got = float(functional_of(poly).assemble(b))
                ctx.count(('subset-seq', kind, general, k, e, np.asarray(m.p).tobytes()), nontrivial=k >= 1)
                tr.cmp(f'subset-seq:{kind}{"-general" if general else ""}', f'Functional(x^{list(e)}) over cell subset no. {k + 1} of equal size '
                       f'on one {kind} mesh object', got, want, scale_of(m, poly, measure),
                       {**mesh_data(m), 'intorder': n, 'monomial': list(e), 'sequence_of_subsets': seq, 'index': k})
        if kind in ('wedge', 'line') or (kind == 'quad' and general):
            continue
        nf = m.facets.shape[1]
        fsize = max(1, nf // 4)
        fseq = [sorted(rng.sample(range(nf), fsize)) for _ in range(4)]
        for k, fs in enumerate(fseq):
            fb = FacetBasis(m, elem, facets=np.array(fs), intorder=n)
            fone = max(X.facet_integral_value(m, one, fs), 1.0)
            for poly in polys[:3]:
                e = next(iter(poly))
                want = X.facet_integral_value(m, poly, fs)
                got = float(functional_of(poly).assemble(fb))
                ctx.count(('facet-seq', kind, general, k, e, np.asarray(m.p).tobytes()), nontrivial=k >= 1)
                tr.cmp(f'facet-seq:{kind}', f'Functional(x^{list(e)}) over facet subset no. {k + 1} of equal size on one {kind} mesh object',
                       got, want, scale_of(m, poly, fone),
                       {**mesh_data(m), 'intorder': n, 'monomial': list(e), 'sequence_of_facet_subsets': fseq, 'index': k})


def _oracle_facets(ctx, meshes, tr):
    from skfem.assembly import FacetBasis
    rng = ctx.rng
    for kind, general, m in meshes:
        if kind == 'wedge' or (kind == 'quad' and general):
            continue     # prism facets are of two types; general quads are covered by cells
        d = m.p.shape[0]
        elem = default_elem(m)
        nf = m.facets.shape[1]
        bnd = m.boundary_facets()
        some = np.array(sorted(rng.sample(range(nf), max(1, nf // 3))))
        orders = _orders(ctx, kind) if kind != 'line' else [1, 3]
        for n in orders:
            for name, fs in (('boundary', bnd), ('subset', some)):
                fb = FacetBasis(m, elem, facets=fs, intorder=n)
                ms = monos(d, n)
                if ctx.quick() and len(ms) > 8:
                    ms = [ms[0]] + [e for e in ms if sum(e) == n][:4] + rng.sample(ms, 3)
                one = X.facet_integral_value(m, {tuple([0] * d): Fraction(1)}, fs)
                for e in ms:
                    poly = X.monomial(e)
                    want = X.facet_integral_value(m, poly, fs)
                    got = float(functional_of(poly).assemble(fb))
                    sc = scale_of(m, poly, max(one, 1.0))
                    ctx.count(('facets', kind, general, n, name, e, np.asarray(m.p).tobytes()), nontrivial=sum(e) >= 1 and len(fs) >= 2)
                    tr.cmp(f'facets:{kind}:{name}:order={n}', f'Functional(x^{list(e)}) over {name} facets of a {kind} mesh, intorder {n}',
                           got, want, sc, {**mesh_data(m), 'facets': np.asarray(fs).tolist(), 'intorder': n, 'monomial': list(e)})


# ---- invariance: renumbering, cell order, rigid motion, refinement

def _signed_perm(rng, d):
    perm = list(range(d))
    rng.shuffle(perm)
    Q = np.zeros((d, d))
    for i, j in enumerate(perm):
        Q[i, j] = rng.choice([-1, 1])
    return Q


def _oracle_invariance(ctx, meshes, tr):
    from skfem.assembly import Basis
    rng = ctx.rng
    for kind, general, m in meshes:
        d = m.p.shape[0]
        elem = default_elem(m)
        n = {'line': 5, 'tri': 4, 'tet': 3, 'quad': 4, 'hex': 3, 'wedge': 3}[kind]
        deg = n - 1 if (kind == 'quad' and general) else n
        es = [e for e in monos(d, deg) if sum(e) == deg]
        e = rng.choice(es)
        poly = padd_const(X.monomial(e), d)
        F = functional_of(poly)
        measure = float(sum(X.cell_integrals(m, {tuple([0] * d): Fraction(1)})))
        exact = float(sum(X.cell_integrals(m, poly)))
        sc = scale_of(m, poly, measure)
        base = float(F.assemble(Basis(m, elem, intorder=n)))
        data = {**mesh_data(m), 'intorder': n, 'polynomial': {str(k): str(v) for k, v in poly.items()}}
        tr.cmp(f'invariance-base:{kind}', 'base value', base, exact, sc, data)
        P, T_ = np.asarray(m.p), np.asarray(m.t)
        npts, ncell = P.shape[1], T_.shape[1]
        # (1) vertex renumbering
        perm = list(range(npts))
        rng.shuffle(perm)            # new index of old vertex k is perm[k]
        inv = np.argsort(perm)
        m1 = type(m)(P[:, inv], np.asarray(perm)[T_])
        # (2) cell order
        cp = list(range(ncell))
        rng.shuffle(cp)
        m2 = type(m)(P, T_[:, cp])
        variants = [('vertex-renumbering', m1), ('cell-permutation', m2)]
        # (3) local vertex order of simplices (changes orientation): any permutation of the rows of t
        if kind in ('line', 'tri', 'tet'):
            rows = list(range(T_.shape[0]))
            rng.shuffle(rows)
            kw = {'sort_t': False} if kind == 'tri' else {}
            variants.append(('local-vertex-order', type(m)(P, T_[rows], **kw)))
        # (4) refinement
        if kind != 'wedge':
            variants.append(('refined', m.refined()))
        for name, mv in variants:
            got = float(F.assemble(Basis(mv, default_elem(mv), intorder=n)))
            ctx.count(('invariance', kind, general, name, e, P.tobytes()), nontrivial=True)
            tr.cmp(f'invariance:{kind}:{name}', f'Functional over a {kind} mesh after {name}', got, exact, sc,
                   {**data, 'variant': name, 'variant_p': np.asarray(mv.p).tolist(), 'variant_t': np.asarray(mv.t).tolist()})
        # (5) integer rigid motion x -> Q x + c, integrand transported: f o T^-1 on T(mesh)
        if d >= 1:
            Q = _signed_perm(rng, d)
            c = np.array([rng.randint(-3, 3) for _ in range(d)], dtype=float)
            mv = type(m)(Q @ P + c[:, None], T_)
            # f(T^-1 y) = f(Q^T (y - c))
            Qi = Q.T
            origin = [Fraction(int(v)) for v in (-Qi @ c)]
            cols = [[Fraction(int(Qi[i, j])) for i in range(d)] for j in range(d)]
            g = X.compose_affine(poly, origin, cols)
            got = float(functional_of(g).assemble(Basis(mv, elem, intorder=n)))
            ctx.count(('invariance', kind, general, 'rigid', e, P.tobytes()), nontrivial=True)
            tr.cmp(f'invariance:{kind}:rigid-motion', f'Functional of the transported integrand over the rigidly moved {kind} mesh', got, exact,
                   scale_of(mv, g, measure), {**data, 'Q': Q.tolist(), 'c': c.tolist()})


def padd_const(poly, d):
    return X.padd(poly, {tuple([0] * d): Fraction(1)})


# ---- assembled matrices vs |det| * exact reference literal (the literals are proved exact in Coq)

def _oracle_reference_matrices(ctx, relems, tr):
    """BilinearForm mass on integer-affine meshes == scatter of |det A_e| * M_ref (rational literal), for every generated
    element; stiffness of P1/P2/Q1/Q2 on integer-scaled, signed-permuted copies of the reference cell == |det| h^-2 K_ref"""
    import skfem
    from skfem.assembly import Basis, BilinearForm
    from skfem.helpers import dot, grad
    rng = ctx.rng
    kind_of = {'RefLine': 'line', 'RefTri': 'tri', 'RefTet': 'tet', 'RefQuad': 'quad', 'RefHex': 'hex', 'RefWedge': 'wedge'}
    meshcls = {'line': skfem.MeshLine, 'tri': skfem.MeshTri, 'tet': skfem.MeshTet, 'quad': skfem.MeshQuad, 'hex': skfem.MeshHex,
               'wedge': skfem.MeshWedge1}
    cache = {}
    for e in relems:
        kind = kind_of[e.elem.refdom.__name__]
        d = e.dim
        if kind not in cache:
            for _try in range(100):
                m = X.make_mesh(kind, rng, general=(kind in ('tri', 'tet')), size=2)
                if X.is_valid(m) and float(np.abs(m.p).max()) <= 30:
                    break
            cache[kind] = m
        m = cache[kind]
        one = {tuple([0] * d): Fraction(1)}
        vol = X.cell_integrals(m, one)
        refvol = EL.mono_int(e.shape, [0] * d)
        basis = Basis(m, e.elem)
        A = BilinearForm(lambda u, v, w: u * v).assemble(basis).toarray()
        want = [[Fraction(0)] * basis.N for _ in range(basis.N)]
        ed = np.asarray(basis.element_dofs)
        for c in range(m.t.shape[1]):
            absdet = vol[c] / refvol
            for i in range(ed.shape[0]):
                for j in range(ed.shape[0]):
                    want[int(ed[i, c])][int(ed[j, c])] += absdet * e.mass[i][j]
        worst = max(abs(float(A[i, j]) - float(want[i][j])) for i in range(basis.N) for j in range(basis.N))
        ctx.count(('refmass', e.name, np.asarray(m.p).tobytes()), nontrivial=True)
        tr.cmp(f'refmass:{e.name}', f'mass matrix of {e.name} on an integer-affine {kind} mesh vs |det A| * exact reference literal (max abs entry error)',
               worst, 0.0, float(sum(vol)), {**mesh_data(m), 'element': e.name})
        if e.tensor is not None:
            _ref_tensor_load_facets(ctx, e, kind, m, tr, meshcls)
        if e.stiff is None:
            continue
        m0 = meshcls[kind].init_refdom()
        h = rng.randint(1, 4)
        Q = _signed_perm(rng, d)
        c0 = np.array([rng.randint(-3, 3) for _ in range(d)], dtype=float)
        kw = {'sort_t': False} if kind == 'tri' else {}
        m1 = meshcls[kind](h * (Q @ np.asarray(m0.p)) + c0[:, None], np.asarray(m0.t), **kw)
        b1 = Basis(m1, e.elem)
        S = BilinearForm(lambda u, v, w: dot(grad(u), grad(v))).assemble(b1).toarray()
        ed = np.asarray(b1.element_dofs)
        fac = Fraction(h) ** d / Fraction(h) ** 2
        worst = 0.0
        for i in range(ed.shape[0]):
            for j in range(ed.shape[0]):
                worst = max(worst, abs(float(S[int(ed[i, 0]), int(ed[j, 0])]) - float(fac * e.stiff[i][j])))
        ctx.count(('refstiff', e.name, h, Q.tobytes()), nontrivial=True)
        tr.cmp(f'refstiff:{e.name}', f'stiffness matrix of {e.name} on h*Q*(reference cell)+c vs h^(d-2) * exact reference literal (max abs entry error)',
               worst, 0.0, float(fac) * max(1.0, max(abs(float(x)) for r in e.stiff for x in r)),
               {'element': e.name, 'h': h, 'Q': Q.tolist(), 'c': c0.tolist()})


def _ref_tensor_load_facets(ctx, e, kind, m, tr, meshcls):
    """(a) stiffness on GENERAL integer-affine simplices vs |det A| * sum_kl (A^-1 A^-T)_kl * tensor literal;
    (b) load vectors for monomial data on the reference cell vs the literals; (c) mass matrix of single facets vs
    detB * facet literal of the local facet slot"""
    from skfem.assembly import Basis, FacetBasis, BilinearForm, LinearForm
    from skfem.helpers import dot, grad
    d = e.dim
    basis = Basis(m, e.elem)
    ed = np.asarray(basis.element_dofs)
    S = BilinearForm(lambda u, v, w: dot(grad(u), grad(v))).assemble(basis).toarray()
    want = [[Fraction(0)] * basis.N for _ in range(basis.N)]
    scale = 0.0
    for c in range(m.t.shape[1]):
        V = X.verts_of(m, m.t[:, c])
        A = [[V[k + 1][i] - V[0][i] for k in range(d)] for i in range(d)]          # A[i][k] = d x_i / d xi_k
        det = X.det(A)
        B = X.solve(A, [[Fraction(int(i == j)) for j in range(d)] for i in range(d)])   # B[k][m] = d xi_k / d x_m
        G = [[sum(B[k][mm] * B[l][mm] for mm in range(d)) for l in range(d)] for k in range(d)]
        for i in range(ed.shape[0]):
            for j in range(ed.shape[0]):
                v = abs(det) * sum(G[k][l] * e.tensor[k][l][i][j] for k in range(d) for l in range(d))
                want[int(ed[i, c])][int(ed[j, c])] += v
                scale = max(scale, abs(float(v)))
    worst = max(abs(float(S[i, j]) - float(want[i][j])) for i in range(basis.N) for j in range(basis.N))
    ctx.count(('reftensor', e.name, np.asarray(m.p).tobytes()), nontrivial=True)
    tr.cmp(f'reftensor:{e.name}', f'stiffness matrix of {e.name} on a general integer-affine {kind} mesh vs |det A| * sum_kl (A^-1 A^-T)_kl * exact '
           f'reference tensor literal (max abs entry error)', worst, 0.0, max(scale, 1e-300) * 10, {**mesh_data(m), 'element': e.name})
    # (b) loads on the reference cell
    m0 = meshcls[kind].init_refdom()
    b0 = Basis(m0, e.elem, intorder=EL.LOADK + e.maxdeg)
    ed0 = np.asarray(b0.element_dofs)
    for mono, lit in zip(e.loadmonos, e.loads):
        def form(v, w, mono=mono):
            f = 1.0 + 0.0 * w.x[0]
            for i, ei in enumerate(mono):
                if ei:
                    f = f * w.x[i] ** ei
            return f * v
        vec = LinearForm(form).assemble(b0)
        worst = max(abs(float(vec[int(ed0[i, 0])]) - float(lit[i])) for i in range(ed0.shape[0]))
        ctx.count(('refload', e.name, mono), nontrivial=sum(mono) > 0)
        tr.cmp(f'refload:{e.name}', f'load vector of {e.name} for the data x^{list(mono)} on the reference {kind} vs the exact literal (max abs entry error)',
               worst, 0.0, 1.0, {'element': e.name, 'monomial': list(mono), 'intorder': EL.LOADK + e.maxdeg})
    # (c) single-facet mass matrices
    if e.facets is None:
        return
    t2f, f2t = np.asarray(m.t2f), np.asarray(m.f2t)
    bnd = set(int(x) for x in m.boundary_facets())
    fs = sorted(bnd)[:3] + [f for f in range(m.facets.shape[1]) if f not in bnd][:2]
    for f in fs:
        c = int(f2t[0, f])
        slot = int(np.nonzero(t2f[:, c] == f)[0][0])
        Vf = X.verts_of(m, m.facets[:, f])
        cols = [[x - y for x, y in zip(v, Vf[0])] for v in Vf[1:]]
        detB = float(X.gram_det(cols)) ** 0.5
        fb = FacetBasis(m, e.elem, facets=np.array([f]))
        Af = BilinearForm(lambda u, v, w: u * v).assemble(fb).toarray()
        wantf = np.zeros((basis.N, basis.N))
        for i in range(ed.shape[0]):
            for j in range(ed.shape[0]):
                wantf[int(ed[i, c]), int(ed[j, c])] += detB * float(e.facets[slot][i][j])
        worst = float(np.abs(Af - wantf).max())
        ctx.count(('reffacet', e.name, int(f), np.asarray(m.p).tobytes()), nontrivial=True)
        tr.cmp(f'reffacet:{e.name}', f'mass matrix of {e.name} on the single facet {int(f)} (local slot {slot} of cell {c}) vs detB * exact facet literal '
               f'(max abs entry error)', worst, 0.0, max(detB, 1.0), {**mesh_data(m), 'element': e.name, 'facet': int(f), 'cell': c, 'slot': slot})


# ---- exact Lagrange matrices

def _oracle_lagrange(ctx, tr):
    import skfem
    from skfem.assembly import Basis, BilinearForm, LinearForm
    from skfem.helpers import dot, grad
    rng = ctx.rng
    cfgs = [('line', 1, skfem.ElementLineP1), ('line', 2, skfem.ElementLineP2), ('tri', 1, skfem.ElementTriP1), ('tri', 2, skfem.ElementTriP2),
            ('tet', 1, skfem.ElementTetP1), ('tet', 2, skfem.ElementTetP2)]
    for kind, deg, E in cfgs:
        for rep in range(ctx.n(1, 4)):
            for _try in range(50):
                m = X.make_mesh(kind, rng, general=(rep % 2 == 0 and kind != 'line'))
                if X.is_valid(m) and float(np.abs(m.p).max()) <= 30:
                    break
            d = m.p.shape[0]
            basis = Basis(m, E())
            load_poly = X.padd({tuple([0] * d): Fraction(1)}, X.monomial([1] + [0] * (d - 1)))   # 1 + x
            M, K, L = X.exact_lagrange_matrices(m, deg, load_poly)
            A = BilinearForm(lambda u, v, w: u * v).assemble(basis).toarray()
            S = BilinearForm(lambda u, v, w: dot(grad(u), grad(v))).assemble(basis).toarray()
            b = LinearForm(lambda v, w: (1.0 + w.x[0]) * v).assemble(basis)
            locs = [tuple(Fraction(float(x)) for x in basis.doflocs[:, k]) for k in range(basis.N)]
            if len(set(locs)) != len(locs) or set(locs) != set(L):
                ctx.fail(f'lagrange-dofs:{kind}:P{deg}', 'the DOF locations are not the Lagrange nodes of the mesh',
                         {**mesh_data(m), 'element': E.__name__})
                continue
            r = float(np.abs(m.p).max()) + 1.0
            meas = float(sum(X.cell_integrals(m, {tuple([0] * d): Fraction(1)})))
            for nm, got, ex, sc in (('mass', A, M, meas), ('stiffness', S, K, meas * 4.0 * deg * deg * 16), ('load', b, L, meas * r)):
                worst = 0.0
                for i, li in enumerate(locs):
                    if nm == 'load':
                        w = abs(float(got[i]) - float(ex[li]))
                        worst = max(worst, w)
                        continue
                    for j, lj in enumerate(locs):
                        w = abs(float(got[i, j]) - float(ex.get((li, lj), 0)))
                        worst = max(worst, w)
                ctx.count(('lagrange', kind, deg, nm, np.asarray(m.p).tobytes()), nontrivial=m.t.shape[1] >= 2)
                tr.cmp(f'lagrange:{kind}:P{deg}:{nm}', f'{nm} matrix/vector of {E.__name__} vs exact rational entries (max abs entry error)',
                       worst, 0.0, sc, {**mesh_data(m), 'element': E.__name__, 'what': nm})


# ---- partition of unity: mass entries sum to the measure

def _oracle_partition_of_unity(ctx, meshes, tr):
    import skfem
    from skfem.assembly import Basis, BilinearForm
    fam = {'line': ['ElementLineP0', 'ElementLineP1', 'ElementLineP2'],
           'tri': ['ElementTriP0', 'ElementTriP1', 'ElementTriP2', 'ElementTriP3', 'ElementTriP4'],
           'tet': ['ElementTetP0', 'ElementTetP1', 'ElementTetP2'],
           'quad': ['ElementQuad0', 'ElementQuad1', 'ElementQuad2', 'ElementQuadS2'],
           'hex': ['ElementHex0', 'ElementHex1', 'ElementHex2'],
           'wedge': ['ElementWedge1']}
    for kind, general, m in meshes:
        d = m.p.shape[0]
        meas = float(sum(X.cell_integrals(m, {tuple([0] * d): Fraction(1)})))
        for nm in fam[kind]:
            name, _, arg = nm.partition(':')
            cls = getattr(skfem, name, None)
            if cls is None:
                continue
            e = cls(int(arg)) if arg else cls()
            basis = Basis(m, e)
            A = BilinearForm(lambda u, v, w: u * v).assemble(basis)
            got = float(A.sum())
            ctx.count(('pou', kind, general, nm, np.asarray(m.p).tobytes()), nontrivial=m.t.shape[1] >= 2)
            tr.cmp(f'mass-sum:{kind}:{name}', f'sum of the mass matrix entries of {nm} vs the measure of the {kind} mesh', got, meas, meas,
                   {**mesh_data(m), 'element': nm})
            ctx.hist('pou-element', nm)


def replay(ctx, data):
    """re-run one recorded failing input: rebuild the mesh from the recorded arrays and repeat the comparison"""
    import skfem
    from skfem.assembly import Basis, FacetBasis, BilinearForm
    key = data.get('key', '')
    inp = data.get('input', {})
    ctx.log('replaying', key)
    head = key.split(':')[0]
    if key.endswith(':gradient') or head not in ('cells', 'subset', 'subdomain', 'facets', 'mass-sum', 'subset-seq', 'facet-seq', 'tind-mapping') or 'p' not in inp:
        return run(ctx)
    cls = getattr(skfem, inp['mesh'])
    kw = {'sort_t': False} if 'Tri' in inp['mesh'] else {}
    m = cls(np.array(inp['p'], dtype=float), np.array(inp['t']), **kw)
    d = m.p.shape[0]
    tr = Track(ctx)
    one = {tuple([0] * d): Fraction(1)}
    meas = float(sum(X.cell_integrals(m, one)))
    if head == 'mass-sum':
        name, _, arg = inp['element'].partition(':')
        e = getattr(skfem, name)(int(arg)) if arg else getattr(skfem, name)()
        got = float(BilinearForm(lambda u, v, w: u * v).assemble(Basis(m, e)).sum())
        tr.cmp(key, 'sum of the mass matrix entries vs the measure', got, meas, meas, inp)
        return
    poly = X.monomial(inp['monomial'])
    F = functional_of(poly)
    n = inp['intorder']
    if head in ('subset-seq', 'facet-seq'):
        # the whole sequence on one mesh object, compare the recorded member
        seq = inp['sequence_of_subsets' if head == 'subset-seq' else 'sequence_of_facet_subsets']
        for k, sub in enumerate(seq[:inp['index'] + 1]):
            b = (Basis(m, default_elem(m), intorder=n, elements=np.array(sub)) if head == 'subset-seq'
                 else FacetBasis(m, default_elem(m), facets=np.array(sub), intorder=n))
            got = float(F.assemble(b))
        sub = seq[inp['index']]
        if head == 'subset-seq':
            want, sc = float(sum(X.cell_integrals(m, poly, sub))), scale_of(m, poly, meas)
        else:
            want, sc = X.facet_integral_value(m, poly, sub), scale_of(m, poly, max(X.facet_integral_value(m, one, sub), 1.0))
        if tr.cmp(key, 'replayed integral (last of the sequence)', got, want, sc, inp):
            ctx.log(f'replay: got {got!r}, exact {want!r}: within tolerance, the recorded failure is gone')
        return
    if head == 'facets':
        fs = np.array(inp['facets'])
        got = float(F.assemble(FacetBasis(m, default_elem(m), facets=fs, intorder=n)))
        want = X.facet_integral_value(m, poly, fs)
        sc = scale_of(m, poly, max(X.facet_integral_value(m, one, fs), 1.0))
    else:
        cells = inp.get('elements')
        kwm = {}
        if inp.get('tind_mapping'):
            from skfem.mapping import MappingAffine
            kwm = {'mapping': MappingAffine(m, tind=np.array(cells))}
        b = Basis(m, default_elem(m), intorder=n, elements=None if cells is None else np.array(cells), **kwm)
        got = float(F.assemble(b))
        want = float(sum(X.cell_integrals(m, poly, cells)))
        sc = scale_of(m, poly, meas)
    if tr.cmp(key, 'replayed integral', got, want, sc, inp):
        ctx.log(f'replay: got {got!r}, exact {want!r}: within tolerance, the recorded failure is gone')
