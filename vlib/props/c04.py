"""C04 — DOF numbering: gap-free, shared exactly along shared entities.

tie T2 : Gen/C04Gen.v — Dofs.__init__ (dofs.py) is re-read on every run by a fail-closed statement-by-statement
         ast translator (the four reshape(arange(k*n),(k,n),order='F')+offset blocks, the offset updates, the guards,
         the vstack/gather loops in the order of the source, N = max+1) and Element._bfun_counts (element.py);
         dyn/C04Tie.v proves the generated function EQUAL to the hand model Model.C04_Dofs.dofs_init.
tie T3 : the model is evaluated by vm_compute on the topology tables of real meshes x real elements and on stub
         topologies with random counts and must reproduce nodal/edge/facet/interior/element_dofs and N exactly.
proof  : props/C04.v — for every topology whose tables are onto their entity ranges and every count vector.
oracle : iff-sharing statement, N = max+1, doflocs of shared DOFs, sparsity of assembled matrices on real bases.
"""
import ast

import numpy as np

from .. import t2
from .. import c11_meshes as M
from ..core import TranslateError, clist, cnat, cnats, np_seed

SRC = 'skfem/assembly/dofs.py'

DIM_SPELLINGS = {'element.dim': lambda e: int(e.dim), 'element.refdom.dim()': lambda e: int(e.refdom.dim())}
DIM_OF = {'f': None}      # set by translate(): how the source spells the spatial dimension in its guards
ENV = {'element.nodal_dofs': 'nd', 'element.edge_dofs': 'ed', 'element.facet_dofs': 'fd',
       'element.interior_dofs': 'id', 'topo.nvertices': 'nv', 'topo.nedges': 'ne',
       'topo.nfacets': 'nf', 'topo.nelements': 'nt'}
TABLES = {'topo.t': 't', 'topo.t2e': 't2e', 'topo.t2f': 't2f'}
BLOCKS = ['self.nodal_dofs', 'self.edge_dofs', 'self.facet_dofs', 'self.interior_dofs']


# ------------------------------------------------------------------------------ T2 translator

class _Tr:
    def __init__(self):
        self.lets = []
        self.state = {'offset': 'off'}
        self.counter = 0
        self.N = None
        self.dim_exprs = set()

    def fresh(self, base):
        self.counter += 1
        return f'{base}{self.counter}'

    def ex(self, state):
        env = dict(ENV)
        env['offset'] = state['offset']
        return t2.Expr(env, 'nat')

    def cond(self, n):
        """boolean guard -> Coq bool"""
        if isinstance(n, ast.BoolOp) and isinstance(n.op, ast.And):
            return '(' + ' && '.join(self.cond(v) for v in n.values) + ')'
        if isinstance(n, ast.Compare) and len(n.ops) == 1 and isinstance(n.comparators[0], ast.Constant):
            if t2.src(n.left) in DIM_SPELLINGS:          # the spatial dimension the guards test
                self.dim_exprs.add(t2.src(n.left))
                a = 'dim'
            else:
                a = t2.Expr(ENV, 'nat').tr(n.left)
            c = n.comparators[0].value
            if isinstance(c, bool) or not isinstance(c, int) or c < 0:
                raise TranslateError('guard constant: ' + t2.src(n))
            op = type(n.ops[0])
            if op is ast.Eq:
                return f'({a} =? {c})'
            if op is ast.Gt:
                return f'({c} <? {a})'
            if op is ast.GtE:
                return f'({c} <=? {a})'
        raise TranslateError('guard: ' + t2.src(n))

    def value(self, target, v, state):
        """right-hand side of an assignment to `target` -> Coq term"""
        s = t2.src(v)
        if target in BLOCKS:
            if s == 'np.empty((0, 0), dtype=np.int32)':
                return '[]'
            # np.reshape(np.arange(A * B, dtype=np.int32), (A, B), order='F') + offset
            if not (isinstance(v, ast.BinOp) and isinstance(v.op, ast.Add) and t2.src(v.right) == 'offset'):
                raise TranslateError(f'{target}: expected `<block> + offset`: {s}')
            c = v.left
            if not (isinstance(c, ast.Call) and t2.src(c.func) == 'np.reshape' and len(c.args) == 2
                    and [(k.arg, t2.src(k.value)) for k in c.keywords] == [('order', "'F'")]):
                raise TranslateError(f'{target}: expected np.reshape(..., order=\'F\'): {s}')
            ar, shp = c.args
            if not (isinstance(ar, ast.Call) and t2.src(ar.func) == 'np.arange' and len(ar.args) == 1
                    and [(k.arg, t2.src(k.value)) for k in ar.keywords] == [('dtype', 'np.int32')]):
                raise TranslateError(f'{target}: expected np.arange(<n>, dtype=np.int32): {t2.src(ar)}')
            if not (isinstance(shp, ast.Tuple) and len(shp.elts) == 2 and isinstance(ar.args[0], ast.BinOp)
                    and isinstance(ar.args[0].op, ast.Mult)
                    and t2.src(ar.args[0].left) == t2.src(shp.elts[0]) and t2.src(ar.args[0].right) == t2.src(shp.elts[1])):
                raise TranslateError(f'{target}: arange length is not the product of the shape: {s}')
            ex = self.ex(state)
            return f'(block {ex.tr(shp.elts[0])} {ex.tr(shp.elts[1])} {state["offset"]})'
        if target == 'self.element_dofs':
            if s == 'np.zeros((0, topo.nelements), dtype=np.int32)':
                return '[]'
            if s == 'np.vstack((self.element_dofs, self.interior_dofs))':
                return f'({state["self.element_dofs"]} ++ {state["self.interior_dofs"]})'
            raise TranslateError('element_dofs assignment: ' + s)
        raise TranslateError(f'assignment to {target}: {s}')

    def stmts(self, body, state, top):
        for st in body:
            if isinstance(st, ast.Expr) and isinstance(st.value, ast.Constant):
                continue
            if isinstance(st, ast.Assign) and len(st.targets) == 1:
                tg = t2.src(st.targets[0])
                if tg in ('self.topo', 'self.element'):
                    if t2.src(st.value) != tg.split('.')[1]:
                        raise TranslateError('unexpected: ' + t2.src(st))
                    continue
                if tg == 'self.N':
                    if not top or t2.src(st.value) != 'np.max(self.element_dofs) + 1':
                        raise TranslateError('N: ' + t2.src(st))
                    self.N = f'(list_max (concat {state["self.element_dofs"]}) + 1)'
                    continue
                self.bind(tg, self.value(tg, st.value, state), state, top)
                continue
            if isinstance(st, ast.AugAssign) and isinstance(st.op, ast.Add) and t2.src(st.target) == 'offset':
                self.bind('offset', f'({state["offset"]} + {self.ex(state).tr(st.value)})', state, top)
                continue
            if isinstance(st, ast.For):
                # for itr in range(topo.T.shape[0]): self.element_dofs = np.vstack((self.element_dofs, self.X[:, topo.T[itr]]))
                if st.orelse or not isinstance(st.target, ast.Name) or len(st.body) != 1:
                    raise TranslateError('loop: ' + t2.src(st)[:100])
                it = st.target.id
                rng = t2.src(t2.is_range_of(st.iter))
                tab = rng[:-len('.shape[0]')] if rng.endswith('.shape[0]') else None
                if tab not in TABLES:
                    raise TranslateError('loop range: ' + rng)
                found = None
                for blk in BLOCKS[:3]:
                    want = f'self.element_dofs = np.vstack((self.element_dofs, {blk}[:, {tab}[{it}]]))'
                    if t2.src(st.body[0]) == want:
                        found = blk
                if found is None:
                    raise TranslateError('loop body: ' + t2.src(st.body[0]))
                self.bind('self.element_dofs', f'({state["self.element_dofs"]} ++ gather_rows {state[found]} {TABLES[tab]})',
                          state, top)
                continue
            if isinstance(st, ast.If):
                c = self.cond(st.test)
                s1, s2 = dict(state), dict(state)
                self.stmts(st.body, s1, False)
                self.stmts(st.orelse, s2, False)
                for var in sorted(set(s1) | set(s2)):
                    a, b = s1.get(var), s2.get(var)
                    if a == state.get(var) and b == state.get(var):
                        continue
                    if a is None or b is None:
                        raise TranslateError(f'{var} assigned in only one branch of `if {t2.src(st.test)}` and undefined before')
                    self.bind(var, f'(if {c} then {a} else {b})', state, top)
                continue
            raise TranslateError('unsupported statement: ' + t2.src(st)[:100])

    def bind(self, var, expr, state, top):
        if top:
            nm = self.fresh({'offset': 'off'}.get(var, var.split('.')[-1].replace('_dofs', '')))
            self.lets.append(f'  let {nm} := {expr} in')
            state[var] = nm
        else:
            state[var] = expr


def translate():
    tree = t2.parse(SRC)
    fn = t2.find_def(tree, '__init__', 'Dofs')
    args = [a.arg for a in fn.args.args]
    if args != ['self', 'topo', 'element', 'offset'] or [t2.src(d) for d in fn.args.defaults] != ['0']:
        raise TranslateError('Dofs.__init__ signature: ' + repr(args))
    tr = _Tr()
    tr.stmts(fn.body, tr.state, True)
    if tr.N is None:
        raise TranslateError('no assignment to self.N')
    if len(tr.dim_exprs) != 1:
        raise TranslateError('the guards spell the spatial dimension in several ways: ' + repr(sorted(tr.dim_exprs)))
    DIM_OF['f'] = DIM_SPELLINGS[next(iter(tr.dim_exprs))]
    for b in BLOCKS + ['self.element_dofs']:
        if b not in tr.state:
            raise TranslateError(f'{b} never assigned')
    st = tr.state
    body = '\n'.join(tr.lets)
    # AbstractBasis.__init__: the scatter loop of the DOF location table (shape check; modelled by scatter_doflocs)
    bt = t2.parse('skfem/assembly/basis/abstract_basis.py')
    init = t2.find_def(bt, '__init__', 'AbstractBasis')
    tries = [n for n in ast.walk(init) if isinstance(n, ast.Try)]
    sc_body = [t2.src(x) for x in t2.only(tries, 'doflocs try block').body]
    want = ['doflocs = self.mapping.F(elem.doflocs.T)',
            'self.doflocs = np.zeros((doflocs.shape[0], self.N))',
            'for itr in range(doflocs.shape[0]):\n    for jtr in range(self.dofs.element_dofs.shape[0]):\n'
            '        self.doflocs[itr, self.dofs.element_dofs[jtr]] = doflocs[itr, :, jtr]']
    if sc_body != want:
        raise TranslateError('AbstractBasis.__init__ doflocs scatter: ' + repr(sc_body)[:300])
    # Element._bfun_counts
    et = t2.parse('skfem/element/element.py')
    bf = t2.find_def(et, '_bfun_counts', 'Element')
    ret = t2.only([s for s in bf.body if isinstance(s, ast.Return)], '_bfun_counts return')
    c = ret.value
    if not (isinstance(c, ast.Call) and t2.src(c.func) == 'np.array' and len(c.args) == 1 and isinstance(c.args[0], ast.List)):
        raise TranslateError('_bfun_counts: ' + t2.src(ret))
    env = {'self.nodal_dofs': 'nd', 'self.edge_dofs': 'ed', 'self.facet_dofs': 'fd', 'self.interior_dofs': 'id',
           'self.refdom.nnodes': 'nnodes', 'self.refdom.nedges': 'nedges', 'self.refdom.nfacets': 'nfacets'}
    ex = t2.Expr(env, 'nat')
    counts = [ex.tr(e) for e in c.args[0].elts]
    return f'''(* GENERATED by vlib/props/c04.py from {SRC} (Dofs.__init__) and skfem/element/element.py — do not edit *)
From Coq Require Import List Arith Bool.
Import ListNotations.
Require Import Model.C04_Dofs.
Definition gen_dofs_init (dim nd ed fd id off nv ne nf nt : nat) (t t2e t2f : list (list nat)) : dofs :=
{body}
  {{| D_nodal := {st['self.nodal_dofs']}; D_edge := {st['self.edge_dofs']}; D_facet := {st['self.facet_dofs']};
     D_interior := {st['self.interior_dofs']}; D_element := {st['self.element_dofs']}; D_N := {tr.N} |}}.
Definition gen_bfun_counts (nd ed fd id nnodes nedges nfacets : nat) : list nat := {clist(counts)}.
'''


# ------------------------------------------------------------------------------ T1: DOF locations per class

def _frac(x):
    from fractions import Fraction
    fr = Fraction(float(x)).limit_denominator(10 ** 6)
    if float(fr) != float(x):
        raise TranslateError(f'coordinate {x!r} is not a small rational')
    return fr


def _solve_weights(V, x):
    """exact convex weights of x over the points V (columns), by Gauss-Jordan over Fractions; None if x is not in their span"""
    from fractions import Fraction
    m, d = len(V), len(x)
    A = [[V[j][i] for j in range(m)] + [x[i]] for i in range(d)] + [[Fraction(1)] * m + [Fraction(1)]]
    piv, r = [], 0
    for c in range(m):
        pr = next((i for i in range(r, len(A)) if A[i][c] != 0), None)
        if pr is None:
            return None
        A[r], A[pr] = A[pr], A[r]
        A[r] = [a / A[r][c] for a in A[r]]
        for i in range(len(A)):
            if i != r and A[i][c] != 0:
                A[i] = [a - A[i][c] * b for a, b in zip(A[i], A[r])]
        piv.append(c)
        r += 1
    if any(A[i][m] != 0 for i in range(r, len(A))):
        return None
    return [A[i][m] for i in range(m)]


def gen_locations():
    """Gen/C04Locs.v: per element class the reference vertices, and per local basis function (in the row order of element_dofs) the
    local vertices of the entity it is numbered on, its location (Element.doflocs) and convex weights of the location over THOSE vertices"""
    from fractions import Fraction
    from .. import c04_elems as EL
    from ..core import cq
    out, names, info = [], [], {}
    for kind, lst in EL.exported().items():
        for name, fac in lst:
            e = fac()
            cn = 'lc_' + ''.join(ch if ch.isalnum() else '_' for ch in name)
            if not hasattr(e, 'doflocs') or not np.isfinite(np.asarray(e.doflocs, dtype=float)).all():
                info[name] = 'no (finite) doflocs'
                continue
            rd = e.refdom
            d = int(rd.dim())
            P = [[_frac(rd.p[i, v]) for i in range(d)] for v in range(rd.nnodes)]
            X = np.asarray(e.doflocs, dtype=float)
            try:
                [[_frac(v) for v in row] for row in X]
            except TranslateError:
                info[name] = 'excluded: a location is not a small rational (Gauss points)'
                continue
            nd, ed, fd, idd = (int(e.nodal_dofs), int(e.edge_dofs) if d == 3 else 0, int(e.facet_dofs), int(e.interior_dofs))
            ents = [(0, i, [i], nd) for i in range(rd.nnodes)]
            ents += [(1, s, list(sl), ed) for s, sl in enumerate(rd.edges or [])] if ed else []
            ents += [(2, s, list(dict.fromkeys(sl)), fd) for s, sl in enumerate(rd.facets)] if fd else []
            ents += [(3, 0, list(range(rd.nnodes)), idd)]
            tensor = rd.__name__ in ('RefQuad', 'RefHex')
            rows, r = [], 0
            for kd, s, verts, cnt_ in ents:
                for k in range(cnt_):
                    if r >= X.shape[0]:
                        raise TranslateError(f'{name}: doflocs has fewer rows than local basis functions')
                    x = [_frac(v) for v in X[r]]
                    if tensor:
                        w = []
                        for v in verts:
                            q = Fraction(1)
                            for a, b in zip(P[v], x):
                                q *= b if a == 1 else 1 - b
                            w.append(q)
                    else:
                        w = _solve_weights([P[v] for v in verts], x) or [Fraction(0)] * len(verts)
                    rows.append((kd, s, k, verts, w, x))
                    r += 1
            sh = [rw for rw in rows if rw[0] in (1, 2)]
            if all(len(set(rw[4])) <= 1 for rw in sh):
                sym = 2
            elif rd.__name__ in ('RefTri', 'RefLine') and all(rw[3] == sorted(rw[3]) for rw in sh) and \
                    all(a[4] == b[4] for a in sh for b in sh if (a[0], a[2]) == (b[0], b[2])):
                sym = 1
            else:
                sym = 0
            qs = lambda l: clist([cq(q) for q in l])
            rowtxt = clist([f'mkLrow {kd} {s} {k} {cnats(v)} {qs(w)} {qs(x)}' for kd, s, k, v, w, x in rows])
            out.append(f'Definition {cn} : lclass := mkLclass {d} {clist([qs(p) for p in P])} {"true" if tensor else "false"} {sym}\n  {rowtxt}.\n'
                       f'Lemma {cn}_ok : lclass_ok {cn} = true.\nProof. vm_compute. reflexivity. Qed.\n')
            names.append(cn)
            info[name] = {'rows': len(rows), 'sym': ['none', 'sorted cells', 'any order'][sym]}
    txt = ('(* GENERATED by vlib/props/c04.py from Element.doflocs and skfem/refdom.py (by evaluation) — do not edit *)\n'
           'From Coq Require Import List Arith QArith.\nImport ListNotations.\nRequire Import Model.C04_Locs Proofs.C04_LocsProofs.\n'
           + ''.join(out)
           + 'Definition loc_classes : list lclass := ' + clist(names) + '.\n'
           + 'Lemma loc_classes_ok : Forall (fun c => lclass_ok c = true) loc_classes.\nProof.\n  unfold loc_classes.\n'
           + ''.join(f'  apply Forall_cons; [exact {n}_ok|].\n' for n in names) + '  apply Forall_nil.\nQed.\n'
           + '''
(* for EVERY element class with a location table: every DOF location lies ON the reference entity its row is numbered on (a vertex
   DOF at that vertex, an edge / facet DOF a convex combination of that entity's vertices only, an interior DOF inside the cell); the
   weights are the first-order shape functions, so the mapped location is the same combination of the GLOBAL vertices of the entity;
   and (sym = 2) that combination does not depend on the order in which a cell lists the entity's vertices, resp. (sym = 1, sorted
   simplices) the k-th DOF of an entity has the same weights on every slot and the slots list their vertices increasingly: the
   mapped reference locations of a shared entity coincide from both cells — the hypothesis of C04_doflocs_consistent *)
Theorem C04_doflocs_consistent_every_class : forall c, In c loc_classes -> class_spec c.
Proof. intros c Hc. apply lclass_ok_sound. exact (proj1 (Forall_forall _ _) loc_classes_ok c Hc). Qed.
Print Assumptions C04_doflocs_consistent_every_class.
''')
    return txt, info


# ------------------------------------------------------------------------------ terms

def crows(a):
    a = np.asarray(a)
    if a.ndim != 2 or a.shape[0] == 0:
        return '(@nil (list nat))'
    return clist([cnats(r.tolist()) for r in a])


def topo_tables(topo, dim, ed):
    """(nv, ne, nf, nt, t, t2e, t2f) exactly as Dofs.__init__ reads them (attributes it does not touch are 0 / [])"""
    use_e = dim == 3 and ed > 0
    return (int(topo.nvertices), int(topo.nedges) if use_e else 0, int(topo.nfacets), int(topo.nelements),
            np.asarray(topo.t), np.asarray(topo.t2e) if use_e else np.zeros((0, 0), dtype=int), np.asarray(topo.t2f))


def guard_dim(elem):
    """the value of the expression Dofs.__init__ uses as spatial dimension (element.dim or element.refdom.dim())"""
    f = DIM_OF['f'] or DIM_SPELLINGS['element.refdom.dim()']
    return f(elem)


def case_of(topo, elem, off):
    from skfem.assembly import Dofs
    nd, ed, fd, idd, dim = int(elem.nodal_dofs), int(elem.edge_dofs), int(elem.facet_dofs), int(elem.interior_dofs), guard_dim(elem)
    nv, ne, nf, nt, t, t2e, t2f = topo_tables(topo, dim, ed)
    D = Dofs(topo, elem, off) if off else Dofs(topo, elem)
    inp = (f'(({cnat(dim)}, {cnat(nd)}, {cnat(ed)}, {cnat(fd)}, {cnat(idd)}, {cnat(off)}), '
           f'({cnat(nv)}, {cnat(ne)}, {cnat(nf)}, {cnat(nt)}), ({crows(t)}, {crows(t2e)}, {crows(t2f)}))')
    out = clist([crows(D.nodal_dofs), crows(D.edge_dofs), crows(D.facet_dofs), crows(D.interior_dofs),
                 crows(D.element_dofs), clist([cnats([int(D.N)])])])
    return inp, out, D


CORR_DEFS = '''
Definition run (c : (nat * nat * nat * nat * nat * nat) * (nat * nat * nat * nat) *
                    (list (list nat) * list (list nat) * list (list nat))) : list (list (list nat)) :=
  let '((dim, nd, ed, fd, id, off), (nv, ne, nf, nt), (t, t2e, t2f)) := c in
  let D := gen_dofs_init dim nd ed fd id off nv ne nf nt t t2e t2f in
  [D_nodal D; D_edge D; D_facet D; D_interior D; D_element D; [[D_N D]]].
Definition natsss_eqb := list_eqb natss_eqb.
'''


class StubTopo:
    """a topology with random tables (entries in range, not necessarily onto, not a real mesh)"""

    def __init__(self, rng, dim):
        self.nelements = int(rng.integers(1, 6))
        self.nvertices = int(rng.integers(1, 8))
        self.nedges = int(rng.integers(1, 9))
        self.nfacets = int(rng.integers(1, 9))
        nn, ns_e, ns_f = int(rng.integers(1, 5)), int(rng.integers(1, 5)), int(rng.integers(1, 5))
        self.t = rng.integers(0, self.nvertices, size=(nn, self.nelements)).astype(np.int32)
        self.t2e = rng.integers(0, self.nedges, size=(ns_e, self.nelements)).astype(np.int32)
        self.t2f = rng.integers(0, self.nfacets, size=(ns_f, self.nelements)).astype(np.int32)


class StubElem:
    def __init__(self, rng, dim):
        self.dim = dim
        self.refdom = type('StubRefdom', (), {'dim': staticmethod(lambda d=dim: d)})
        while True:
            self.nodal_dofs, self.edge_dofs, self.facet_dofs, self.interior_dofs = (int(x) for x in rng.integers(0, 4, size=4))
            if self.nodal_dofs + self.interior_dofs + (self.facet_dofs if dim >= 2 else 0) + (self.edge_dofs if dim == 3 else 0) > 0:
                break


# ------------------------------------------------------------------------------ oracle

def entity_tables(mesh, dim, ed):
    t = np.asarray(mesh.t)
    tabs = {'nodal': t, 'facet': np.asarray(mesh.t2f), 'interior': np.arange(t.shape[1])[None, :]}
    if dim == 3 and ed > 0:
        tabs['edge'] = np.asarray(mesh.t2e)
    return tabs


def oracle_dofs(mesh, elem, D):
    """the property statement checked directly on the tables of a Dofs object; returns list of messages"""
    bad = []
    ed_ = np.asarray(D.element_dofs)
    N = int(D.N)
    vals = np.unique(ed_)
    if N != int(ed_.max()) + 1:
        bad.append(f'N = {N} but max(element_dofs) + 1 = {int(ed_.max()) + 1}')
    if vals.tolist() != list(range(N)):
        missing = sorted(set(range(N)) - set(vals.tolist()))[:5]
        bad.append(f'numbers are not the contiguous range 0..N-1 (unused: {missing})')
        return bad
    nb = int(np.sum(elem._bfun_counts()))
    if ed_.shape[0] != nb:
        bad.append(f'element_dofs has {ed_.shape[0]} rows but the element has {nb} local basis functions '
                   f'(_bfun_counts = {np.asarray(elem._bfun_counts()).tolist()})')
        return bad
    dim, edc = int(elem.refdom.dim()), int(elem.edge_dofs)      # the property speaks about the dimension of the cell
    tabs = entity_tables(mesh, dim, edc)
    blocks = {'nodal': np.asarray(D.nodal_dofs), 'edge': np.asarray(D.edge_dofs), 'facet': np.asarray(D.facet_dofs),
              'interior': np.asarray(D.interior_dofs)}
    owner = {}
    for kd in ('nodal', 'edge', 'facet', 'interior'):
        b = blocks[kd]
        if b.size == 0:
            continue
        if kd not in tabs:
            bad.append(f'{kd} DOFs are numbered but the mesh has no {kd} table')
            continue
        for k in range(b.shape[0]):
            for ent in range(b.shape[1]):
                d = int(b[k, ent])
                if d in owner:
                    bad.append(f'number {d} attached to two entities: {owner[d]} and {(kd, ent, k)}')
                    return bad
                owner[d] = (kd, ent, k)
    if sorted(owner) != list(range(N)):
        bad.append('the per-entity tables do not enumerate 0..N-1 exactly once')
        return bad
    nt = ed_.shape[1]
    # row order and the iff: column e holds exactly the numbers of the entities of cell e, grouped vertex/edge/facet/interior
    for e in range(nt):
        want = []
        for kd in ('nodal', 'edge', 'facet', 'interior'):
            b = blocks[kd]
            if b.size == 0:
                continue
            for s in range(tabs[kd].shape[0]):
                ent = int(tabs[kd][s, e])
                want += [int(b[k, ent]) for k in range(b.shape[0])]
        if want != ed_[:, e].tolist():
            bad.append(f'column {e} of element_dofs is {ed_[:, e].tolist()} but its entities carry {want}')
            return bad
    # sharing: d occurs in column e  <=>  the entity of d belongs to cell e
    cells_of = {}
    for e in range(nt):
        for d in ed_[:, e]:
            cells_of.setdefault(int(d), set()).add(e)
    for d, (kd, ent, k) in owner.items():
        contains = {e for e in range(nt) if ent in tabs[kd][:, e].tolist()}
        if cells_of.get(d, set()) != contains:
            bad.append(f'number {d} = {(kd, ent, k)} is referenced by cells {sorted(cells_of.get(d, set()))} but its entity lies in {sorted(contains)}')
            return bad
        if kd == 'interior' and contains != {ent}:
            bad.append(f'interior number {d} belongs to cells {sorted(contains)}')
    return bad


def _form(u, v, w):
    a = u.value * v.value
    while a.ndim > 2:
        a = a.sum(axis=0)
    return a


# ------------------------------------------------------------------------------ the check

def run(ctx):
    from skfem.assembly import Basis, BilinearForm
    from .. import c04_elems as EL
    ctx.cov['rule'] = ('real Dofs(mesh, elem, offset) on random meshes (C11 generators: Delaunay/structured, carved, renumbered, '
                       're-oriented) of every cell type x every exported element + vector/composite/DG wrappers; stub topologies '
                       'with random tables and counts 0-3 per kind, dim 1-3; non-trivial = at least two cells sharing a DOF-carrying '
                       'entity; distinct by content')
    ctx.trusted += ['NumPy reshape/arange/vstack/fancy indexing (modelled, corresponded)',
                    'scipy.sparse COO->CSR in the sparsity oracle']
    ctx.assumptions += ['topology tables have entries in range and are onto their entity ranges (proved for t2f/t2e by C11; '
                        'Mesh.is_valid demands it for t); facet DOFs only for dim >= 2 (true for every exported element)']
    ctx.ensure_static()
    try:
        ctx.write_gen('C04Gen', translate())
        gen_ok = True
    except TranslateError as e:
        ctx.broke('translator', 'c04.translate(dofs.py, element.py)', e)
        gen_ok = False
    if gen_ok:
        ctx.compile_dyn(['gen/C04Gen.v'] + ctx.copy_dyn())
        ctx.prove()
    try:
        ltxt, linfo = gen_locations()
        ctx.write_gen('C04Locs', ltxt)
        ctx.extra['location_classes'] = linfo
        ctx.compile_dyn(['gen/C04Locs.v'], timeout=400)
    except TranslateError as e:
        ctx.broke('translator', 'c04.gen_locations (Element.doflocs)', e)
    rng = np_seed(ctx, 4)
    cases = []
    nmesh = ctx.n(1, 5)
    for kind in M.KINDS:
        elems = EL.all_elements(kind)
        for name, fac in elems:
            # no 1-D element may carry facet DOFs (hypothesis of the theorems)
            e0 = fac()
            if int(e0.refdom.dim()) == 1 and int(e0.facet_dofs) > 0:
                ctx.fail(f'elem={name}:facet-dofs-in-1d', 'a one-dimensional element declares facet DOFs: Dofs numbers them but never '
                         'gathers them (gap in 0..N-1)', {'element': name})
            for i in range(nmesh):
                m, info = M.gen_mesh(rng, kind, maxcells=ctx.n(6, 20) if kind in ('hex', 'wedge', 'tet') else ctx.n(10, 30))
                elem = fac()
                off = int(rng.integers(1, 4)) if i % 2 else 0
                try:
                    inp, out, D = case_of(m, elem, off)
                except Exception as ex:
                    ctx.fail(f'elem={name}:exception', f'Dofs({type(m).__name__}, {name}) raises {type(ex).__name__}: {ex}',
                             {'kind': kind, 'element': name, 'p': m.p.tolist(), 't': m.t.tolist(), 'offset': off})
                    continue
                shares = bool(len(np.unique(D.element_dofs)) < D.element_dofs.size)
                cases.append((inp, out, ('real', kind, name, m.t.shape[1], off, shares)))
                ctx.hist('kind', kind)
                ctx.hist('counts(nd,ed,fd,id)', EL.counts(elem))
                if off == 0:
                    for msg in oracle_dofs(m, elem, D):
                        ctx.fail(f'elem={name}:{kind}:numbering', f'Dofs({type(m).__name__}, {name}): {msg}',
                                 {'kind': kind, 'element': name, 'p': m.p.tolist(), 't': m.t.tolist(), 'info': info})
                    ctx.count(('oracle', kind, name, m.t.tolist()), nontrivial=shares)
                if len(ctx.cov['samples']) < 4 and i == 0 and name in ('ElementTriP2', 'ElementTetP2', 'ElementQuad2', 'ElementHex2'):
                    ctx.sample({'mesh': kind, 'element': name, 't': m.t.tolist(), 'element_dofs': D.element_dofs.tolist(), 'N': int(D.N)})
    nstub = ctx.n(100, 500)
    for i in range(nstub):
        dim = int(rng.integers(1, 4))
        topo, elem = StubTopo(rng, dim), StubElem(rng, dim)
        off = int(rng.integers(0, 5)) if i % 3 == 0 else 0
        inp, out, D = case_of(topo, elem, off)
        cases.append((inp, out, ('stub', dim, EL.counts(elem), topo.nelements, off, True)))
        ctx.hist('kind', 'stub')
    ctx.log(f'{len(cases)} cases generated (real Dofs + numbering oracle)')
    if gen_ok:
        ctx.corr('dofs', 'Require Import Model.C04_Dofs Gen.C04Gen.\nFrom Coq Require Import List Arith Bool.',
                 'run', 'natsss_eqb', cases, per_file=min(400, -(-len(cases) // 4)), defs=CORR_DEFS, nontrivial=lambda r: r[5])
    _oracle_basis(ctx, rng)
    _oracle_operand(ctx, rng)
    _oracle_sequences(ctx, rng)
    _oracle_api(ctx, rng)
    _oracle_periodic(ctx, rng, cases_out=None)


def on_slot(refdom, elem):
    """reference check: the location of every vertex / edge / facet DOF lies on the slot it is attached to
    (convex hull of the slot's reference vertices; exact up to 1e-12); returns a message or None"""
    from scipy.optimize import nnls
    P = np.asarray(refdom.p, dtype=float)
    X = np.asarray(elem.doflocs, dtype=float)
    nd, ed, fd, idd = int(elem.nodal_dofs), int(elem.edge_dofs), int(elem.facet_dofs), int(elem.interior_dofs)
    slots = [([i], nd) for i in range(refdom.nnodes)]
    slots += [(list(s), ed) for s in (refdom.edges or [])] if int(elem.refdom.dim()) == 3 and ed > 0 else []
    slots += [(list(s), fd) for s in refdom.facets] if fd > 0 else []
    r = 0
    for verts, cnt in slots:
        V = P[:, sorted(set(verts))]
        A = np.vstack((V, np.ones((1, V.shape[1]))))
        for k in range(cnt):
            if r >= X.shape[0]:
                return f'doflocs has {X.shape[0]} rows, fewer than the DOFs attached to vertices/edges/facets'
            if not np.isfinite(X[r]).all():      # 'no location' markers
                r += 1
                continue
            b = np.concatenate((X[r], [1.0]))
            _, res = nnls(A, b)
            if res > 1e-12:
                return (f'local DOF {r} (slot with reference vertices {verts}, component {k}) is located at {X[r].tolist()}, '
                        f'not on that slot')
            r += 1
    return None


def composite_order(elem):
    """local basis function r of a composite must be the function of the component / component-local index that the row r
    of Dofs is numbered on: groups nodal, edge, facet, interior (the order of _bfun_counts and of element_dofs), inside a
    group slot by slot, inside a slot component by component.  Compared with ElementComposite._deduce_bfun."""
    comps = list(elem.elems)
    rd = elem.refdom
    nslots = [int(rd.nnodes), int(rd.nedges), int(rd.nfacets), 1]
    cnts = [[int(c.nodal_dofs), int(c.edge_dofs), int(c.facet_dofs), int(c.interior_dofs)] for c in comps]
    want = []
    for g in range(4):
        for s in range(nslots[g]):
            for j, c in enumerate(cnts):
                off = sum(c[h] * nslots[h] for h in range(g))
                want += [(j, off + s * c[g] + k) for k in range(c[g])]
    if len(want) != int(np.sum(elem._bfun_counts())):
        return f'{len(want)} expected local basis functions, _bfun_counts sums to {int(np.sum(elem._bfun_counts()))}'
    for r, w in enumerate(want):
        n, ind = elem._deduce_bfun(r)
        if (int(n), int(ind)) != w:
            return (f'local basis function {r} (row {r} of element_dofs) is function {int(ind)} of component {int(n)}, but that row '
                    f'is numbered on the entity of function {w[1]} of component {w[0]} (groups nodal, edge, facet, interior)')
    return None


def _oracle_basis(ctx, rng):
    """doflocs of shared DOFs agree from every cell; assembled matrices have shape (N_test, N_trial) and are zero
    outside the cell-sharing sparsity"""
    from skfem.assembly import Basis, BilinearForm
    from .. import c04_elems as EL
    maxdev = 0.0
    for kind in M.KINDS:
        elems = EL.all_elements(kind)
        for name, fac in elems:
            elem = fac()
            base = elem
            while hasattr(base, 'elem'):
                base = base.elem
            if hasattr(elem, 'elems'):
                msg = composite_order(elem)
                ctx.count(('bfun-order', name), nontrivial=True)
                if msg:
                    ctx.fail(f'elem={name}:bfun-order', f'{name}: {msg}', {'element': name, 'kind': kind})
            if hasattr(elem, 'doflocs'):
                msg = on_slot(elem.refdom, elem)
                ctx.count(('on_slot', name), nontrivial=False)
                if msg:
                    ctx.fail(f'elem={name}:doflocs', f'{name}.doflocs: {msg}', {'element': name, 'kind': kind,
                                                                                'doflocs': np.asarray(elem.doflocs).tolist()})
            for rep in range(ctx.n(1, 3)):
                if kind == 'tri':
                    p, t, info = M.gen_raw(rng, kind, maxcells=24)     # large enough to meet every pair of facet slots
                    m = M.build(kind, p, t, sort_t=True)
                else:
                    m, info = M.gen_mesh(rng, kind, maxcells=6 if kind in ('hex', 'wedge', 'tet') else 12)
                try:
                    basis = Basis(m, elem, intorder=3)     # the order is irrelevant here (and 2*maxdeg may exceed the tables)
                except Exception as ex:
                    ctx.fail(f'elem={name}:basis-exception', f'Basis({type(m).__name__}, {name}) raises {type(ex).__name__}: {ex}',
                             {'kind': kind, 'element': name, 'p': m.p.tolist(), 't': m.t.tolist()})
                    break
                edofs = np.asarray(basis.element_dofs)
                ctx.count(('basis', kind, name, m.t.tolist()), nontrivial=True)
                # ---- doflocs: every cell must map the reference location of a DOF to the location in the table.
                # Elements with several DOFs per edge/facet are only comparable on consistently oriented meshes
                # (lines, sort_t triangles); orientation effects belong to C03.
                comp = getattr(elem, 'elems', [elem])
                def _b(c):
                    while hasattr(c, 'elem'):
                        c = c.elem
                    return c
                sym = all(max(int(_b(c).edge_dofs), int(_b(c).facet_dofs)) <= 1 for c in comp)
                oriented = kind in ('line', 'tri')
                if hasattr(basis, 'doflocs') and hasattr(elem, 'doflocs') and (sym or oriented):
                    X = basis.mapping.F(np.asarray(elem.doflocs).T)      # (dim, nt, Nbfun)
                    scale = max(1.0, float(np.abs(m.p).max()))
                    dev = 0.0
                    for r in range(edofs.shape[0]):
                        if np.isfinite(X[:, :, r]).all():
                            dev = max(dev, float(np.abs(basis.doflocs[:, edofs[r]] - X[:, :, r]).max()))
                    if dev > 1e-9 * scale:
                        ctx.fail(f'elem={name}:doflocs', f'Basis({type(m).__name__}, {name}): basis.doflocs disagrees with the mapped '
                                 f'reference location of a shared DOF seen from another cell by {dev:.3g}',
                                 {'kind': kind, 'element': name, 'p': m.p.tolist(), 't': m.t.tolist()})
                    else:
                        maxdev = max(maxdev, dev / scale)
                # ---- matrix shape and locality (single-field elements)
                if hasattr(elem, 'elems') or rep > 0:
                    continue
                try:
                    A = BilinearForm(_form).assemble(basis)
                except Exception:
                    continue        # elements whose fields this generic integrand cannot multiply
                allowed = set()
                for e in range(edofs.shape[1]):
                    col = edofs[:, e].tolist()
                    allowed.update((i, j) for i in col for j in col)
                nz = set(zip(*(x.tolist() for x in A.nonzero())))
                ctx.count(('locality', kind, name, m.t.tolist()), nontrivial=True)
                if A.shape != (basis.N, basis.N) or not nz <= allowed:
                    ctx.fail(f'elem={name}:{kind}:locality', f'assembled matrix of {name} on {type(m).__name__} has shape {A.shape} / '
                             f'{len(nz - allowed)} nonzeros at (i, j) that share no cell',
                             {'kind': kind, 'element': name, 'p': m.p.tolist(), 't': m.t.tolist()})
    # rectangular: trial P2-like, test P1-like
    import skfem.element as E
    for kind, (eu, ev) in {'tri': (E.ElementTriP2, E.ElementTriP1), 'quad': (E.ElementQuad2, E.ElementQuad1),
                           'tet': (E.ElementTetP2, E.ElementTetP1), 'hex': (E.ElementHex2, E.ElementHex1),
                           'line': (E.ElementLineP2, E.ElementLineP1)}.items():
        m, info = M.gen_mesh(rng, kind, maxcells=10)
        ub, vb = Basis(m, eu(), intorder=4), Basis(m, ev(), intorder=4)
        A = BilinearForm(_form).assemble(ub, vb)
        allowed = set()
        for e in range(m.t.shape[1]):
            allowed.update((i, j) for i in vb.element_dofs[:, e].tolist() for j in ub.element_dofs[:, e].tolist())
        nz = set(zip(*(x.tolist() for x in A.nonzero())))
        ctx.count(('rect', kind, m.t.tolist()), nontrivial=True)
        if A.shape != (vb.N, ub.N) or not nz <= allowed:
            ctx.fail(f'rect:{kind}:locality', f'trial {eu.__name__} x test {ev.__name__}: shape {A.shape}, expected {(vb.N, ub.N)}; '
                     f'{len(nz - allowed)} nonzeros outside the cell-sharing pattern',
                     {'kind': kind, 'p': m.p.tolist(), 't': m.t.tolist()})
    ctx.extra['max_relative_dofloc_deviation'] = maxdev


def _snapshot(m, elem):
    from skfem.assembly import Basis
    b = Basis(m, elem, intorder=2)
    return (np.asarray(m.t).copy(), np.asarray(m.p).copy(), np.asarray(b.element_dofs).copy(), np.asarray(b.doflocs).copy(), int(b.N))


def _oracle_operand(ctx, rng):
    """meshes derived from m (oriented, refined, translated, tagged, ...) must leave m untouched: the cell table of m, and the
    tables of a NEW Dofs/Basis built on m afterwards, are what they were before"""
    import skfem.element as E
    ops = [('oriented', lambda m: m.oriented()), ('refined', lambda m: m.refined()), ('translated', lambda m: m.translated(tuple([1.0] * m.p.shape[0]))),
           ('scaled', lambda m: m.scaled(2.0)), ('with_boundaries', lambda m: m.with_boundaries({'x': lambda x: x[0] < 0.5})),
           ('with_subdomains', lambda m: m.with_subdomains({'s': lambda x: x[0] < 0.5})), ('mirrored', lambda m: m.mirrored((1.0,) + (0.0,) * (m.p.shape[0] - 1))),
           ('restrict', lambda m: m.restrict(np.array([0], dtype=np.int32))), ('remove_unused_nodes', lambda m: m.remove_unused_nodes()),
           ('to_dict', lambda m: m.to_dict()), ('dofs', lambda m: m.dofs)]
    el = {'line': E.ElementLineP2, 'tri': E.ElementTriP2, 'quad': E.ElementQuad2, 'tet': E.ElementTetP2, 'hex': E.ElementHex2, 'wedge': E.ElementWedge1}
    for kind in M.KINDS:
        for rep in range(ctx.n(1, 3)):
            p, t, info = M.gen_raw(rng, kind, maxcells=8)
            for opname, op in ops:
                m = M.build(kind, p.copy(), t.copy())
                try:
                    before = _snapshot(m, el[kind]())
                    m.facets, m.t2f, m.f2t      # caches filled, as in a session that already used the mesh
                    op(m)
                except (NotImplementedError, AttributeError, TypeError, ValueError):
                    continue                   # operation not offered for this mesh type
                after = _snapshot(m, el[kind]())
                ctx.count(('operand', kind, opname, t.tolist()), nontrivial=True)
                what = [n for n, a, c in zip(('t', 'p', 'element_dofs', 'doflocs', 'N'), before, after) if not np.array_equal(a, c)]
                if what:
                    ctx.fail(f'operand:{opname}', f'{type(m).__name__}.{opname}() changed the mesh it was called on: {what} of the ORIGINAL mesh / of a new '
                             f'Basis on it differ from before the call (first changed cell columns: '
                             f'{np.nonzero((before[0] != after[0]).any(axis=0))[0][:5].tolist()})',
                             {'kind': kind, 'p': p.tolist(), 't': t.tolist(), 'operation': opname, 'element': el[kind].__name__})


def _tables(b):
    d = b.dofs
    return {'N': int(b.N), 'element_dofs': np.asarray(b.element_dofs).tolist(), 'nodal_dofs': np.asarray(d.nodal_dofs).tolist(),
            'edge_dofs': np.asarray(d.edge_dofs).tolist(), 'facet_dofs': np.asarray(d.facet_dofs).tolist(),
            'interior_dofs': np.asarray(d.interior_dofs).tolist()}


def _oracle_sequences(ctx, rng):
    """several bases with DIFFERENT elements built one after the other on ONE long-lived mesh object: each must have the tables
    it has on a fresh mesh object (nothing about an earlier basis may leak into a later one), in both orders"""
    from skfem.assembly import Basis
    from .. import c04_elems as EL
    for kind in M.KINDS:
        elems = EL.all_elements(kind)
        wrappers = [x for x in elems if '(' in x[0] or '*' in x[0]]
        base = [x for x in elems if x not in wrappers]
        pairs = [(a, b) for a in wrappers for b in wrappers if a is not b]            # all ordered pairs of wrapper classes
        extra = [(a, b) for a in base for b in base if a is not b]
        k = ctx.n(30, 400)
        pairs += [extra[int(j)] for j in rng.choice(len(extra), size=min(k, len(extra)), replace=False)] if extra else []
        p, t, info = M.gen_raw(rng, kind, maxcells=4)
        fresh = {}

        def on_fresh(name, fac):
            if name not in fresh:
                try:
                    fresh[name] = _tables(Basis(M.build(kind, p.copy(), t.copy()), fac(), intorder=2))
                except Exception as ex:
                    fresh[name] = f'{type(ex).__name__}'
            return fresh[name]
        for (na, fa), (nb, fb) in pairs:
            m = M.build(kind, p.copy(), t.copy())           # the long-lived mesh object
            ctx.count(('sequence', kind, na, nb), nontrivial=True)
            for nm, fc in ((na, fa), (nb, fb)):
                want = on_fresh(nm, fc)
                try:
                    got = _tables(Basis(m, fc(), intorder=2))
                except Exception as ex:
                    got = f'{type(ex).__name__}'
                    msg = f'{type(ex).__name__}: {ex}'
                if got != want:
                    what = msg if isinstance(got, str) else [x for x in want if got[x] != want[x]] if isinstance(want, dict) else 'no exception'
                    ctx.fail(f'sequence:{kind}', f'Basis({type(m).__name__}, {nm}) built after Basis(.., {na}) on the SAME mesh object differs from the '
                             f'one on a fresh mesh object: {what}' + (f' (N = {got["N"]} instead of {want["N"]})' if isinstance(got, dict) and isinstance(want, dict) else ''),
                             {'kind': kind, 'p': p.tolist(), 't': t.tolist(), 'first': na, 'second': nb, 'element': nm})
                    break


API_C04 = {
    'covered_before': ['Dofs.__init__ (offset)', 'Dofs tables nodal/edge/facet/interior/element_dofs, N', 'AbstractBasis.__init__ (doflocs scatter, Nbfun)',
                       'AbstractBasis.nodal_dofs/edge_dofs/element_dofs/N', 'Element._bfun_counts', 'ElementVector (dim argument), ElementComposite '
                       '(_deduce_bfun, doflocs), ElementDG', 'CellBasis(mesh, elem, intorder)', 'MeshDG.init_tensor(periodic=)', 'BilinearForm.assemble '
                       '(sparsity)', 'Mesh.oriented/refined/translated/scaled/mirrored/restrict/with_* as operand checks'],
    'covered_now': ['AbstractBasis.facet_dofs / interior_dofs properties', 'AbstractBasis.with_element', 'CellBasis.with_element', 'CellBasis.with_elements',
                    'CellBasis.boundary', 'AbstractBasis.zeros / ones / zero_w', 'AbstractBasis.split_indices / split_bases / split', 'Element.condensed',
                    'ElementComposite.dim', 'Basis(..., dofs=) (shared Dofs object)', 'Basis(..., elements=) / FacetBasis(facets=) element_dofs columns',
                    'DofsView.__len__ / __add__ / sort'],
    'out_of_scope': {'Dofs.decompose / l2g / loc': 'PETSc domain decomposition (needs petsc4py, not installed)', 'AbstractBasis.interpolate / project / '
                     'refinterp / probes / interpolator / point_source': 'evaluation of functions (C01/C06/C14)', 'plot/draw': 'visualisation',
                     'Element.gbasis / lbasis / orient': 'shape functions (C09/C03)', 'AbstractBasis.quadrature / default_parameters / global_coordinates': 'integration data (C02)',
                     'AbstractBasis.__mul__ / __matmul__': 'composite bases (C19)'}}


def _oracle_api(ctx, rng):
    """thin wrappers around the numbering: every derived basis has the tables of the basis it forwards to"""
    import skfem
    import skfem.element as E
    from skfem.assembly import Basis, FacetBasis
    cfg = [('tri', E.ElementTriP2, E.ElementTriP1), ('quad', E.ElementQuad2, E.ElementQuad1), ('tet', E.ElementTetP2, E.ElementTetP1),
           ('hex', E.ElementHex2, E.ElementHex1), ('line', E.ElementLineP2, E.ElementLineP1)]
    for kind, e2, e1 in cfg:
        m, info = M.gen_mesh(rng, kind, maxcells=8)
        data = {'kind': kind, 'p': m.p.tolist(), 't': m.t.tolist()}
        b = Basis(m, e2(), intorder=2)
        ctx.count(('api', kind, m.t.tolist()), nontrivial=True)

        def bad(what, msg):
            ctx.fail(f'api:{what}', f'{type(m).__name__}/{e2.__name__}: {what}: {msg}', dict(data, call=what))
        if not (np.array_equal(b.facet_dofs, b.dofs.facet_dofs) and np.array_equal(b.interior_dofs, b.dofs.interior_dofs)):
            bad('AbstractBasis.facet_dofs/interior_dofs', 'properties differ from the Dofs tables')
        fresh1 = Basis(M.build(kind, m.p.copy(), np.asarray(m.t).copy()), e1(), intorder=2)
        w = b.with_element(e1())
        if _tables(w) != _tables(fresh1) or w.mesh is not m:
            bad('with_element', 'tables differ from a new Basis with that element')
        nt = m.t.shape[1]
        Esub = np.unique(rng.integers(0, nt, size=max(1, nt // 2))).astype(np.int32)
        we = b.with_elements(Esub)
        if not (np.array_equal(we.element_dofs, np.asarray(b.dofs.element_dofs)[:, Esub]) and we.N == b.N and np.array_equal(we.nodal_dofs, b.nodal_dofs)):
            bad('with_elements', 'element_dofs is not the column subset / N or the entity tables changed')
        be = Basis(m, e2(), elements=Esub, intorder=2)
        if not np.array_equal(be.element_dofs, we.element_dofs):
            bad('Basis(elements=)', 'differs from with_elements')
        fb = b.boundary()
        bf = m.boundary_facets()
        if not (fb.N == b.N and np.array_equal(fb.element_dofs, np.asarray(b.dofs.element_dofs)[:, m.f2t[0, bf]])):
            bad('boundary', 'the facet basis does not carry the DOF columns of the cells behind the boundary facets')
        f2 = FacetBasis(m, e2(), facets=bf[:2], intorder=2)
        if not np.array_equal(f2.element_dofs, np.asarray(b.dofs.element_dofs)[:, m.f2t[0, bf[:2]]]):
            bad('FacetBasis(facets=)', 'element_dofs columns are not those of the cells behind the facets')
        shared = Basis(m, e2(), dofs=b.dofs, intorder=2)
        if _tables(shared) != _tables(b):
            bad('Basis(dofs=)', 'tables differ when the Dofs object is passed in')
        if not (len(b.zeros()) == b.N and len(b.ones()) == b.N and float(b.ones().sum()) == b.N and float(abs(b.zeros()).sum()) == 0.0):
            bad('zeros/ones', 'length is not N')
        # split: vector and composite bases partition 0..N-1 by component
        for en, el in (('ElementVector', E.ElementVector(e2())), ('composite', e2() * e1())):
            bb = Basis(m, el, intorder=2)
            ix = bb.split_indices()
            allix = np.concatenate(ix)
            if sorted(allix.tolist()) != list(range(bb.N)):
                bad(f'split_indices({en})', 'the component index sets do not partition 0..N-1')
            sb = bb.split_bases()
            comp = [e2()] * int(el.dim) if en == 'ElementVector' else [e2(), e1()]
            for k, (sbk, ek) in enumerate(zip(sb, comp)):
                ref = Basis(M.build(kind, m.p.copy(), np.asarray(m.t).copy()), type(ek)(), intorder=2)
                if sbk.N != ref.N or len(ix[k]) != ref.N:
                    bad(f'split_bases({en})', f'component {k} has N = {sbk.N}, its index set {len(ix[k])}, a scalar basis of that element {ref.N}')
            x = rng.random(bb.N)
            parts = bb.split(x)
            if any(not np.array_equal(xk, x[ixk]) for (xk, _), ixk in zip(parts, ix)):
                bad(f'split({en})', 'the split vectors are not x[split_indices]')
        # condensed: interior-only and the rest, numbered separately
        ec = {'tri': E.ElementTriCCR, 'tet': E.ElementTetCCR}.get(kind, e2)       # an element WITH interior DOFs
        ei, eo = ec().condensed()
        Di, Do = Basis(m, ei, intorder=2), Basis(m, eo, intorder=2)
        if Di.N + Do.N != Basis(m, ec(), intorder=2).N or oracle_dofs(m, eo, Do.dofs) or (int(ei.interior_dofs) and oracle_dofs(m, ei, Di.dofs)):
            bad('Element.condensed', f'N_interior + N_rest = {Di.N} + {Do.N} != {b.N} or a part is not gap-free / shared exactly')
        # DofsView conveniences
        v = b.get_dofs()
        if len(v) != len(v.flatten()) or (v + v).flatten().tolist() != (v | v).flatten().tolist() or sorted(v.sort().tolist()) != v.flatten().tolist():
            bad('DofsView.__len__/__add__/sort', 'len / + / sort disagree with flatten / |')
    if int((E.ElementTetN1() * E.ElementTetP1()).dim) != 3:
        ctx.fail('api:ElementComposite.dim', 'dim of a composite on tetrahedra is not 3', {})
    ctx.extra['api_coverage'] = API_C04


def _oracle_periodic(ctx, rng, cases_out=None):
    """tensor meshes periodic in 1, 2 and all coordinate directions (MeshLine1DG / Tri1DG / Quad1DG / Hex1DG): the numbering is
    gap-free, none unused, shared exactly along identified entities; N of a vertex-only element = number of identified node classes"""
    import itertools
    import skfem
    import skfem.element as E
    from skfem.assembly import Basis
    fam = [(skfem.MeshLine1DG, 1, [E.ElementLineP1, E.ElementLineP2]), (skfem.MeshTri1DG, 2, [E.ElementTriP1, E.ElementTriP2]),
           (skfem.MeshQuad1DG, 2, [E.ElementQuad1, E.ElementQuad2]), (skfem.MeshHex1DG, 3, [E.ElementHex1, E.ElementHex2])]
    for cls, d, elems in fam:
        for k in range(1, d + 1):
            for per in itertools.combinations(range(d), k):
                npts = [int(rng.integers(3, 5)) for _ in range(d)]
                grids = [np.linspace(0, 1, n) for n in npts]
                try:
                    m = cls.init_tensor(*grids, periodic=list(per))
                except Exception as ex:
                    ctx.fail(f'periodic:{cls.__name__}:exception', f'{cls.__name__}.init_tensor(periodic={list(per)}) raises {type(ex).__name__}: {ex}',
                             {'class': cls.__name__, 'npts': npts, 'periodic': list(per)})
                    continue
                classes = int(np.prod([n - 1 if a in per else n for a, n in enumerate(npts)]))
                for ec in elems:
                    elem = ec()
                    b = Basis(m, elem, intorder=2)
                    ctx.count(('periodic', cls.__name__, per, tuple(npts), ec.__name__), nontrivial=True)
                    bad = oracle_dofs(m, elem, b.dofs)
                    if not bad and int(elem.edge_dofs) + int(elem.facet_dofs) + int(elem.interior_dofs) == 0 and b.N != classes * int(elem.nodal_dofs):
                        bad = [f'N = {b.N} but the {npts} grid periodic in {list(per)} has {classes} classes of identified nodes']
                    if not bad and int(m.nvertices) != classes:
                        bad = [f'the mesh has {int(m.nvertices)} vertex numbers but {classes} classes of identified nodes']
                    for msg in bad:
                        ctx.fail(f'periodic:{cls.__name__}:numbering', f'Basis({cls.__name__}.init_tensor({npts}, periodic={list(per)}), {ec.__name__}): {msg}',
                                 {'class': cls.__name__, 'npts': npts, 'periodic': list(per), 'element': ec.__name__})


def replay(ctx, data):
    from .. import c04_elems as EL
    from skfem.assembly import Dofs, Basis
    inp = data['input']
    if data['key'].startswith('operand:') or data['key'].startswith('periodic:') or data['key'].startswith('sequence:'):
        rng = np_seed(ctx, 4)
        _oracle_operand(ctx, rng)
        _oracle_sequences(ctx, rng)
        _oracle_periodic(ctx, rng)
        return
    if 'element' not in inp or 'kind' not in inp:
        return run(ctx)
    fac = dict(EL.all_elements(inp['kind']))[inp['element']]
    elem = fac()
    if data['key'].endswith(':bfun-order'):
        msg = composite_order(elem)
        ctx.log('replay', data['key'], '->', msg or 'consistent on this tree')
        if msg:
            ctx.fail(data['key'], msg, inp)
        return
    if data['key'].endswith(':doflocs'):
        msg = on_slot(elem.refdom, elem) if hasattr(elem, 'doflocs') else None
        if msg is None and 'p' in inp:
            m = M.build(inp['kind'], np.array(inp['p'], dtype=float), np.array(inp['t']), **({'sort_t': True} if inp['kind'] == 'tri' else {}))
            b = Basis(m, elem, intorder=3)
            X = b.mapping.F(np.asarray(elem.doflocs).T)
            dev = max(float(np.abs(b.doflocs[:, b.element_dofs[r]] - X[:, :, r]).max()) for r in range(b.element_dofs.shape[0]))
            msg = f'location table deviates by {dev:.3g}' if dev > 1e-9 * max(1.0, float(np.abs(m.p).max())) else None
        ctx.log('replay', data['key'], '->', msg or 'consistent on this tree')
        if msg:
            ctx.fail(data['key'], msg, inp)
        return
    m = M.build(inp['kind'], np.array(inp['p'], dtype=float), np.array(inp['t']))
    bad = oracle_dofs(m, elem, Dofs(m, elem))
    ctx.log('replay', data.get('key'), '->', bad or 'numbering statement holds on this tree (see the full check for doflocs / locality)')
    for msg in bad:
        ctx.fail(data['key'], msg, inp)
