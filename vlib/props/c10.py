"""C10 — reference maps, Jacobians, facet maps and normals are mutually consistent.

tie T2 : Gen/C10Gen.v is regenerated from skfem/mapping/mapping_affine.py (A, b, invA, detA, B, c, detB^2 by symbolic
         execution of _init_Ab/_init_invA/_init_boundary_mapping for dim 1..3; F, invF, DF, invDF, detDF, G, detDG, normals
         recognised by exact text), mapping_isoparametric.py (detDF, invDF, detDG cofactor formulas) and refdom.py (p, facets,
         normals of RefLine/RefTri/RefTet, T1) — vlib/c10_tr.py, fail closed.
proof  : coq/props/C10.v over any field, every non-degenerate simplex: round trips, invDF DF = I, detDF = Leibniz, F maps
         reference vertices to cell vertices, facet map on the matching face for every ordering of every local facet,
         detB^2 = Gram, normals orthogonal/outward (= -1, < 0 at Qc), detB = |detA||n|, divergence identity,
         isoparametric cofactor formulas and their agreement with the affine ones.  PARTIAL: Newton iteration of the
         isoparametric invF, normalisation (sqrt), curved cells: oracle only.
corr   : real MappingAffine (all point layouts, tind/find subsets incl. None, tind given at construction) on random
         integer-coordinate line/triangle/tetrahedron meshes vs the generated terms run by vm_compute on Q.
oracle : random meshes of every class incl. curved second-order ones: round trips, finite-difference Jacobians,
         boundary integral of x.n = d vol, affine == isoparametric on straight simplices, all layouts and subsets.
"""
import os
import re
from fractions import Fraction

import numpy as np

from .. import c10_tr
from ..core import TranslateError, clist, cnat, cnats, np_seed, scan_forbidden


def compile_parallel(ctx, rels, timeout=400):
    """like Ctx.compile_dyn for files that do not depend on each other (compiled concurrently)"""
    ok_files = []
    for rel in rels:
        bad = scan_forbidden([os.path.join(ctx.bdir, rel)])
        if bad:
            ctx.broken.append({'kind': 'proof', 'name': rel, 'detail': 'forbidden construct: ' + '; '.join(bad)})
        else:
            ok_files.append(rel)
    res = ctx.coqc_many(ok_files, timeout, jobs=4)
    allok = len(ok_files) == len(rels)
    for rel in rels:
        txt = open(os.path.join(ctx.bdir, rel)).read()
        names = [m.group(2) for m in ctx._thm_re.finditer(txt)]
        if rel not in res:
            for nm in names:
                ctx.obligations.append({'name': f'{rel}:{nm}', 'kind': 'generated', 'ok': False})
            continue
        ok, out, err, secs = res[rel]
        ctx.log(f'coqc {rel}: {"ok" if ok else "FAILED"} ({secs:.1f}s, {len(names)} lemmas)')
        failed_at = None
        if not ok:
            allok = False
            failed_at = ctx._failing_theorem(txt, err)
            ctx.broken.append({'kind': 'proof', 'name': f'{rel}:{failed_at or "?"}', 'detail': err[-1500:]})
        seen = False
        for nm in names:
            if not ok and (failed_at is None or nm == failed_at):
                seen = True
            ctx.obligations.append({'name': f'{rel}:{nm}', 'kind': 'generated', 'ok': ok or not seen})
    return allok


# ------------------------------------------------------------------------------------------- meshes

def int_mesh(rng, d, npts=None):
    """random simplicial mesh with small integer coordinates (both cell orientations occur)"""
    import skfem as fe
    from scipy.spatial import Delaunay
    if d == 1:
        xs = np.sort(rng.choice(np.arange(-8, 9), size=int(rng.integers(3, 7)), replace=False)).astype(float)
        perm = rng.permutation(len(xs))
        p = xs[perm][None, :]
        inv = np.argsort(perm)
        t = np.array([inv[:-1], inv[1:]])
        return fe.MeshLine(p, t)
    while True:
        n = npts or int(rng.integers(5, 9) if d == 2 else rng.integers(6, 9))
        pts = rng.integers(-5, 6, size=(n, d))
        pts = np.unique(pts, axis=0)
        if len(pts) < d + 2:
            continue
        try:
            tri = Delaunay(pts.astype(float))
        except Exception:  # noqa: BLE001 - degenerate point cloud, draw again
            continue
        t = tri.simplices.T
        p = pts.T.astype(float)
        vol = np.array([np.linalg.det((p[:, t[1:, k]] - p[:, t[:1, k]])) for k in range(t.shape[1])])
        t = t[:, np.abs(vol) > 0.5]
        if t.shape[1] < 2:
            continue
        used = np.unique(t)
        remap = -np.ones(p.shape[1], dtype=int)
        remap[used] = rng.permutation(len(used))          # random renumbering: sorted t then has random orientation
        pp = np.zeros((d, len(used)))
        pp[:, remap[used]] = p[:, used]
        tt = remap[t]
        m = (fe.MeshTri if d == 2 else fe.MeshTet)(pp, tt)
        return m


def q_of(x):
    fr = Fraction(float(x))
    return f'(Qmake ({fr.numerator})%Z {fr.denominator}%positive)'


def qlist(v):
    return clist([q_of(x) for x in np.asarray(v, dtype=float).reshape(-1)])


# ------------------------------------------------------------------------------------------- correspondence

CORR_DEFS = '''
Close Scope Q_scope.
Definition un1 (l : list Q) : vec Q := fun i => nth i l 0%Q.
Definition un2 (d : nat) (l : list Q) : mat Q := fun i j => nth (i * d + j) l 0%Q.
Definition tabm (r c : nat) (A : mat Q) : list Q := flat_map (fun i => map (A i) (seq 0 c)) (seq 0 r).
Definition A_ (d : nat) : mat Q -> mat Q := match d with 1%nat => aff_A_1 | 2%nat => aff_A_2 | _ => aff_A_3 end.
Definition b_ (d : nat) : mat Q -> vec Q := match d with 1%nat => aff_b_1 | 2%nat => aff_b_2 | _ => aff_b_3 end.
Definition detA_ (d : nat) : mat Q -> Q := match d with 1%nat => aff_detA_1 | 2%nat => aff_detA_2 | _ => aff_detA_3 end.
Definition invA_ (d : nat) : mat Q -> mat Q := match d with 1%nat => aff_invA_1 | 2%nat => aff_invA_2 | _ => aff_invA_3 end.
Definition B_ (d : nat) : mat Q -> mat Q := match d with 1%nat => aff_B_1 | 2%nat => aff_B_2 | _ => aff_B_3 end.
Definition c_ (d : nat) : mat Q -> vec Q := match d with 1%nat => aff_c_1 | 2%nat => aff_c_2 | _ => aff_c_3 end.
Definition detBsq_ (d : nat) : mat Q -> Q := match d with 1%nat => aff_detBsq_1 | 2%nat => aff_detBsq_2 | _ => aff_detBsq_3 end.
Definition Nref_ (d : nat) : mat Q := match d with 1%nat => aff_Nref_1 | 2%nat => aff_Nref_2 | _ => aff_Nref_3 end.
(* a case: (d, vertex table P of a cell (rows = local vertices), reference point X, global point x,
            vertex table P2 of the cell f2t[0, f] of a facet f, local vertex numbers q of f in the order of mesh.facets,
            local slot s of f in that cell, facet reference point Xf) *)
Definition run_case (c : nat * list Q * list Q * list Q * list Q * list nat * nat * list Q) : list (list Q) :=
  let '(d, Pl, X, x, P2l, q, s, Xf) := c in
  let P := un2 d Pl in
  let P2 := un2 d P2l in
  let Qt := sel P2 q in
  [ tabm d d (A_ d P); tab1 d (b_ d P); [detA_ d P]; tab1 d (mapF d (A_ d P) (b_ d P) (un1 X));
    tabm d (d - 1) (B_ d Qt); tab1 d (c_ d Qt); tab1 d (mapG d (B_ d Qt) (c_ d Qt) (un1 Xf));
    tabm d d (invA_ d P); tab1 d (mapInvF d (invA_ d P) (b_ d P) (un1 x)); [detBsq_ d Qt];
    tab1 d (normal_raw d (invA_ d P2) (Nref_ d s)) ].
Definition close (m r : Q) : bool := Qle_bool (Qabs (m - r)) ((1 # 1099511627776) * (1 + Qabs m))%Q.
Definition closes := list_eqb close.
Definition qdot (u v : list Q) : Q := fold_right Qplus 0%Q (map (fun p => (fst p * snd p)%Q) (combine u v)).
(* impl normal n is the normalised model vector m:  n_i (n.m) = m_i  and  n.m > 0 *)
Definition normal_ok (m n : list Q) : bool :=
  negb (Qle_bool (qdot n m) 0%Q) && closes m (map (fun ni => (ni * qdot n m)%Q) n) && (length m =? length n).
Definition check (model impl : list (list Q)) : bool :=
  match model, impl with
  | [mA; mb; md; mF; mB; mc; mG; miA; miF; mdB; mn], [iA; ib; id; iF; iB; ic; iG; iiA; iiF; idB; inn] =>
      qs_eqb mA iA && qs_eqb mb ib && qs_eqb md id && qs_eqb mF iF && qs_eqb mB iB && qs_eqb mc ic && qs_eqb mG iG &&
      closes miA iiA && closes miF iiF && closes mdB idB && normal_ok mn inn
  | _, _ => false
  end.
'''


def affine_correspondence(ctx, rng):
    from skfem.mapping import MappingAffine
    cases = []
    nmesh = ctx.n(15, 60)
    for it in range(nmesh):
        d = 1 + it % 3
        m = int_mesh(rng, d)
        nt, nf = m.t.shape[1], m.facets.shape[1]
        # cell subset / construction-time subset / layouts
        mode = ['none', 'subset', 'ctor'][int(rng.integers(0, 3))]
        tind = None if mode == 'none' else rng.choice(nt, size=int(rng.integers(1, nt + 1)), replace=(mode == 'subset')).astype(np.int32)
        mp = MappingAffine(m, tind=tind) if mode == 'ctor' else MappingAffine(m)
        cells = np.arange(nt) if tind is None else tind
        call_tind = tind if mode == 'subset' else None
        npts = int(rng.integers(1, 4))
        percell = bool(rng.integers(0, 2))
        X = rng.integers(-8, 17, size=(d, len(cells), npts) if percell else (d, npts)) / 8.
        x = mp.F(X, tind=call_tind)
        xq = x + rng.integers(-4, 5, size=x.shape) / 4.
        Xb = mp.invF(xq, tind=call_tind)
        DF, iDF, dDF = mp.DF(X, tind=call_tind), mp.invDF(X, tind=call_tind), mp.detDF(X, tind=call_tind)
        if x.shape != (d, len(cells), npts) or DF.shape != (d, d, len(cells), npts) or iDF.shape != DF.shape or dDF.shape != (len(cells), npts):
            ctx.fail(f'affine-shapes:d={d}:{mode}:percell={percell}', 'MappingAffine returns arrays of unexpected shape',
                     {'d': d, 'mode': mode, 'percell': percell, 'F': x.shape, 'DF': DF.shape, 'invDF': iDF.shape, 'detDF': dDF.shape})
            continue
        # facets (only with a mapping of the whole mesh, as FacetBasis uses it)
        mpf = MappingAffine(m)
        find = None if rng.integers(0, 2) else rng.choice(nf, size=int(rng.integers(1, nf + 1)), replace=False).astype(np.int32)
        facets = np.arange(nf) if find is None else find
        fper = bool(rng.integers(0, 2)) and d > 1
        Xf = rng.integers(0, 9, size=(d - 1, len(facets), npts) if fper else (d - 1, npts)) / 8.
        g = mpf.G(Xf, find=find)
        dG = mpf.detDG(Xf, find=find)
        side = 0
        tn = m.f2t[side, facets]
        Y0 = mpf.invF(g, tind=tn)
        nrm = mpf.normals(Y0, tn, facets, m.t2f)
        for _ in range(ctx.n(5, 8)):
            # cell part: a cell of the selection; facet part: a selected facet with the cell f2t[0, f] the normals live in
            kc, l = int(rng.integers(0, len(cells))), int(rng.integers(0, npts))
            cell = int(cells[kc])
            P = m.p[:, m.t[:, cell]].T
            kf = int(rng.integers(0, len(facets)))
            f = int(facets[kf])
            fcell = int(m.f2t[0, f])
            P2 = m.p[:, m.t[:, fcell]].T
            s = int(np.nonzero(m.t2f[:, fcell] == f)[0][0])
            q = [int(np.nonzero(m.t[:, fcell] == v)[0][0]) for v in m.facets[:, f]]
            Xc = X[:, kc, l] if percell else X[:, l]
            Xfc = Xf[:, kf, l] if fper else Xf[:, l]
            ia = kc if mode == 'ctor' else cell            # index into mp.A: compacted when tind was given at construction
            impl = [mp.A[:, :, ia], mp.b[:, ia], [mp.detA[ia]], x[:, kc, l], mpf.B[:, :, f], mpf.c[:, f], g[:, kf, l],
                    mp.invA[:, :, ia], Xb[:, kc, l], [dG[kf, l] ** 2], nrm[:, kf, l]]
            same = (np.array_equal(DF[:, :, kc, l], mp.A[:, :, ia]) and np.array_equal(iDF[:, :, kc, l], mp.invA[:, :, ia])
                    and dDF[kc, l] == mp.detA[ia] and dG[kf, l] == mpf.detB[f])
            if not same:
                ctx.fail(f'affine-DF-broadcast:d={d}', 'DF/invDF/detDF/detDG are not the broadcast A/invA/detA/detB',
                         {'d': d, 'mode': mode, 'cell': cell, 'point': l})
            inp = (f'({cnat(d)}, {qlist(P)}, {qlist(Xc)}, {qlist(xq[:, kc, l])}, {qlist(P2)}, {cnats(q)}, {cnat(s)}, {qlist(Xfc)})')
            out = clist([qlist(v) for v in impl])
            cases.append((inp, out, ('affine', d, mode, percell, fper, find is None, P.tolist(), q, s)))
            ctx.hist('affine_dim', d)
            ctx.hist('affine_tind_mode', mode)
            ctx.hist('affine_point_layout', 'per-cell' if percell else 'shared')
            ctx.hist('affine_orientation', 'neg' if mp.detA[ia] < 0 else 'pos')
            ctx.hist('facet_slot_and_order', f'd={d}:s={s}:q={q}')
    ctx.sample({'kind': 'affine correspondence', 'case': repr(cases[0][2]), 'impl': cases[0][1][:300]})
    ctx.corr('affine', 'From Coq Require Import List Arith Bool QArith Qabs.\nRequire Import Base.C20_Ring Model.C20_Tensor Model.C10_Map Gen.C10Gen.',
             'run_case', 'check', cases, defs=CORR_DEFS, nontrivial=lambda r: r[1] >= 2)
    return cases


def iso_correspondence(ctx, rng):
    """MappingIsoparametric with the P1 element on the same kind of meshes: every delivered quantity must be the one of
    the exact affine model (C10_affine_iso_agree makes the two models the same term)"""
    from skfem.mapping import MappingIsoparametric
    cases = []
    for it in range(ctx.n(8, 40)):
        d = 2 + it % 2
        m = int_mesh(rng, d)
        nt, nf = m.t.shape[1], m.facets.shape[1]
        mi = MappingIsoparametric(m, m.elem(), m.bndelem)
        tind = None if rng.integers(0, 2) else rng.choice(nt, size=int(rng.integers(1, nt + 1)), replace=True).astype(np.int32)
        cells = np.arange(nt) if tind is None else tind
        npts = int(rng.integers(1, 4))
        percell = bool(rng.integers(0, 2))

        def inside(shape):           # dyadic points strictly inside the reference simplex (coordinates k/16, sum <= 9/16)
            return rng.integers(1, 4, size=(d,) + shape) / 16.
        try:
            X = inside((len(cells), npts) if percell else (npts,))
            X2 = inside((len(cells), npts))
            x = mi.F(X, tind=tind)
            xq = mi.F(X2, tind=tind)
            Xb = mi.invF(xq, tind=tind)
            DF, iDF, dDF = mi.DF(X, tind=tind), mi.invDF(X, tind=tind), mi.detDF(X, tind=tind)
            find = None if rng.integers(0, 2) else rng.choice(nf, size=int(rng.integers(1, nf + 1)), replace=False).astype(np.int32)
            facets = np.arange(nf) if find is None else find
            fper = bool(rng.integers(0, 2))
            Xf = rng.integers(1, 4, size=(d - 1, len(facets), npts) if fper else (d - 1, npts)) / 16.     # inside the reference facet
            g, dG = mi.G(Xf, find=find), mi.detDG(Xf, find=find)
            tn = m.f2t[0, facets]
            Y0 = mi.invF(g, tind=tn)
            nrm = mi.normals(Y0, tn, facets, m.t2f)
            bJ = np.array([[mi.bndJ(i, j, Xf, find) for j in range(d - 1)] for i in range(d)])
        except Exception as e:  # noqa: BLE001 - an exception of the code under test on a valid input is a failing input
            ctx.fail(f'iso-exception:d={d}', f'MappingIsoparametric (P1, straight integer mesh) raises {type(e).__name__}: {e}',
                     {'d': d, 'p': m.p.tolist(), 't': m.t.tolist(), 'tind': None if tind is None else tind.tolist(), 'per_cell_points': percell})
            continue
        zero = np.zeros((d, 1))
        for _ in range(ctx.n(5, 8)):
            kc, l = int(rng.integers(0, len(cells))), int(rng.integers(0, npts))
            cell = int(cells[kc])
            P = m.p[:, m.t[:, cell]].T
            kf = int(rng.integers(0, len(facets)))
            f = int(facets[kf])
            fcell = int(m.f2t[0, f])
            P2 = m.p[:, m.t[:, fcell]].T
            s = int(np.nonzero(m.t2f[:, fcell] == f)[0][0])
            q = [int(np.nonzero(m.t[:, fcell] == v)[0][0]) for v in m.facets[:, f]]
            Xc = X[:, kc, l] if percell else X[:, l]
            Xfc = Xf[:, kf, l] if fper else Xf[:, l]
            b0 = mi.F(zero, tind=np.array([cell], dtype=np.int32))[:, 0, 0]
            c0 = mi.G(np.zeros((d - 1, 1)), find=np.array([f], dtype=np.int32))[:, 0, 0]
            impl = [DF[:, :, kc, l], b0, [dDF[kc, l]], x[:, kc, l], bJ[:, :, kf, l], c0, g[:, kf, l],
                    iDF[:, :, kc, l], Xb[:, kc, l], [dG[kf, l] ** 2], nrm[:, kf, l]]
            inp = (f'({cnat(d)}, {qlist(P)}, {qlist(Xc)}, {qlist(xq[:, kc, l])}, {qlist(P2)}, {cnats(q)}, {cnat(s)}, {qlist(Xfc)})')
            cases.append((inp, clist([qlist(v) for v in impl]), ('iso-P1', d, tind is None, percell, fper, find is None, P.tolist(), q, s)))
            ctx.hist('iso_dim', d)
            ctx.hist('iso_point_layout', 'per-cell' if percell else 'shared')
    ctx.corr('iso_p1', 'From Coq Require Import List Arith Bool QArith Qabs.\nRequire Import Base.C20_Ring Model.C20_Tensor Model.C10_Map Gen.C10Gen.',
             'run_case', 'check', cases, defs=CORR_DEFS, nontrivial=lambda r: r[1] >= 2)
    return cases


POLY_DEFS = '''
Close Scope Q_scope.
Definition close (m r : Q) : bool := Qle_bool (Qabs (m - r)) ((1 # 1099511627776) * (1 + Qabs m))%Q.
Definition closes := list_eqb close.
Definition FJ (d : nat) (phis : list poly) (dphis : list (list poly)) (pt : nat -> Q) : list Q :=
  map (fun i => qeval (isoF_poly d phis i) pt) (seq 0 d) ++ map (fun ij => qeval (isoJ_poly d dphis (fst ij) (snd ij)) pt) (idx2 d).
'''


def poly_correspondence(ctx, rng, info):
    """the polynomial model (basis expansion with the regenerated lbasis polynomials) evaluated by vm_compute at the
    reference point and node coordinates of real cells vs MappingIsoparametric.F / DF on distorted and curved meshes with
    dyadic node coordinates"""
    import skfem as fe
    from skfem.mapping import MappingIsoparametric
    names = list(info)
    cases = []
    for tag, name in enumerate(names):
        M = getattr(fe, info[name]['mesh'])
        m0 = M()
        if m0.t.shape[1] < 2 and hasattr(m0, 'refined') and info[name]['mesh'] in ('MeshLine1', 'MeshTri1', 'MeshQuad1', 'MeshTet1', 'MeshHex1'):
            m0 = m0.refined(1)
        d = info[name]['d']
        for rep in range(ctx.n(1, 4)):
            p = np.round(m0.doflocs * 8) / 8. + rng.integers(-2, 3, size=m0.doflocs.shape) / 32.
            m = M(p, m0.t)
            mi = MappingIsoparametric(m, m.elem(), m.bndelem)
            npts = 3
            X = rng.integers(0, 5, size=(d, npts)) / 4.
            try:
                F, DF = mi.F(X), mi.DF(X)
            except Exception as e:  # noqa: BLE001
                ctx.fail(f'iso-exception:{name}', f'MappingIsoparametric on {info[name]["mesh"]} raises {type(e).__name__}: {e}',
                         {'mesh': info[name]['mesh'], 'doflocs': p.tolist(), 't': m.t.tolist()})
                continue
            edofs = m.dofs.element_dofs
            for _ in range(ctx.n(4, 8)):
                c, l = int(rng.integers(0, m.t.shape[1])), int(rng.integers(0, npts))
                nodes = p[:, edofs[:, c]].T                      # node k, coordinate i
                out = list(F[:, c, l]) + list(DF[:, :, c, l].reshape(-1))
                cases.append((f'({cnat(tag)}, {qlist(X[:, l])}, {qlist(nodes)})', qlist(out), ('poly', name, nodes.tolist(), X[:, l].tolist())))
                ctx.hist('poly_model_cell', name)
    disp = '\n'.join(f'  | {t}%nat => FJ {info[n]["d"]} {n}_phi {n}_dphi pt' for t, n in enumerate(names))
    defs = POLY_DEFS + ('Definition run_poly (c : nat * list Q * list Q) : list Q :=\n  let \'(tag, X, nodes) := c in let pt := lpt (X ++ nodes) in\n'
                        '  match tag with\n' + disp + '\n  | _ => [] end.\n')
    ctx.corr('iso_polynomial_model', 'From Coq Require Import List Arith Bool QArith Qabs.\nRequire Import Base.C09_Poly Base.C09_PolyQ '
             'Model.C10_IsoPoly Gen.C10GenPoly.', 'run_poly', 'closes', cases, defs=defs, nontrivial=lambda r: True)


# ------------------------------------------------------------------------------------------- the check

def run(ctx):
    ctx.trusted += ['numpy.einsum on the subscripts of MappingAffine.F/invF/DF/invDF/G/normals and the .T broadcasting idiom '
                    '(recognised by exact text, corresponded)', 'the square root and division of the normalisation of normals and of detB '
                    '(runtime; the theorems speak about detB^2 and the unnormalised normal)']
    ctx.assumptions += ['theorems are over exact arithmetic in a field; binary64 rounding is not modelled',
                        'RUNTIME, oracle only: convergence of the clipped Newton iteration of MappingIsoparametric.invF; sqrt/division of the '
                        'normalisation of normals and of detDG; outward orientation of normals on hexahedra / curved cells / non-convex quadrilaterals '
                        '(strictly convex quadrilaterals are proved); facet maps of Hex2 and prisms; positivity of detDF on hexahedral and curved meshes',
                        'curved and multilinear cells: J = derivative of F, facet map = restriction of F, normal orthogonal to the facet are proved as polynomial identities; the x.n identity on them is oracle only',
                        'mesh.facets[:, f] lists vertices of local facet t2f[s, cell] of the adjacent cell (C11); the facet theorem '
                        'covers every ordering of every local facet']
    ctx.cov['rule'] = ('affine correspondence: random integer-coordinate line/triangle/tetrahedron meshes (Delaunay, random renumbering => '
                       'both orientations) x tind None / subset / construction-time subset x shared / per-cell points x find None / subset; '
                       'oracle: every mesh class incl. curved second-order; non-trivial = dim >= 2; distinct by content')
    ctx.extra['exhaustive_note'] = ('finite enumerations done inside Coq: every ordering of the vertices of every local facet '
                               '(RefLine 2, RefTri 3 facets x 2 orders, RefTet 4 facets x 6 orders), every local slot for the normals, '
                               'dimensions 1-3; each instance is a ring/field identity valid for ALL coordinates')
    rng = np_seed(ctx)
    ctx.ensure_static()
    gen_ok = True
    try:
        txt, tables = c10_tr.generate()
        ctx.write_gen('C10Gen', txt)
    except TranslateError as e:
        ctx.broke('translator', 'c10_tr.generate(mapping_affine.py, mapping_isoparametric.py, refdom.py)', e)
        gen_ok = False
    poly_info = None
    bridge_future = None
    if gen_ok:
        try:
            from .. import c10_poly
            ptxt, poly_info = c10_poly.generate()
            ctx.write_gen('C10GenPoly', ptxt)
            ctx.write_gen('C10GenPolyH', poly_info.pop('_heavy'))
        except TranslateError as e:
            ctx.broke('translator', 'c10_poly.generate(lbasis of the mesh elements, refdom, doflocs)', e)
    if gen_ok:
        dyn = ctx.copy_dyn()
        first = ['gen/C10Gen.v', 'dyn/C10_Tac.v']
        if ctx.compile_dyn(first):
            last = [d for d in dyn if 'RealBridge' in d]          # imports Gen.C10GenPoly and Dyn.C10_Iso
            compile_parallel(ctx, [d for d in dyn if d not in first and d not in last] + (['gen/C10GenPoly.v'] if poly_info else []))
            if poly_info and last:
                from concurrent.futures import ThreadPoolExecutor
                bridge_pool = ThreadPoolExecutor(1)                 # coqc subprocess: runs beside the property file and the correspondences
                bridge_future = bridge_pool.submit(lambda: compile_parallel(ctx, ['gen/C10GenPolyH.v']) and compile_parallel(ctx, last))
    ctx.prove()
    if gen_ok:
        affine_correspondence(ctx, rng)
        iso_correspondence(ctx, rng)
        if poly_info:
            poly_correspondence(ctx, rng, poly_info)
    from .. import c10_oracle
    c10_oracle.run(ctx, rng)
    if bridge_future is not None:
        bridge_future.result()


def replay(ctx, data):
    ctx.log('replaying', data.get('key'))
    run(ctx)
