"""C13 — adaptive refinement: conforming, domain-preserving for every marked set.

tie T2 : Gen/C13Gen.v regenerated from MeshTri1._adaptive_sort_mesh / _adaptive_find_facets / _adaptive_split_elements /
         _adaptive, MeshLine1._adaptive, MeshTet1._adaptive (bisection templates, tag handling) and refdom.py
proofs : coq/proofs/C13_AdaptiveProofs.v (closure loop: termination + least fixpoint for every mesh and marked set;
         positions of all children; new nodes; traces agree), coq/dyn/C13/C13Tie.v (finite checks on the generated
         masks / templates / index map), statements in coq/props/C13.v.  Tetrahedral work-list loop: NOT proved (partial).
tie T3 : correspondence of the model (closure marks, p, t, subdomains) with the real static methods and refined(marked)
oracle : exact-integer check of the statement on the real code: ALL marked subsets of small meshes, mixed sequences
"""
import itertools
from dataclasses import replace as dc_replace
from fractions import Fraction

import numpy as np

from .. import c12_exact as ex
from .. import c12_meshes as gm
from .. import c13_src
from ..core import TranslateError, clist, cmat_nat, cnats, np_seed
from .c12 import WarnCatcher, case_data, cpts, ctab, ctables

IMPORTS = ('From Coq Require Import List Arith Bool ZArith QArith.\n'
           'Require Import Model.C12_Refine Model.C13_Adaptive Gen.C13Gen.')

DEFS = '''
Local Open Scope nat_scope.
Definition out_t := (bool * list point * list (list nat) * list nat * list nat)%type.
Definition out_eqb (a b : out_t) : bool :=
  let '(o1, p1, t1, s1, m1) := a in let '(o2, p2, t2, s2, m2) := b in
  Bool.eqb o1 o2 && qss_eqb p1 p2 && natss_eqb t1 t2 && nats_eqb s1 s2 && nats_eqb m1 m2.
Definition inp_t := (nat * list point * tables * bool * list nat * list nat)%type.
Definition mk_inp (kind : nat) (p : list point) (tb : tables) (srt : bool) (marked subs : list nat) : inp_t :=
  (kind, p, tb, srt, marked, subs).
Definition mk_out (ok : bool) (p : list point) (t : list (list nat)) (s m : list nat) : out_t := (ok, p, t, s, m).
Definition b2n (b : bool) : nat := if b then 1 else 0.

Definition run_tri (p : list point) (tb : tables) (srt : bool) (marked subs : list nat) : out_t :=
  match find_facets gen_rule_srcs gen_rule_dst (length (tb_facets tb)) (tb_t2f tb) marked with
  | None => (false, [], [], [], [])
  | Some F =>
      let s := split_elements gen_split_blocks p tb F in
      (true, as_p s, (if srt then map sort_nat (as_t s) else as_t s),
       propagate_adaptive gen_split_blocks gen_split_submap (as_cls s) subs, map b2n F)
  end.

Definition run_line (p : list point) (tb : tables) (marked0 subs : list nat) : out_t :=
  let marked := if gen_line_unique then dedup_sorted (sort_nat marked0) else marked0 in
  let r := line_adaptive (gen_line_mid_base p (tb_t tb)) p (tb_t tb) marked in
  (true, fst r, snd r,
   dedup_sorted (sort_nat (flat_map (gen_line_adapt_children (length (tb_t tb)) marked) subs)), []).

Definition run (inp : inp_t) : out_t :=
  let '(kind, p, tb, srt, marked, subs) := inp in
  match kind with 0 => run_line p tb marked subs | _ => run_tri p tb srt marked subs end.
'''


# ------------------------------------------------------------------------------------------ correspondence

def corr_cases(ctx, rng, n):
    from skfem import MeshTri1
    cases = []
    while len(cases) < n:
        kind = 'line' if rng.random() < 0.25 else 'tri'
        g = gm.GEN[kind](rng)
        if ex.input_problems(kind, g['p'], g['t']):
            continue
        m = gm.build(kind, g['p'], g['t'], g.get('sort_t'))
        if rng.random() < 0.3:
            m = m.refined() if rng.random() < 0.5 else m.refined(np.array([int(rng.integers(0, m.t.shape[1]))]))
        if kind == 'line' and rng.random() < 0.5:
            # a point array with unused trailing points (N50): the new midpoints must be numbered from p.shape[1]
            extra = np.array([[float(40 + 3 * i) for i in range(int(rng.integers(1, 4)))]])
            m = type(m)(np.hstack((m.p, extra)), m.t, validate=False)
        nt = m.t.shape[1]
        if nt > 24:
            continue
        marked = gm.random_tags(rng, nt)
        if rng.random() < 0.5:
            marked = rng.permutation(marked)
        subs = gm.random_tags(rng, nt)
        mm = m.with_subdomains({'a': subs})
        r = mm.refined(np.asarray(marked, dtype=np.int64))
        if r.subdomains is None:
            ctx.fail(f'adaptive-subdomains-dropped:{type(m).__name__}', 'refined(marked) dropped the named subdomains',
                     case_data(kind, m, subs, marked=[int(v) for v in marked]))
            continue
        sub_out = sorted(set(int(v) for v in r.subdomains['a']))
        if kind == 'tri':
            ts = MeshTri1._adaptive_sort_mesh(m.p, m.t)
            sm = dc_replace(m, t=ts, sort_t=False)
            marks = [int(v) for v in MeshTri1._adaptive_find_facets(sm, np.asarray(marked, dtype=np.int64))]
            tabs = ctables(sm)
        else:
            marks = []
            tabs = ctables(m)
        inp = '(mk_inp %d %s %s %s %s %s)' % (0 if kind == 'line' else 1, cpts(m.p), tabs, 'true' if m.sort_t else 'false',
                                             cnats([int(v) for v in marked]), cnats(subs.tolist()))
        out = '(mk_out true %s %s %s %s)' % (cpts(r.p), ctab(r.t), cnats(sub_out), cnats(marks))
        cases.append((inp, out, {**case_data(kind, m, subs), 'marked': [int(v) for v in marked]}))
    return cases


# ------------------------------------------------------------------------------------------ tetrahedral work-list loop

TET_IMPORTS = ('From Coq Require Import List Arith Bool ZArith QArith.\n'
               'Require Import Model.C12_Refine Model.C13_Adaptive Model.C13_TetLoop Gen.C13Gen.')
TET_DEFS = '''
Local Open Scope nat_scope.
Definition out_t := (bool * list point * list (list nat) * list nat * list nat)%type.
Definition out_eqb (a b : out_t) : bool :=
  let '(o1, p1, t1, s1, m1) := a in let '(o2, p2, t2, s2, m2) := b in
  Bool.eqb o1 o2 && qss_eqb p1 p2 && natss_eqb t1 t2 && nats_eqb s1 s2 && nats_eqb m1 m2.
Definition inp_t := (list point * list (list nat) * list nat * list (list (list nat)) * list nat)%type.
Definition mk_inp (p : list point) (t : list (list nat)) (marked : list nat) (perms : list (list (list nat))) (subs : list nat)
  : inp_t := (p, t, marked, perms, subs).
Definition mk_out (ok : bool) (p : list point) (t : list (list nat)) (s m : list nat) : out_t := (ok, p, t, s, m).
Definition run (inp : inp_t) : out_t :=
  let '(p, t, marked, perms, subs) := inp in
  match tet_adaptive gen_tet_bisect p t marked perms with
  | None => (false, [], [], [], [])
  | Some (st, hist) => (true, ts_p st, ts_t st, tet_subdomain (ts_par st) subs, flat_map (fun m => length m :: m) hist)
  end.
'''


def record_tet(m, marked, subs):
    """run the real MeshTet1._adaptive and record what _adaptive_sort_mesh did in every sweep"""
    from skfem import MeshTet1
    rec = []
    orig = MeshTet1._adaptive_sort_mesh

    def wrap(self, p, t, mk):
        T = orig(self, p, t, mk)
        rec.append(([int(v) for v in mk], T[:, mk].T.tolist()))
        return T
    MeshTet1._adaptive_sort_mesh = wrap
    try:
        r = m.with_subdomains({'a': np.asarray(subs, dtype=np.int64)}).refined(np.asarray(marked, dtype=np.int64))
    finally:
        MeshTet1._adaptive_sort_mesh = orig
    return r, rec


def tet_cases(ctx, rng):
    cases = []
    for _ in range(ctx.n(4, 10)):
        g = small_mesh('tet', rng, ctx.n(4, 6), ntmin=2)
        if g is None:
            continue
        m = gm.build('tet', g['p'], g['t'])
        nt = m.t.shape[1]
        subs = gm.random_tags(rng, nt)
        for sub in all_subsets(nt):
            if not sub:
                continue
            mk = rng.permutation(sub) if rng.random() < 0.3 else np.array(sub, dtype=np.int64)
            r, rec = record_tet(m, mk, subs)
            if r.subdomains is None:
                continue
            hist = []
            for mset, _ in rec:
                hist += [len(mset)] + mset
            inp = '(mk_inp %s %s %s %s %s)' % (cpts(m.p), ctab(m.t), cnats([int(v) for v in mk]),
                                                clist([cmat_nat(cells) for _, cells in rec]), cnats(subs.tolist()))
            out = '(mk_out true %s %s %s %s)' % (cpts(r.p), ctab(r.t), cnats(sorted(int(v) for v in r.subdomains['a'])),
                                                   cnats(hist))
            cases.append((inp, out, {**case_data('tet', m, subs), 'marked': [int(v) for v in mk], 'sweeps': len(rec)}))
    return cases


# ------------------------------------------------------------------------------------------ oracle

def check_adaptive(ctx, kind, m, marked, subs, bnds, label, order=1, disjoint=True):
    """one adaptive step on the real code, checked against the statement of C13 exactly"""
    cname = type(m).__name__
    marked = np.asarray(marked, dtype=np.int64)
    tags_s = {k: np.asarray(v, dtype=np.int64) for k, v in subs.items()}
    tags_b = {k: np.asarray(v, dtype=np.int64) for k, v in bnds.items()}
    mm = m
    if tags_s:
        mm = mm.with_subdomains(tags_s)
    if tags_b:
        mm = mm.with_boundaries(tags_b)
    data = case_data(kind, m, label=label, marked=marked.tolist(), subdomains={k: v.tolist() for k, v in tags_s.items()},
                     boundaries={k: v.tolist() for k, v in tags_b.items()}, order=order)
    with WarnCatcher() as wc:
        try:
            r = mm.refined(marked)
        except Exception as e:
            ctx.fail(f'adaptive-exception:{cname}', f'refined(marked) raised {type(e).__name__}: {e}', data)
            return None
    nv = int(np.max(m.t)) + 1 if order == 2 else m.p.shape[1]
    nvr = int(np.max(r.t)) + 1 if order == 2 else r.p.shape[1]
    dup = len(set(marked.tolist())) != len(marked)
    tagkey = 'adaptive'
    unused = sorted(set(range(m.p.shape[1])) - set(int(v) for v in m.t.ravel())) if order == 1 else []
    if order == 1 and not unused and not r.is_valid() and not dup:
        ctx.fail(f'adaptive-invalid:{cname}', 'refined mesh fails is_valid()', data)
    if order == 2 and not r.is_valid():      # is_valid supports quadratic meshes since N38
        ctx.fail(f'adaptive-invalid:{cname}', 'refined second-order mesh fails is_valid()', data)
    st = ex.Step(kind, m.p[:, :nv], m.t, r.p[:, :nvr], r.t, uniform=False, marked=sorted(set(marked.tolist())), disjoint=disjoint,
                 unused_ok=unused)
    ctx.count(('adaptive', kind, cname, m.p.tolist(), m.t.tolist(), marked.tolist(),
               sorted((k, v.tolist()) for k, v in tags_s.items())),
              nontrivial=m.t.shape[1] >= 2 and 0 < len(set(marked.tolist())) < m.t.shape[1])
    ctx.hist('class', cname)
    ctx.hist('cells', m.t.shape[1])
    ctx.hist('marked', len(set(marked.tolist())))
    if dup and st.problems:
        # an index array with repeated entries still denotes a set of cells: one key for this input class
        ctx.fail(f'adaptive-duplicate-marks:{cname}', 'marked index array with a repeated entry: ' + st.problems[0][1],
                 {**data, 'problems': [t for t, _, _ in st.problems]})
        return None
    for tag, msg, d in st.problems:
        ctx.fail(f'{tagkey}-{tag}:{cname}', msg, {**data, **d})
    if st.problems:
        return None
    if tags_s:
        if r.subdomains is None or any(k not in r.subdomains for k in tags_s):
            # C13 grants no escape: named subdomains must still cover the same regions after refined(marked)
            warned = any('ubdomains invalidated' in w for w in wc.msgs)
            ctx.fail(f'adaptive-subdomains-dropped:{cname}',
                     'named subdomains dropped by refined(marked) (' + ('with' if warned else 'WITHOUT') + ' a warning)',
                     {**data, 'warned': warned})
        else:
            for name, ixs in tags_s.items():
                want = st.expected_subdomain(ixs)
                got = sorted(int(v) for v in r.subdomains.get(name, []))
                if got != want:
                    ctx.fail(f'adaptive-subdomains:{cname}',
                             f'subdomain {name!r} after refined(marked) does not cover the region of the tagged cells '
                             f'(tagged {ixs.tolist()[:8]}, marked {marked.tolist()[:8]}: wrongly tagged new cells '
                             f'{sorted(set(got) - set(want))[:8]}, untagged children {sorted(set(want) - set(got))[:8]})',
                             {**data, 'name': name, 'got': got, 'expected': want})
                    break
    if tags_b:
        if r.boundaries is None:
            if not any('oundaries invalidated' in w for w in wc.msgs):
                ctx.fail(f'adaptive-boundaries-dropped-silently:{cname}', 'named boundaries dropped without a warning', data)
        else:
            for name, ixs in tags_b.items():
                want = st.expected_boundary_sets(m.facets, ixs)
                nf = r.facets.shape[1]
                ids = [int(f) for f in r.boundaries.get(name, [])]
                got = set(tuple(sorted(int(v) for v in r.facets[:, f])) for f in ids if f < nf)
                if got != want or any(f >= nf for f in ids):
                    ctx.fail(f'adaptive-boundaries:{cname}',
                             f'boundary {name!r} after refined(marked) designates other facets than before (kept stale?)',
                             {**data, 'name': name, 'got': sorted(got), 'expected': sorted(want)})
                    break
    return r


def check_line_unused(ctx, mu, marked, subs):
    """segments with unused trailing points: same intervals and tags as for the mesh without those points"""
    nused = int(np.max(mu.t)) + 1
    m0 = type(mu)(mu.p[:, :nused], mu.t)
    mk = np.array(marked, dtype=np.int64)
    subs = np.asarray(subs, dtype=np.int64)
    data = case_data('line', mu, subs, marked=[int(v) for v in marked], label='unused-trailing-points')
    ctx.count(('line-unused', mu.p.tolist(), mu.t.tolist(), list(marked)), nontrivial=mu.t.shape[1] >= 2)
    try:
        R0 = m0.with_subdomains({'a': subs}).refined(mk)
        R = mu.with_subdomains({'a': subs}).refined(mk)
    except Exception as e:
        ctx.fail('adaptive-unused-points:MeshLine1', f'refined(marked) raised {type(e).__name__}: {e}', data)
        return False

    def iv(M):
        return [tuple(sorted(M.p[0, c].tolist())) for c in M.t.T]
    tags = (R.subdomains is not None and R0.subdomains is not None
            and np.array_equal(np.sort(R.subdomains['a']), np.sort(R0.subdomains['a'])))
    if iv(R) != iv(R0) or not tags or not np.array_equal(R.p[:, :mu.p.shape[1]], mu.p):
        ctx.fail('adaptive-unused-points:MeshLine1',
                 'segments with unused trailing points: refined(marked) gives other intervals / tags than for the same '
                 f'mesh without them (cells {iv(R)[:6]} expected {iv(R0)[:6]})', data)
        return False
    return True


def check_marked_forms(ctx, kind, m, rng):
    """the empty marked set and one-element sets in every form a caller may write them: no exception; the empty set returns
    the input mesh; every form of a one-element set gives the same mesh"""
    cname = type(m).__name__
    forms = [('list', []), ('tuple', ()), ('intarray', np.array([], dtype=np.int64)), ('floatarray', np.array([]))]
    for fname, mk in forms:
        key = f'adaptive-empty-marked-floatarray:{cname}' if fname == 'floatarray' else f'adaptive-empty-marked:{cname}'
        data = case_data(kind, m, marked=[], form=fname, label='empty-marked')
        ctx.count(('empty-marked', cname, fname, m.t.tolist()), nontrivial=False)
        try:
            r = m.refined(mk)
        except Exception as e:
            ctx.fail(key, f'refined({mk!r}) (empty marked set as {fname}) raised {type(e).__name__}: {e}', data)
            continue
        # same points, same cells in the same order (MeshTri1 may re-order the vertices inside a cell: longest edge last)
        if not (np.array_equal(r.p, m.p) and np.array_equal(np.sort(r.t, axis=0), np.sort(m.t, axis=0))
                and r.is_valid() == m.is_valid()):
            ctx.fail(key, f'refined({mk!r}) (empty marked set as {fname}) is not the input mesh', data)
    # boolean masks select the same cells as the index list
    nt = m.t.shape[1]
    for sub in ([], list(range(nt)), sorted(int(v) for v in gm.random_tags(rng, nt)), sorted(int(v) for v in gm.random_tags(rng, nt))):
        mask = np.zeros(nt, dtype=bool)
        mask[sub] = True
        data = case_data(kind, m, marked=sub, form='boolmask', label='boolean-mask')
        ctx.count(('bool-mask', cname, m.t.tolist(), sub), nontrivial=0 < len(sub) < nt)
        try:
            ra = m.refined(mask)
            rb = m.refined(np.array(sub, dtype=np.int64))
        except Exception as e:
            ctx.fail(f'adaptive-boolean-mask:{cname}', f'refined(mask) raised {type(e).__name__}: {e}', data)
            continue
        if not (np.array_equal(ra.p, rb.p) and np.array_equal(ra.t, rb.t)):
            ctx.fail(f'adaptive-boolean-mask:{cname}', f'refined(boolean mask of {sub}) differs from refined({sub})', data)
    k = int(rng.integers(0, m.t.shape[1]))
    ref = None
    for fname, mk in [('intarray', np.array([k], dtype=np.int64)), ('list', [k]), ('tuple', (k,)), ('int32array', np.array([k], dtype=np.int32))]:
        data = case_data(kind, m, marked=[k], form=fname, label='one-element-marked')
        ctx.count(('one-marked', cname, fname, m.t.tolist(), k), nontrivial=False)
        try:
            r = m.refined(mk)
        except Exception as e:
            ctx.fail(f'adaptive-one-marked:{cname}', f'refined({mk!r}) raised {type(e).__name__}: {e}', data)
            continue
        if ref is None:
            ref = r
        elif not (np.array_equal(r.p, ref.p) and np.array_equal(r.t, ref.t)):
            ctx.fail(f'adaptive-one-marked:{cname}', f'refined({mk!r}) differs from refined(np.array([{k}]))', data)


def check_theta(ctx, kind, m, rng):
    """utils.adaptive_theta with exactly ONE cell above the threshold (and with none): the result is a 1-d index array and
    refined(adaptive_theta(est, theta)) subdivides exactly what refined(np.array([k])) subdivides"""
    from skfem.utils import adaptive_theta
    cname = type(m).__name__
    nt = m.t.shape[1]
    k = int(rng.integers(0, nt))
    est = np.full(nt, 0.25)
    est[k] = 4.0
    for label, mk in (('default-max', lambda: adaptive_theta(est, 0.5)), ('explicit-max', lambda: adaptive_theta(est, 0.5, max=4.0)),
                      ('theta', lambda: adaptive_theta(est, theta=0.75))):
        data = case_data(kind, m, marked=[k], estimator=est.tolist(), form=label, label='adaptive-theta-single')
        ctx.count(('theta-single', cname, label, m.t.tolist(), k), nontrivial=nt >= 2)
        try:
            marked = mk()
        except Exception as e:
            ctx.fail('adaptive_theta-single-hit', f'adaptive_theta raised {type(e).__name__}: {e}', data)
            continue
        if np.ndim(marked) != 1 or [int(v) for v in np.atleast_1d(marked)] != [k]:
            ctx.fail('adaptive_theta-single-hit', f'adaptive_theta with one cell ({k}) above the threshold returned {marked!r} '
                     f'(ndim {np.ndim(marked)}), not the index array [{k}]', data)
        try:
            ra = m.refined(marked)
            rb = m.refined(np.array([k], dtype=np.int64))
        except Exception as e:
            ctx.fail(f'adaptive_theta-single-hit:{cname}', f'refined(adaptive_theta(...)) raised {type(e).__name__}: {e}', data)
            continue
        if not (ra.p.shape == rb.p.shape and np.array_equal(ra.p, rb.p) and np.array_equal(ra.t, rb.t)):
            ctx.fail(f'adaptive_theta-single-hit:{cname}',
                     f'refined(adaptive_theta(est)) with only cell {k} above the threshold does not subdivide that cell and its '
                     f'closure: {ra.t.shape[1]} cells instead of {rb.t.shape[1]}', data)
    # no cell above the threshold: an empty 1-d selection, the mesh is returned unchanged
    try:
        none = adaptive_theta(est, 0.5, max=100.0)
        r0 = m.refined(none)
        if np.ndim(none) != 1 or len(none) != 0 or r0.t.shape != m.t.shape:
            ctx.fail('adaptive_theta-no-hit', f'adaptive_theta with no cell above the threshold returned {none!r}', case_data(kind, m))
    except Exception as e:
        ctx.fail('adaptive_theta-no-hit', f'{type(e).__name__}: {e}', case_data(kind, m))


def all_subsets(n):
    for k in range(n + 1):
        for c in itertools.combinations(range(n), k):
            yield list(c)


def small_mesh(kind, rng, ntmax, ntmin=1):
    for _ in range(400):
        g = gm.GEN[kind](rng)
        if ntmin <= g['t'].shape[1] <= ntmax and not ex.input_problems(kind, g['p'], g['t']):
            return g
    return None


def run_oracle(ctx):
    import skfem
    from skfem.utils import adaptive_theta
    rng = np_seed(ctx, 13)
    # (a) ALL marked subsets of small meshes
    plan = {'line': (ctx.n(5, 8), ctx.n(6, 8)), 'tri': (ctx.n(12, 16), ctx.n(8, 10)), 'tet': (ctx.n(8, 12), ctx.n(5, 6))}
    exh = {}
    for kind, (nmesh, ntmax) in plan.items():
        for _ in range(nmesh):
            g = small_mesh(kind, rng, ntmax, ntmin=min(3, ntmax) if rng.random() < 0.8 else 1)
            if g is None:
                continue
            m = gm.build(kind, g['p'], g['t'], g.get('sort_t'))
            nt, nf = m.t.shape[1], m.facets.shape[1]
            subs = {'a': gm.random_tags(rng, nt)}
            bnds = {'l': gm.random_tags(rng, nf)}
            for sub in all_subsets(nt):
                mk = rng.permutation(sub) if rng.random() < 0.3 else np.array(sub, dtype=np.int64)
                check_adaptive(ctx, kind, m, mk, subs, bnds, 'exhaustive')
            exh.setdefault(kind, []).append({'cells': nt, 'subsets': 2 ** nt})
    ctx.extra['exhaustive_marked_subsets'] = exh
    # (b) mixed sequences of 3-6 adaptive / uniform steps
    nseq = ctx.n(20, 60)
    for kind in ('line', 'tri', 'tet'):
        for _ in range(nseq if kind != 'tet' else max(3, nseq // 2)):
            g = small_mesh(kind, rng, 8 if kind != 'tet' else 6)
            if g is None:
                continue
            cur = gm.build(kind, g['p'], g['t'], g.get('sort_t'))
            subs = {'a': gm.random_tags(rng, cur.t.shape[1])}
            nsteps = int(rng.integers(3, 7))
            hist = []
            for step in range(nsteps):
                if cur.t.shape[1] > (150 if kind != 'tet' else 90):
                    break
                if rng.random() < 0.3 and cur.t.shape[1] * ex.NCHILD[kind] <= (300 if kind != 'tet' else 200):
                    from .c12 import check_one_step
                    base = type(cur)(cur.p, cur.t, **({'sort_t': cur.sort_t} if kind == 'tri' else {}))
                    r = check_one_step(ctx, kind, base, subs, {}, 'seq:' + ''.join(hist) + 'u')
                    hist.append('u')
                else:
                    nt = cur.t.shape[1]
                    if rng.random() < 0.3:
                        marked = adaptive_theta(rng.random(nt), theta=float(rng.choice([0.3, 0.5, 0.8])))
                        if np.ndim(marked) != 1:
                            ctx.fail('adaptive_theta-single-hit', f'adaptive_theta returned an array of dimension {np.ndim(marked)}: '
                                     f'{marked!r}', {'nt': nt})
                            break
                        if len(marked) == 0 or marked.max() >= nt:
                            ctx.fail('adaptive_theta-empty', 'adaptive_theta returned no or invalid cells', {'nt': nt})
                            break
                    else:
                        marked = gm.random_tags(rng, nt)
                    base = type(cur)(cur.p, cur.t, **({'sort_t': cur.sort_t} if kind == 'tri' else {}))
                    r = check_adaptive(ctx, kind, base, marked, subs, {}, 'seq:' + ''.join(hist) + 'a',
                                       disjoint=(kind != 'tet' or nt <= 30))
                    hist.append('a')
                if r is None:
                    break
                subs = {k: r.subdomains[k] for k in subs} if r.subdomains else {}
                cur = r
            ctx.hist('sequence', ''.join(hist))
    # (c) second-order classes, repeated indices, documented examples
    for kind in ('tri', 'tet'):
        for _ in range(ctx.n(3, 10)):
            g = small_mesh(kind, rng, 6)
            if g is None:
                continue
            m2 = gm.skfem_cls(kind, 2).from_mesh(gm.build(kind, g['p'], g['t'], g.get('sort_t')))
            nt = m2.t.shape[1]
            check_adaptive(ctx, kind, m2, gm.random_tags(rng, nt), {'a': gm.random_tags(rng, nt)},
                           {'l': gm.random_tags(rng, m2.facets.shape[1])}, 'second-order', order=2)
    for kind in ('line', 'tri', 'tet'):
        g = small_mesh(kind, rng, 5)
        m = gm.build(kind, g['p'], g['t'], g.get('sort_t'))
        nt = m.t.shape[1]
        k0 = int(rng.integers(0, nt))
        check_adaptive(ctx, kind, m, [k0, k0], {'a': [k0]}, {}, 'repeated-index')
    # (c') the empty marked set and one-element sets in every form, for every class that refines adaptively
    for kind in ('line', 'tri', 'tet'):
        for _ in range(ctx.n(2, 5)):
            g = small_mesh(kind, rng, 6, ntmin=2)
            m1 = gm.build(kind, g['p'], g['t'], g.get('sort_t'))
            check_marked_forms(ctx, kind, m1, rng)
            check_theta(ctx, kind, m1, rng)
            if kind != 'line':
                m2 = gm.skfem_cls(kind, 2).from_mesh(m1)
                check_marked_forms(ctx, kind, m2, rng)
                check_theta(ctx, kind, m2, rng)
    # (c'') point arrays with points that belong to no cell (appended directly / made by `m @ far_copy`), every class
    for kind in ('line', 'tri', 'tet'):
        for i in range(ctx.n(4, 10)):
            g = small_mesh(kind, rng, 6, ntmin=2)
            m0 = gm.build(kind, g['p'], g['t'], g.get('sort_t'))
            mu, how = gm.with_unused_points(kind, m0, rng, 'direct' if i % 2 == 0 else 'matmul')
            nt = mu.t.shape[1]
            cur, subs = mu, {'a': gm.random_tags(rng, nt)}
            for step in range(2):
                r = check_adaptive(ctx, kind, cur, gm.random_tags(rng, cur.t.shape[1]), subs, {}, f'unused-points:{how}/step{step}')
                if r is None or not r.subdomains:
                    break
                cur = type(r)(r.p, r.t, **({'sort_t': r.sort_t} if kind == 'tri' else {}))
                subs = {'a': r.subdomains['a']}
    # (d) N50: segments with unused trailing points — same intervals, same tags as for the mesh without them
    for _ in range(ctx.n(4, 12)):
        g = small_mesh('line', rng, 5, ntmin=2)
        m0 = gm.build('line', g['p'], g['t'])
        nextra = int(rng.integers(1, 4))
        mu = type(m0)(np.hstack((m0.p, np.array([[float(50 + 7 * i) for i in range(nextra)]]))), m0.t, validate=False)
        nt = m0.t.shape[1]
        subs = gm.random_tags(rng, nt)
        for sub in all_subsets(nt):
            if sub and not check_line_unused(ctx, mu, sub, subs):
                break
    # (e) N52: tetrahedra with large coordinates (the tie-breaking noise must scale with the coordinates)
    for scale, shift in ((1e6, 0.), (1e9, 0.), (1., 1e6), (1e3, 1e7))[:ctx.n(3, 4)]:
        for base in (skfem.MeshTet().refined(1), skfem.MeshTet.init_tensor(*(np.linspace(0, 1, 3),) * 3))[:ctx.n(1, 2)]:
            cur = base.scaled(scale).translated((shift,) * 3)
            for step in range(ctx.n(3, 4)):
                nt = cur.t.shape[1]
                if nt > 260:
                    break
                marked = np.sort(rng.choice(nt, size=min(nt, max(3, nt // 6)), replace=False))
                basem = type(cur)(cur.p, cur.t)
                r = check_adaptive(ctx, 'tet', basem, marked, {}, {}, f'large-coordinates:scale={scale:g}:shift={shift:g}/step{step}',
                                   disjoint=False)
                if r is None:
                    break
                cur = r
    from .. import c12_api
    from .c12 import check_one_step as _cos
    c12_api.run_api_cases(ctx, 'adaptive', _cos, check_adaptive, rng)
    m = skfem.MeshLine(np.array([0., 1, 2, 3]))
    check_adaptive(ctx, 'line', m, [0], {'a': [1]}, {}, 'F4-line-example')
    m = skfem.MeshTet()
    check_adaptive(ctx, 'tet', m, [0], {'a': [0, 1]}, {'l': m.boundary_facets()[:3]}, 'F4-tet-example')


# ------------------------------------------------------------------------------------------ the check

def run(ctx):
    ctx.trusted += ['NumPy semantics used by the refinement code (hstack/vstack order, boolean-mask order, setdiff1d/unique) — '
                    'modelled, corresponded', 'Mesh.build_entities of the re-ordered mesh: input of the model (C11)',
                    '"contained + disjoint + measures add up => tiling" (not formalised)',
                    'Python exact-arithmetic oracle in vlib/c12_exact.py']
    ctx.assumptions += ['theorems are over exact rationals and hold for ANY edge placed at slot 2 by _adaptive_sort_mesh, so the '
                        'float comparisons of edge lengths play no role',
                        'tetrahedra: only one bisection is proved to tile its parent; the work-list loop (termination, conformity) '
                        'is NOT proved — exhaustive marked subsets on small meshes by the oracle only (partial)']
    ctx.cov['rule'] = ('ALL marked subsets (every subset of cells, some in permuted order) of small random line / triangle / '
                       'tetrahedral meshes with random subdomain and facet tags; random sequences of 3-6 mixed adaptive/uniform '
                       'steps incl. adaptive_theta marking; second-order classes; repeated indices; non-trivial = at least 2 cells '
                       'and a proper non-empty marked subset; distinct by content')
    ctx.ensure_static()
    gen_ok = True
    try:
        txt, summary = c13_src.gen_text()
        ctx.write_gen('C13Gen', txt)
        ctx.extra['source_reading'] = {'tri': summary['tri'], 'line': summary['line'],
                                       'tet': {k: v for k, v in summary['tet'].items() if k != 'templates'},
                                       'second_order': summary['second'], 'closure_rule': summary['rule']}
    except TranslateError as e:
        ctx.broke('translator', 'c13_src.gen_text (mesh_tri_1.py, mesh_line_1.py, mesh_tet_1.py)', e)
        gen_ok = False
    dyn_ok = gen_ok and ctx.compile_dyn(['gen/C13Gen.v'] + ctx.copy_dyn())
    if dyn_ok:
        ctx.prove(timeout=600)
    else:
        ctx.broke('proof', 'props/C13.v', 'not compiled: generated or tie files failed')
    if dyn_ok:
        rng = np_seed(ctx, 131)
        cases = corr_cases(ctx, rng, ctx.n(44, 240))
        ctx.corr('adaptive', IMPORTS, 'run', 'out_eqb', cases, defs=DEFS, per_file=(len(cases) + 3) // 4,
                 nontrivial=lambda r: len(r['t'][0]) >= 2 and 0 < len(r['marked']) < len(r['t'][0]))
        for c in cases[:3]:
            ctx.sample({'kind': c[2]['kind'], 'cells': len(c[2]['t'][0]), 'marked': c[2]['marked'], 'subdomain': c[2]['subdomain']})
    if dyn_ok:
        tc = tet_cases(ctx, np_seed(ctx, 132))
        ctx.corr('tet_loop', TET_IMPORTS, 'run', 'out_eqb', tc, defs=TET_DEFS, per_file=(len(tc) + 3) // 4,
                 nontrivial=lambda r: r['sweeps'] >= 2)
        ctx.extra['tet_loop_sweeps'] = {str(k): sum(1 for c in tc if c[2]['sweeps'] == k) for k in sorted({c[2]['sweeps'] for c in tc})}
    if dyn_ok:
        from skfem.utils import adaptive_theta
        rng2 = np_seed(ctx, 133)
        tcases = []
        for _ in range(ctx.n(40, 200)):
            n = int(rng2.integers(1, 9))
            est = rng2.integers(0, 33, size=n) / 8.0
            if rng2.random() < 0.4:                       # exactly one (or no) value above the threshold
                est = np.full(n, 0.25)
                est[int(rng2.integers(0, n))] = 4.0
            theta = float(rng2.choice([0.25, 0.5, 0.75, 1.0]))
            mx = None if rng2.random() < 0.6 else float(rng2.choice([1.0, 2.0, 4.0, 64.0]))
            got = adaptive_theta(est, theta, max=mx)
            if np.ndim(got) != 1:
                ctx.fail('adaptive_theta-single-hit', f'adaptive_theta returned an array of dimension {np.ndim(got)}: {got!r}',
                         {'estimator': est.tolist(), 'theta': theta, 'max': mx})
                continue
            q = lambda x: '(%d # %d)%%Q' % (Fraction(float(x)).numerator, Fraction(float(x)).denominator)
            inp = '(%s, %s, %s)' % (clist([q(x) for x in est]), q(theta), 'None' if mx is None else f'(Some {q(mx)})')
            tcases.append((inp, cnats([int(v) for v in got]), {'est': est.tolist(), 'theta': theta, 'max': mx, 'hits': len(got)}))
        ctx.corr('adaptive_theta', 'From Coq Require Import List Arith Bool ZArith QArith.\nRequire Import Model.C12_Refine Model.C13_Adaptive Gen.C13Gen.',
                 '(fun x : list Q * Q * option Q => gen_theta_select (fst (fst x)) (snd (fst x)) (snd x))', 'nats_eqb', tcases,
                 per_file=max(1, len(tcases)), nontrivial=lambda r: r['hits'] == 1)
    run_oracle(ctx)


def replay(ctx, data):
    inp = data['input']
    ctx.log('replaying', data.get('key'))
    if str(data.get('key', '')).startswith('adaptive_theta') and 'kind' not in inp:
        import skfem
        rng = np.random.default_rng(0)
        for kind, m in (('line', skfem.MeshLine().refined(2)), ('tri', skfem.MeshTri().refined(1)), ('tet', skfem.MeshTet())):
            check_theta(ctx, kind, m, rng)
        return
    kind = inp['kind']
    kw = {'sort_t': inp['sort_t']} if kind == 'tri' else {}
    order = inp.get('order', 1)
    P = np.array(inp['p'], dtype=np.float64)
    if inp.get('label') == 'adaptive-theta-single':
        m = gm.skfem_cls(kind, 1)(P[:, :int(np.max(inp['t'])) + 1] if order == 2 else P, np.array(inp['t'], dtype=np.int32), **kw)
        if order == 2:
            m = gm.skfem_cls(kind, 2).from_mesh(m)
        check_theta(ctx, kind, m, np.random.default_rng(0))
        return
    if inp.get('label') in ('empty-marked', 'one-element-marked', 'boolean-mask'):
        m = gm.skfem_cls(kind, 1)(P[:, :int(np.max(inp['t'])) + 1] if order == 2 else P, np.array(inp['t'], dtype=np.int32), **kw)
        if order == 2:
            m = gm.skfem_cls(kind, 2).from_mesh(m)
        check_marked_forms(ctx, kind, m, np.random.default_rng(0))
        return
    if inp.get('label') == 'unused-trailing-points':
        mu = gm.skfem_cls('line', 1)(P, np.array(inp['t'], dtype=np.int32), validate=False)
        check_line_unused(ctx, mu, inp['marked'], inp.get('subdomain', []))
        return
    m = gm.skfem_cls(kind, 1)(P[:, :int(np.max(inp['t'])) + 1] if order == 2 else P, np.array(inp['t'], dtype=np.int32), **kw)
    if order == 2:
        m = gm.skfem_cls(kind, 2).from_mesh(m)
    if 'marked' in inp:
        check_adaptive(ctx, kind, m, inp['marked'], inp.get('subdomains', {}), inp.get('boundaries', {}), 'replay', order=order)
    else:
        from .c12 import check_one_step
        check_one_step(ctx, kind, m, inp.get('subdomains', {}), inp.get('boundaries', {}), 'replay', order=order)
