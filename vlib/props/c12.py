"""C12 — uniform refinement preserves domain, conformity and named regions.

tie T2/T1: Gen/C12Gen.v regenerated from the five ``_uniform`` methods, ``Mesh.refined`` and refdom.py
           (child templates, offsets of the new vertices, coordinate blocks, tag index maps, diagonal choice)
proofs   : coq/proofs/C12_*.v (all meshes / sizes / geometries), coq/dyn/C12/C12Tie.v (finite computations on
           the generated templates), statements in coq/props/C12.v
tie T3   : correspondence of the model's p / t / tags with the real ``refined()`` on random meshes of every type
oracle   : exact (integer) check of the property statement on the real implementation
"""
import logging
from fractions import Fraction

import numpy as np

from .. import c12_exact as ex
from .. import c12_meshes as gm
from .. import c12_src
from ..core import TranslateError, clist, cmat_nat, cnats, cq, np_seed

IMPORTS = ('From Coq Require Import List Arith Bool ZArith QArith.\n'
           'Require Import Model.C12_Refine Gen.C12Gen.')

DEFS = '''
Local Open Scope nat_scope.
Fixpoint lex_leb (a b : list nat) : bool :=
  match a, b with
  | [], _ => true
  | _ :: _, [] => false
  | x :: a', y :: b' => (x <? y) || ((x =? y) && lex_leb a' b')
  end.
Fixpoint lex_insert (x : list nat) (l : list (list nat)) :=
  match l with [] => [x] | y :: l' => if lex_leb x y then x :: l else y :: lex_insert x l' end.
Definition lex_sort (l : list (list nat)) := fold_right lex_insert [] l.
Definition unopt (o : option (list nat)) := match o with Some v => v | None => [] end.

Definition out_t := (list point * list (list nat) * list nat * list (list nat))%type.
Definition out_eqb (a b : out_t) : bool :=
  let '(p1, t1, s1, b1) := a in let '(p2, t2, s2, b2) := b in
  qss_eqb p1 p2 && natss_eqb t1 t2 && nats_eqb s1 s2 && natss_eqb b1 b2.

Definition inp_t := (list point * tables * bool * list nat * list nat)%type.
Definition mk_inp (p : list point) (tb : tables) (srt : bool) (subs bnds : list nat) : inp_t := (p, tb, srt, subs, bnds).
Definition mk_out (p : list point) (t : list (list nat)) (s : list nat) (b : list (list nat)) : out_t := (p, t, s, b).

Definition run_block (s : spec) (dim N : nat) (submap : nat -> nat -> nat -> nat)
  (rf : list (list nat)) (asg : list (nat * nat * nat * nat)) (inp : inp_t) : out_t :=
  let '(p, tb, srt, subs, bnds) := inp in
  let r := uniform_block s dim p tb in
  let nt := length (tb_t tb) in
  let newt := if srt then map sort_nat (snd r) else snd r in
  (fst r, newt, propagate (submap nt) N subs,
   lex_sort (map unopt (propagate_boundary (bwrites rf newt nt (tb_t2f tb) asg) bnds))).

Definition run_line (inp : inp_t) : out_t :=
  let '(p, tb, srt, subs, bnds) := inp in
  let r := uniform_line line_spec p tb in
  (fst r, snd r, propagate (gen_line_submap (length (tb_t tb))) 2 subs, []).

Definition run_tet (inp : inp_t) : out_t :=
  let '(p, tb, srt, subs, bnds) := inp in
  let r := uniform_tet tet_spec gen_tet_diags gen_tet_comps gen_tet_classes p tb in
  (fst (fst r), snd (fst r), propagate (gen_tet_submap (snd r)) 8 subs, []).

Definition run_tri := run_block tri_spec 2 4 gen_tri_submap gen_tri_rfacets gen_tri_bassign.
Definition run_quad := run_block quad_spec 2 4 gen_quad_submap gen_quad_rfacets gen_quad_bassign.
Definition run_hex := run_block hex_spec 3 8 gen_hex_submap gen_hex_rfacets [].
Definition run_any (ki : nat * inp_t) : out_t :=
  match fst ki with
  | 0 => run_line (snd ki) | 1 => run_tri (snd ki) | 2 => run_quad (snd ki) | 3 => run_tet (snd ki) | _ => run_hex (snd ki)
  end.
'''


# ------------------------------------------------------------------------------------------ emit

def cpts(p):
    return clist([clist([cq(Fraction(float(x))) for x in p[:, i]]) for i in range(p.shape[1])])


def ctab(a):
    if a is None:
        return '[]'
    return cmat_nat(np.asarray(a).T.tolist())


def ctables(m):
    return ('{| tb_t := %s; tb_edges := %s; tb_facets := %s; tb_t2e := %s; tb_t2f := %s |}'
            % (ctab(m.t), ctab(getattr(m, 'edges', None) if m.refdom.edges else None), ctab(m.facets),
               ctab(m.t2e if m.refdom.edges else None), ctab(m.t2f)))


def facet_pairs(m, ids):
    return sorted(sorted(int(v) for v in m.facets[:, int(f)]) for f in ids)


class WarnCatcher(logging.Handler):
    def __init__(self):
        super().__init__(level=logging.WARNING)
        self.msgs = []

    def emit(self, record):
        self.msgs.append(record.getMessage())

    def __enter__(self):
        self.lg = logging.getLogger('skfem')
        self.old = self.lg.level
        self.lg.addHandler(self)
        return self

    def __exit__(self, *a):
        self.lg.removeHandler(self)


# ------------------------------------------------------------------------------------------ correspondence

def corr_cases(ctx, kind, rng, n):
    cases = []
    tries = 0
    while len(cases) < n and tries < 10 * n:
        tries += 1
        g = gm.GEN[kind](rng) if kind != 'hex' else gm.gen_hex(rng, nmax=4)
        if ex.input_problems(kind, g['p'], g['t']):
            continue
        m = gm.build(kind, g['p'], g['t'], g.get('sort_t'))
        level = 0
        if rng.random() < 0.25 and m.t.shape[1] * ex.NCHILD[kind] <= (40 if kind in ('tet', 'hex') else 60):
            m = m.refined()          # a refined mesh as input: dyadic coordinates, library-made numbering
            level = 1
        if m.t.shape[1] > (14 if kind in ('tet', 'hex') else 40):
            continue
        subs = gm.random_tags(rng, m.t.shape[1])
        bnds = gm.random_tags(rng, m.facets.shape[1]) if kind in ('tri', 'quad') else np.array([], dtype=np.int64)
        mm = m.with_subdomains({'a': subs})
        if kind in ('tri', 'quad'):
            mm = mm.with_boundaries({'b': bnds})
        r = mm.refined()
        sub_out = [int(v) for v in r.subdomains['a']] if r.subdomains is not None else None
        bnd_out = facet_pairs(r, r.boundaries['b']) if (kind in ('tri', 'quad') and r.boundaries is not None) else []
        if sub_out is None:
            ctx.fail(f'uniform-subdomains-dropped:{type(m).__name__}', 'refined() dropped the named subdomains',
                     case_data(kind, m, subs, bnds))
            continue
        inp = '(mk_inp %s %s %s %s %s)' % (cpts(m.p), ctables(m), 'true' if m.sort_t else 'false',
                                        cnats(subs.tolist()), cnats(bnds.tolist()))
        out = '(mk_out %s %s %s %s)' % (cpts(r.p), ctab(r.t), cnats(sub_out), cmat_nat(bnd_out))
        cases.append((inp, out, {'kind': kind, 'level': level, **case_data(kind, m, subs, bnds)}))
    return cases


def case_data(kind, m, subs=None, bnds=None, **kw):
    d = {'kind': kind, 'class': type(m).__name__, 'p': m.p.tolist(), 't': m.t.tolist(), 'sort_t': bool(m.sort_t)}
    if subs is not None:
        d['subdomain'] = [int(v) for v in subs]
    if bnds is not None:
        d['boundary'] = [int(v) for v in bnds]
    d.update(kw)
    return d


# ------------------------------------------------------------------------------------------ oracle

def apply_op(kind, m, op, rng):
    """an operation applied before refining (tags must survive it or be re-attached by the caller)"""
    if op == 'none':
        return m
    if op == 'translated':
        return m.translated(tuple(float(rng.integers(-3, 4)) for _ in range(m.p.shape[0])))
    if op == 'scaled':
        return m.scaled(tuple(float(rng.choice([2, 4, 0.5])) for _ in range(m.p.shape[0])))
    if op == 'oriented':
        return m.oriented()
    if op == 'refined':
        return m.refined()
    if op == 'adaptive':
        return m.refined(np.array([int(rng.integers(0, m.t.shape[1]))]))
    raise ValueError(op)


OPS = {'line': ['none', 'translated', 'scaled', 'oriented', 'adaptive'],
       'tri': ['none', 'translated', 'scaled', 'oriented', 'adaptive'],
       'quad': ['none', 'translated', 'scaled'],
       'tet': ['none', 'translated', 'scaled', 'oriented', 'adaptive'],
       'hex': ['none', 'translated', 'scaled']}


def tag_facets_ok(kind):
    return kind in ('line', 'tri', 'quad')


def check_one_step(ctx, kind, m, subs, bnds, label, order=1, disjoint=True):
    """refine the tagged mesh once and check the whole statement of C12 exactly; returns the refined mesh
    (with its tags) or None when checking cannot continue"""
    cname = type(m).__name__
    tags_s = {k: np.asarray(v, dtype=np.int64) for k, v in subs.items()}
    tags_b = {k: np.asarray(v, dtype=np.int64) for k, v in bnds.items()}
    mm = m
    if tags_s:
        mm = mm.with_subdomains(tags_s)
    if tags_b:
        mm = mm.with_boundaries(tags_b)
    data = case_data(kind, m, label=label, subdomains={k: v.tolist() for k, v in tags_s.items()},
                     boundaries={k: v.tolist() for k, v in tags_b.items()}, order=order)
    with WarnCatcher() as wc:
        try:
            r = mm.refined()
        except Exception as e:  # an exception of the code under test on a valid mesh is a failing input
            ctx.fail(f'uniform-exception:{cname}', f'refined() raised {type(e).__name__}: {e}', data)
            return None
    nv = int(np.max(m.t)) + 1 if order == 2 else m.p.shape[1]
    nvr = int(np.max(r.t)) + 1 if order == 2 else r.p.shape[1]
    unused = sorted(set(range(m.p.shape[1])) - set(int(v) for v in m.t.ravel())) if order == 1 else []
    if order == 1 and not unused and not r.is_valid():
        ctx.fail(f'uniform-invalid:{cname}', 'refined mesh fails is_valid()', data)
    if order == 2 and not r.is_valid():      # is_valid supports quadratic meshes since N38
        ctx.fail(f'uniform-invalid:{cname}', 'refined second-order mesh fails is_valid()', data)
    st = ex.Step(kind, m.p[:, :nv], m.t, r.p[:, :nvr], r.t, uniform=True, disjoint=disjoint, unused_ok=unused)
    ctx.count(('step', kind, cname, m.p.tolist(), m.t.tolist(), sorted((k, v.tolist()) for k, v in tags_s.items()),
               sorted((k, v.tolist()) for k, v in tags_b.items())),
              nontrivial=m.t.shape[1] >= 2 and (any(len(v) for v in tags_s.values()) or any(len(v) for v in tags_b.values())))
    ctx.hist('class', cname)
    ctx.hist('cells', m.t.shape[1])
    for tag, msg, d in st.problems:
        ctx.fail(f'uniform-{tag}:{cname}', msg, {**data, **d})
    if st.problems:
        return None
    # named subdomains: same region
    if tags_s:
        if r.subdomains is None or any(k not in r.subdomains for k in tags_s):
            # the escape "dropped with a warning" exists for boundaries only: every class must propagate subdomains
            warned = any('ubdomains invalidated' in w for w in wc.msgs)
            ctx.fail(f'uniform-subdomains-dropped:{cname}',
                     'named subdomains dropped by refined() (' + ('with' if warned else 'WITHOUT') + ' a warning)',
                     {**data, 'warned': warned})
        else:
            for name, ixs in tags_s.items():
                want = st.expected_subdomain(ixs)
                got = sorted(int(v) for v in r.subdomains.get(name, []))
                if got != want:
                    ctx.fail(f'uniform-subdomains:{cname}',
                             f'subdomain {name!r} of the refined mesh does not cover the region of the tagged cells '
                             f'(tagged cells {ixs.tolist()[:8]}: wrongly tagged new cells {sorted(set(got) - set(want))[:8]}, '
                             f'untagged children {sorted(set(want) - set(got))[:8]})',
                             {**data, 'name': name, 'got': got, 'expected': want})
                    break
    # named boundaries: same point set, or dropped with a warning
    if tags_b:
        if r.boundaries is None:
            if tag_facets_ok(kind) and order == 1:
                ctx.fail(f'uniform-boundaries-dropped:{cname}', 'named boundaries dropped for a class that supports them', data)
            elif not any('oundaries invalidated' in w for w in wc.msgs):
                ctx.fail(f'uniform-boundaries-dropped-silently:{cname}', 'named boundaries dropped without a warning', data)
        else:
            if not tag_facets_ok(kind):
                ctx.extra.setdefault('notes', []).append(f'{cname} keeps boundaries after refinement')
            for name, ixs in tags_b.items():
                want = st.expected_boundary_sets(m.facets, ixs)
                got = set(tuple(sorted(int(v) for v in r.facets[:, int(f)])) for f in r.boundaries.get(name, []))
                if got != want:
                    ctx.fail(f'uniform-boundaries:{cname}',
                             f'boundary {name!r} of the refined mesh does not cover the same points as before',
                             {**data, 'name': name, 'got': sorted(got), 'expected': sorted(want)})
                    break
    return r


def oracle_case(ctx, kind, g, rng, kmax, op, order=1):
    """one random mesh: op, tags, then k successive refinements, each checked; then refined(k) == chain"""
    m = gm.build(kind, g['p'], g['t'], g.get('sort_t'))
    try:
        m = apply_op(kind, m, op, rng)
    except Exception as e:
        ctx.fail(f'op-exception:{kind}:{op}', f'{op} raised {type(e).__name__}: {e}', case_data(kind, m, op=op))
        return
    if order == 2:
        m = gm.skfem_cls(kind, 2).from_mesh(m)
    nt, nf = m.t.shape[1], m.facets.shape[1]
    subs = {'a': gm.random_tags(rng, nt), 'b': gm.random_tags(rng, nt)}
    bnds = {'l': gm.random_tags(rng, nf), 'm': gm.random_tags(rng, nf)}
    if rng.random() < 0.15:
        subs = {}
    if rng.random() < 0.15:
        bnds = {}
    ctx.hist('op', op)
    cur = m
    chain = []
    budget = 700 if ex.DIM[kind] < 3 else 520
    for step in range(kmax):
        if cur.t.shape[1] * ex.NCHILD[kind] > budget:
            break
        s_now = {k: (v if step == 0 else cur.subdomains[k]) for k, v in subs.items()} if (step == 0 or cur.subdomains) else {}
        b_now = {k: (v if step == 0 else cur.boundaries[k]) for k, v in bnds.items()} if (step == 0 or cur.boundaries) else {}
        base = cur if step == 0 else type(cur)(cur.p, cur.t, **({'sort_t': cur.sort_t} if kind == 'tri' else {})) \
            if order == 1 else cur
        if order == 2 and step > 0:
            base = cur
            s_now, b_now = ({k: cur.subdomains[k] for k in subs} if cur.subdomains else {}), {}
        r = check_one_step(ctx, kind, base, s_now, b_now, f'{op}/step{step}', order=order,
                           disjoint=(ex.DIM[kind] < 3 or ctx.tier != 'quick' or cur.t.shape[1] <= 12))
        if r is None:
            return
        chain.append(r)
        cur = r
    ctx.hist('k', len(chain))
    if len(chain) >= 2:
        # refined(k) in one call equals the chain of single steps
        mm = m
        if subs:
            mm = mm.with_subdomains(subs)
        if bnds:
            mm = mm.with_boundaries(bnds)
        with WarnCatcher():
            try:
                # every scalar (also a NumPy integer) is a number of uniform refinements
                rk = mm.refined(np.int64(len(chain)) if rng.random() < 0.5 else len(chain))
            except Exception as e:
                ctx.fail(f'uniform-refined-k-exception:{type(m).__name__}', f'refined(k) raised {type(e).__name__}: {e}',
                         case_data(kind, m, op=op, k=len(chain)))
                return
        last = chain[-1]
        same = np.array_equal(rk.p, last.p) and np.array_equal(rk.t, last.t)
        for attr in ('subdomains', 'boundaries'):
            a, b = getattr(rk, attr), getattr(last, attr)
            if (a is None) != (b is None) or (a is not None and (set(a) != set(b) or any(not np.array_equal(a[k], b[k]) for k in a))):
                same = False
        if not same:
            ctx.fail(f'uniform-refined-k:{type(m).__name__}', f'refined({len(chain)}) differs from {len(chain)} single refinements',
                     case_data(kind, m, op=op, k=len(chain)))


def run_oracle(ctx):
    rng = np_seed(ctx, 12)
    n = ctx.n(20, 90)
    for kind in gm.KINDS:
        done = 0
        tries = 0
        while done < n and tries < 6 * n:
            tries += 1
            g = gm.GEN[kind](rng)
            if ex.input_problems(kind, g['p'], g['t']):
                ctx.hist('generator-rejected', kind)
                continue
            op = OPS[kind][int(rng.integers(0, len(OPS[kind])))] if rng.random() < 0.6 else 'none'
            kmax = int(rng.integers(1, 4))
            oracle_case(ctx, kind, g, rng, kmax, op)
            done += 1
        # second-order classes with straight facets
        if kind != 'line':
            for _ in range(ctx.n(3, 12)):
                g = gm.GEN[kind](rng) if kind != 'hex' else gm.gen_hex(rng, nmax=3)
                if ex.input_problems(kind, g['p'], g['t']):
                    continue
                oracle_case(ctx, kind, g, rng, 1 if kind in ('tet', 'hex') else 2, 'none', order=2)
    # meshes whose point array has points that belong to no cell (appended directly, or made by the library: (m1 @ m2)[0]):
    # every cell type, k <= 2, exact measure / children inside parents / tags as for any other mesh
    for kind in gm.KINDS:
        done = 0
        while done < ctx.n(3, 10):
            g = gm.GEN[kind](rng) if kind != 'hex' else gm.gen_hex(rng, nmax=3)
            if ex.input_problems(kind, g['p'], g['t']) or g['t'].shape[1] > 8:
                continue
            m0 = gm.build(kind, g['p'], g['t'], g.get('sort_t'))
            try:
                mu, how = gm.with_unused_points(kind, m0, rng, 'direct' if done % 2 == 0 else 'matmul')
            except Exception as e:
                ctx.fail(f'matmul-exception:{type(m0).__name__}', f'm @ translated(m) raised {type(e).__name__}: {e}', case_data(kind, m0))
                done += 1
                continue
            done += 1
            ctx.hist('unused-points', f'{kind}:{how}')
            nt, nf = mu.t.shape[1], mu.facets.shape[1]
            subs = {'a': gm.random_tags(rng, nt)}
            bnds = {'l': gm.random_tags(rng, nf)}
            r = check_one_step(ctx, kind, mu, subs, bnds, f'unused-points:{how}/step0')
            if r is not None and r.t.shape[1] * ex.NCHILD[kind] <= 400:
                base = type(r)(r.p, r.t, **({'sort_t': r.sort_t} if kind == 'tri' else {}))
                check_one_step(ctx, kind, base, {'a': r.subdomains['a']} if r.subdomains else {}, {}, f'unused-points:{how}/step1')
    # coverage audit: public constructors, call forms and operations that forward to the refinement core
    from .. import c12_api
    c12_api.run_api_cases(ctx, 'uniform', check_one_step, None, rng)
    # the documented small examples
    import skfem
    for cls in (skfem.MeshLine, skfem.MeshTri, skfem.MeshQuad, skfem.MeshTet, skfem.MeshHex):
        m0 = cls()
        try:
            a, b = m0.refined(np.int64(1)), m0.refined(1)
            same = np.array_equal(a.p, b.p) and np.array_equal(a.t, b.t)
        except Exception as e:
            same = False
        ctx.count(('numpy-scalar', cls.__name__), nontrivial=False)
        if not same:
            ctx.fail(f'uniform-numpy-scalar:{type(m0).__name__}', 'refined(np.int64(1)) is not one uniform refinement',
                     case_data({'MeshLine1': 'line', 'MeshTri1': 'tri', 'MeshQuad1': 'quad', 'MeshTet1': 'tet',
                                'MeshHex1': 'hex'}[type(m0).__name__], m0, k='np.int64(1)'))
    m = skfem.MeshLine(np.array([0., 1, 2, 3]))
    check_one_step(ctx, 'line', m, {'a': [0]}, {}, 'F3-example')
    m = skfem.MeshTet.init_tensor(np.array([0., 1, 3]), np.array([0., 2, 3]), np.array([0., 1, 2]))
    check_one_step(ctx, 'tet', skfem.MeshTet2.from_mesh(m), {'a': [5]}, {}, 'tet2-example', order=2, disjoint=False)


# ------------------------------------------------------------------------------------------ Mesh.refined dispatch

def dispatch_corr(ctx):
    """the real Mesh.refined on an instrumented class (its _uniform / _adaptive only record the call) against the model:
    the trace of calls, for scalars of every kind, index collections, masks and empty selections"""
    import skfem
    rng = np_seed(ctx, 122)
    trace = []

    class Rec(skfem.MeshTri1):
        def _uniform(self):
            trace.append(('U', None))
            return self

        def _adaptive(self, marked):
            trace.append(('A', marked))
            return self
    m = Rec()
    nt = 6
    args = [0, 1, 2, 3, -1, -2, True, False, np.int64(2), np.int32(1), np.int64(0), [], (), np.array([], dtype=np.int64),
            np.array([]), [0], (1, 2), [2, 0, 2], np.array([1, 3]), np.array([4], dtype=np.int32),
            np.zeros(nt, dtype=bool), np.ones(nt, dtype=bool), [True, False, True, False, False, True]]
    for _ in range(ctx.n(10, 40)):
        r = rng.random()
        if r < 0.3:
            args.append(int(rng.integers(-2, 5)))
        elif r < 0.65:
            args.append(rng.integers(0, nt, size=int(rng.integers(0, 5))).astype(np.int64))
        else:
            args.append(rng.random(nt) < 0.5)
    # observation, reported to the coordinator (proposed key refined-dispatch-numpy-bool): a NumPy bool SCALAR is not accepted
    # (range(np.True_) raises TypeError) although Python's True is; recorded in the evidence, not counted as a failure
    try:
        m.refined(np.bool_(True))
        ctx.extra['refined_numpy_bool_scalar'] = 'accepted'
    except Exception as e:
        ctx.extra['refined_numpy_bool_scalar'] = f'Mesh.refined(np.bool_(True)) raises {type(e).__name__}: {e}'
    cases = []
    for a in args:
        del trace[:]
        try:
            m.refined(a)
        except Exception as e:
            ctx.fail('refined-dispatch', f'Mesh.refined({a!r}) raised {type(e).__name__}: {e}', {'arg': repr(a)})
            continue
        ev = []
        for kind, mk in trace:
            if kind == 'U':
                ev.append('(true, [])')
            else:
                mk = np.asarray(mk)
                if mk.dtype.kind not in 'iu' or mk.ndim != 1:
                    ctx.fail('refined-dispatch', f'Mesh.refined({a!r}) hands {mk!r} (dtype {mk.dtype}, ndim {mk.ndim}) to _adaptive',
                             {'arg': repr(a)})
                ev.append('(false, %s)' % cnats([int(v) for v in mk]))
        if np.ndim(a) == 0:
            term = f'RScalar ({int(a)})%Z'
        else:
            arr = np.asarray(a)
            if arr.dtype == bool:
                term = 'RMask ' + clist(['true' if v else 'false' for v in arr])
            else:
                term = 'RIndex ' + cnats([int(v) for v in arr])
        cases.append((f'({term})', clist(ev), {'arg': repr(a), 'calls': len(trace)}))
    defs = '''
Definition ev := (bool * list nat)%type.
Definition ev_eqb (a b : ev) : bool := Bool.eqb (fst a) (fst b) && nats_eqb (snd a) (snd b).
Definition run (arg : rarg) : list ev :=
  gen_refined_dispatch (fun t : list ev => t ++ [(true, [])]) (fun ix t => t ++ [(false, ix)]) arg [].
'''
    ctx.corr('refined_dispatch', 'From Coq Require Import List Arith Bool ZArith.\nRequire Import Model.C12_Refine Gen.C12Gen.',
             'run', '(list_eqb ev_eqb)', cases, defs=defs, per_file=len(cases), nontrivial=lambda r: r['calls'] >= 1)


# ------------------------------------------------------------------------------------------ the check

def run(ctx):
    ctx.trusted += ['NumPy semantics used by the refinement code (hstack/vstack order, fancy assignment with repeated indices: '
                    'last write wins, np.unique ordering) — modelled, corresponded',
                    'Mesh.build_entities (facets, t2f, edges, t2e): taken from the implementation as input of the model; '
                    'its coherence is property C11',
                    '"contained + pairwise disjoint interiors + volumes add up => the children tile the parent" (not formalised)',
                    'Python exact-arithmetic oracle in vlib/c12_exact.py']
    ctx.assumptions += ['theorems are over exact rationals; binary64 midpoints of the generated integer/dyadic inputs are exact',
                        'entity tables of the input mesh are coherent (C11): t2f[k][j] is the id of local facet j of cell k']
    ctx.cov['rule'] = ('random meshes of all five cell types (grids with perturbed integer vertices, random diagonals, holes, '
                       'Delaunay 2-D/3-D, random vertex/cell numbering and local vertex order, sheared/general hexahedra), random '
                       'subdomain and facet tag sets incl. interior facets, empty and full sets, k<=3, after translated/scaled/'
                       'oriented/adaptive; second-order classes; non-trivial = at least 2 cells and a non-empty tag; distinct by content')
    ctx.ensure_static()
    gen_ok = True
    summary = None
    try:
        txt, summary = c12_src.gen_text()
        ctx.write_gen('C12Gen', txt)
    except TranslateError as e:
        ctx.broke('translator', 'c12_src.gen_text (mesh_*_1.py, mesh.py, refdom.py)', e)
        gen_ok = False
    dyn_ok = False
    if gen_ok:
        ctx.extra['source_reading'] = {'effective_subdomain_map': summary['effective_submap'],
                                       'refined_subdomain_warning_tests': summary['refined']['subwarn'],
                                       'tet_diagonal_uses_dims': summary['res']['tet']['diags'][0][0],
                                       'line_boundaries': str(summary['res']['line']['bnd'])}
        dyn_ok = ctx.compile_dyn(['gen/C12Gen.v'] + ctx.copy_dyn())
    if dyn_ok:
        ctx.prove(timeout=600)
    else:
        ctx.broke('proof', 'props/C12.v', 'not compiled: generated or tie files failed')

    # correspondence: model vs real refined()
    if dyn_ok:
        rng = np_seed(ctx, 121)
        n = ctx.n(18, 90)
        cases = []
        for ki, kind in enumerate(gm.KINDS):
            cs = corr_cases(ctx, kind, rng, n if kind not in ('hex',) else max(8, n // 3))
            cases += [(f'({ki}, {i})', o, r) for i, o, r in cs]
            if cs:
                c = cs[0][2]
                ctx.sample({'kind': kind, 'cells': len(c['t'][0]), 'vertices': len(c['p'][0]), 'subdomain': c.get('subdomain'),
                            'boundary': c.get('boundary')})
        for c in cases:
            ctx.hist('corr-kind', c[2]['kind'])
        bad = ctx.corr('uniform', IMPORTS, 'run_any', 'out_eqb', cases, defs=DEFS, per_file=(len(cases) + 3) // 4,
                       nontrivial=lambda r: len(r['t'][0]) >= 2)
        for i in (bad or [])[:4]:
            # a disagreement is a broken correspondence; whether the PROPERTY fails on that input is decided by the oracle
            c = cases[i][2]
            kind = c['kind']
            m = gm.skfem_cls(kind)(np.array(c['p']), np.array(c['t'], dtype=np.int32),
                                   **({'sort_t': c['sort_t']} if kind == 'tri' else {}))
            check_one_step(ctx, kind, m, {'a': c['subdomain']}, {'b': c['boundary']} if kind in ('tri', 'quad') else {},
                           'corr-disagreement')
    if dyn_ok:
        dispatch_corr(ctx)
    # the search / supporting validation on the real code
    run_oracle(ctx)


def replay(ctx, data):
    inp = data['input']
    kind = inp['kind']
    ctx.log('replaying', data.get('key'))
    cls = gm.skfem_cls(kind, 1)
    kw = {'sort_t': inp['sort_t']} if kind == 'tri' else {}
    order = inp.get('order', 1)
    P = np.array(inp['p'], dtype=np.float64)
    m = cls(P[:, :int(np.max(inp['t'])) + 1] if order == 2 else P, np.array(inp['t'], dtype=np.int32), validate=False, **kw)
    if order == 2:
        m = gm.skfem_cls(kind, 2).from_mesh(m)
    check_one_step(ctx, kind, m, inp.get('subdomains', {}), inp.get('boundaries', {}), 'replay', order=order)
