"""C03 — discrete functions are globally continuous in the sense of the element.

tie T1 : Gen/C09_E_<refdom>.v (exact polynomials of the real lbasis, vlib/c09_gen.py) + Gen/C03_T_<refdom>.v, Gen/C03_Traces.v
         (facet slots from the refdom tables, attached indices from the DOF counts; psi / signs / permutations are
         certificates checked by vm_compute)                                                        [vlib/c03_gen.py]
tie T2 : Gen/C03_Gen.v — ElementHcurl.orient, ElementHdiv.orient, Mesh.__post_init__ sort + sort_t flags, the einsum
         subscripts of the gbasis methods, refdom facet/edge tables                                  [vlib/c03_t2.py]
proof  : props/C03.v (trace lemma at every facet point in every ring over Q; symmetry invariance of the H1 facet
         functions; slot-independent signs; sorted cells traverse shared facets in the same direction; hcurl / hdiv
         orientation; Piola flux identity)
corr   : numpy.sort vs sort_col; the real orient() of H(curl)/H(div) elements on real meshes vs the generated expressions
oracle : a random coefficient vector evaluated from both sides of every interior facet (vlib/c03_oracle.py)
"""
import logging
import time
import warnings

import numpy as np

from .. import c03_gen, c03_oracle, c03_t2, c09_gen
from ..c09_build import compile_generated
from ..core import TranslateError, clist, cnat, cnats, cpair, cz, np_seed

CONFORMING_KINDS = ('value', 'normal', 'tangential', 'normal-normal')


def _quiet(f, *a, **k):
    with warnings.catch_warnings():
        warnings.simplefilter('ignore')
        logging.disable(logging.WARNING)
        try:
            return f(*a, **k)
        finally:
            logging.disable(logging.NOTSET)


# ------------------------------------------------------------------------------ correspondence

def corr_sort(ctx):
    rng = ctx.rng
    cases = []
    for _ in range(ctx.n(150, 600)):
        n = rng.choice([2, 3, 3, 3, 4, 8])
        col = rng.sample(range(0, 60), n) if rng.random() < 0.8 else [rng.randrange(0, 6) for _ in range(n)]
        got = np.sort(np.array(col, dtype=np.int64).reshape(-1, 1), axis=0)[:, 0].tolist()
        cases.append((cnats(col), cnats(got), ('sort', col)))
    ctx.corr('np_sort_axis0', 'Require Import Model.C03_Orient.\nFrom Coq Require Import List.', 'sort_col', 'nats_eqb', cases,
             nontrivial=lambda r: len(set(r[1])) >= 3)


def corr_orient(ctx):
    """the REAL ElementHcurl.orient / ElementHdiv.orient on random renumbered meshes vs the generated expressions"""
    import skfem.element as E
    rng = np_seed(ctx, 31)
    hc, hd = [], []
    confs = [('RefTri', E.ElementTriN1, 'hcurl'), ('RefTri', E.ElementTriN2, 'hcurl'), ('RefQuad', E.ElementQuadN1, 'hcurl'),
             ('RefTet', E.ElementTetN1, 'hcurl'), ('RefTri', E.ElementTriRT1, 'hdiv'), ('RefTri', E.ElementTriRT2, 'hdiv'),
             ('RefQuad', E.ElementQuadRT1, 'hdiv'), ('RefTet', E.ElementTetRT1, 'hdiv'), ('RefHex', E.ElementHexRT1, 'hdiv'),
             ('RefTri', E.ElementTriBDM1, 'hdiv')]
    for rd, cls, fam in confs:
        for rep in range(ctx.n(1, 3)):
            kind = 'delaunay' if rd in ('RefTri', 'RefTet') else 'jiggled'
            m, desc = _quiet(c03_oracle.make_mesh, rd, kind, rng)
            e = cls()
            mapping = m._mapping()
            nb = int(sum(e._bfun_counts()))
            for i in range(nb):
                ori = np.asarray(e.orient(mapping, i)).astype(int)
                if fam == 'hcurl':
                    per = e.facet_dofs if m.dim() == 2 else e.edge_dofs
                    ix = int(i / per)
                    tab = m.refdom.facets if m.dim() == 2 else m.refdom.edges
                    if ix >= len(tab):
                        if not np.all(ori == 1):
                            ctx.fail(f'elem={cls.__name__}:orient-interior', 'interior DOF with orientation != 1',
                                     dict(desc, element=cls.__name__, i=i))
                        continue
                    t1, t2_ = tab[ix]
                    for c in range(m.t.shape[1]):
                        hc.append((cpair(cz(m.t[t1, c]), cz(m.t[t2_, c])), cz(ori[c]), (cls.__name__, i, c)))
                else:
                    ix = int(i / e.facet_dofs)
                    if ix >= m.refdom.nfacets:
                        if not np.all(ori == 1):
                            ctx.fail(f'elem={cls.__name__}:orient-interior', 'interior DOF with orientation != 1',
                                     dict(desc, element=cls.__name__, i=i))
                        continue
                    for c in range(m.t.shape[1]):
                        hd.append((cpair(cz(m.f2t[0, m.t2f[ix, c]]), cz(c)), cz(ori[c]), (cls.__name__, i, c)))
    lim = ctx.n(1200, 4000)
    hc = [hc[k] for k in sorted(ctx.rng.sample(range(len(hc)), min(lim, len(hc))))]
    hd = [hd[k] for k in sorted(ctx.rng.sample(range(len(hd)), min(lim, len(hd))))]
    imp = 'Require Import Model.C03_Orient Gen.C03_Gen.\nFrom Coq Require Import List ZArith.'
    ctx.corr('hcurl_orient', imp, '(fun ab => gen_hcurl_ori (fst ab) (snd ab))', 'Z.eqb', hc, nontrivial=lambda r: True)
    ctx.corr('hdiv_orient', imp, '(fun fc => gen_hdiv_ori (fst fc) (snd fc))', 'Z.eqb', hd, nontrivial=lambda r: True)
    ctx.sample({'kind': 'orient correspondence', 'hcurl_case(a,b)->ori': [hc[3][0], hc[3][1]], 'hdiv_case(first,cell)->ori': [hd[5][0], hd[5][1]]})


# ------------------------------------------------------------------------------ oracle

def oracle(ctx, only=None):
    rng = np_seed(ctx, 17)
    C = _quiet(c03_oracle.claims)
    ctx.extra['claims'] = {k: {'continuity': v[1], 'mesh_kinds': list(v[2])} for k, v in C.items()}
    ctx.extra['not_claimed'] = c03_oracle.NOT_CLAIMED
    worst = {}
    secs = {}
    for label, (f, kind, kinds, opt) in C.items():
        if only is not None and label != only and c03_oracle.fail_key(label, '') != c03_oracle.fail_key(only, ''):
            continue
        t0 = time.time()
        e = _quiet(f)
        rd = e.refdom.__name__
        reps = ctx.n(1, 4)
        if opt.get('heavy') and ctx.quick():
            kinds = kinds[:1]
        for mk in kinds:
            for rep in range(reps):
                for attempt in range(3):
                    m, desc = _quiet(c03_oracle.make_mesh, rd, mk, rng, reorder=not opt.get('no_reorder'),
                                     min_quality=0.45 if 'tol' in opt else 0.0)
                    if np.count_nonzero(m.f2t[1] != -1) > 0:
                        break
                parent = None
                if mk in ('novalidate', 'derived', 'init'):
                    c03_oracle.check_sorted(m, desc, ctx.fail)
                if mk == 'adaptive':
                    c03_oracle.check_sorted(m, desc, ctx.fail)
                    c03_oracle.check_parent_untouched(ctx.fail)
                    if c03_oracle.LAST_PARENT:
                        parent = (c03_oracle.LAST_PARENT['mesh'], c03_oracle.LAST_PARENT['desc'])
                        c03_oracle.check_sorted(parent[0], parent[1], ctx.fail)
                try:
                    n, w = _quiet(c03_oracle.jumps, m, label, f, kind, rng, ctx.fail, desc, tol=opt.get('tol', c03_oracle.TOL))
                except Exception as ex:  # noqa — exception of the implementation on a valid mesh: failing input
                    import traceback
                    ctx.fail(c03_oracle.fail_key(label, 'exception'), f'{label} on {type(m).__name__} ({mk}): {type(ex).__name__}: {ex}',
                             dict(desc, element=label, traceback=traceback.format_exc()[-1500:]))
                    continue
                if parent is not None and np.count_nonzero(parent[0].f2t[1] != -1) > 0:
                    # the parent mesh is used again AFTER a mesh was derived from it
                    try:
                        n2, w2 = _quiet(c03_oracle.jumps, parent[0], label, f, kind, rng, ctx.fail, parent[1],
                                        tol=opt.get('tol', c03_oracle.TOL))
                        n += n2
                        w = max(w, w2)
                    except Exception as ex:  # noqa
                        import traceback
                        ctx.fail(c03_oracle.fail_key(label, 'exception'), f'{label} on the parent mesh after refinement: {type(ex).__name__}: {ex}',
                                 dict(parent[1], element=label, traceback=traceback.format_exc()[-1500:]))
                ctx.cov['evaluations'] += n
                ctx.count(('jump', label, mk, desc['p'], desc['t']), nontrivial=np.count_nonzero(m.f2t[1] != -1) >= 2)
                ctx.hist('mesh_kind', mk)
                ctx.hist('refdom', rd)
                ctx.hist('continuity', kind)
                cls = 'global' if 'tol' in opt else 'reference'
                worst[cls] = max(worst.get(cls, 0.0), w if w < 1e-3 else 0.0)
        secs[label] = round(time.time() - t0, 2)
    ctx.extra['api_coverage'] = API_COVERAGE
    ctx.extra['max_scaled_jump_passing'] = worst
    ctx.extra['tolerance'] = {'reference-defined elements': c03_oracle.TOL, 'ElementGlobal family': c03_oracle.GLOBAL_TOL}
    ctx.extra['oracle_seconds'] = secs
    ctx.sample({'kind': 'oracle', 'elements': len(C), 'max_scaled_jump_passing': worst})


# public mesh-producing / basis-producing callables of the anchor files (mesh.py, mesh_tri_1.py, mesh_simplex.py, dofs.py,
# facet_basis.py, interior_facet_basis.py), measured by running the oracle under sys.setprofile (coverage audit)
API_COVERAGE = [
    {'callable': 'default constructors Mesh*(p, t) incl. validate=False, sort_t=False; MeshTri2/Quad2/Tet2/Hex2.from_mesh; init_tensor; '
                 'MeshTri * MeshLine (wedge)', 'before': 'covered', 'now': 'covered'},
    {'callable': 'Mesh.refined(int) / refined(marked), with_subdomains, with_boundaries, with_defaults, translated, scaled, oriented',
     'before': 'covered', 'now': 'covered (before and after refinement, parent re-used)'},
    {'callable': 'Mesh.mirrored, morphed, smoothed, restrict, remove_elements, remove_unused_nodes, remove_duplicate_nodes, copy, '
                 'to_dict/from_dict, save_npz/load_npz', 'before': 'not covered',
     'now': 'covered: mesh kind "derived" for every triangle / tetrahedron / quadrilateral / hexahedron claim, sortedness tie on MeshTri1'},
    {'callable': 'MeshTri.init_symmetric / init_sqsymmetric / init_lshaped / init_circle / init_refdom, MeshTri2.init_circle, '
                 'MeshTet.init_ball / init_refdom, MeshTet2.init_ball, MeshQuad/MeshHex.init_refdom', 'before': 'not covered',
     'now': 'covered: mesh kind "init"'},
    {'callable': 'InteriorFacetBasis(side=0/1, quadrature=...), FacetBasis.__init__, Dofs.__init__, AbstractBasis.interpolate, '
                 'ElementHcurl/ElementHdiv.orient', 'before': 'covered', 'now': 'covered'},
    {'callable': 'Mesh.save / load (meshio files)', 'before': 'not covered', 'now': 'not covered: file formats are C17; the in-memory '
                 'round trips to_dict/from_dict and npz are covered'},
    {'callable': 'Mesh.trace, CellBasis.boundary, FacetBasis.trace / project, Mesh.facets_around, nodes_satisfying, element_finder, '
                 'p2f/p2t/p2e/e2t, boundary_*/interior_nodes, normalize_*, is_valid, plot/draw; DofsView.*, Dofs.get_*_dofs',
     'before': 'not covered', 'now': 'out of scope for C03: boundary traces, point location, incidence tables (C11), DOF queries (C07)'},
]


# ------------------------------------------------------------------------------ the check

def run(ctx, only=None):
    ctx.trusted += ['symbolic executor vlib/c09_sym.py (corresponded with the numerical lbasis by check C09)',
                    'certificate generators of vlib/c03_gen.py (psi, signs, induced permutations: re-checked inside Coq)',
                    'ElementGlobal family (numerical Vandermonde inverse): Delaunay cells restricted to shape quality >= 0.45, final meshes to quality >= 0.36 and cell size >= 0.04 (float error grows like h^-5); InteriorFacetBasis / mapping.G / mapping.invF / mapping.normals of the library in the oracle (floats, tolerance '
                    f'{c03_oracle.TOL}, {c03_oracle.GLOBAL_TOL} for the ElementGlobal family)']
    ctx.assumptions += ['shared entity => shared global DOF number is C04; f2t lists exactly the cells of a facet is C11',
                        'the physical area-weighted normal of a mapped facet is |det| A^-T n (Nanson); not formalised',
                        'conformity claims per class (which trace must be continuous) are the hand-written table '
                        'vlib/c03_oracle.claims(); classes without a claim: ' + ', '.join(sorted(c03_oracle.NOT_CLAIMED)),
                        'effective-basis treatment for: ' + '; '.join(f'{k}: {v}' for k, v in c03_gen.TRACE_SPECIAL.items())
                        + '; no trace lemma for the ElementGlobal family, ElementLinePp (1-d), wedge (two facet kinds)']
    ctx.cov['rule'] = ('oracle: every element with a continuity claim x {delaunay, structured, jiggled, curved second-order} meshes of its '
                       'cell type, plus (simplices) default constructor with validate=False from unsorted connectivity, meshes with sorting explicitly off (sort_t=False / oriented(), elements with at most one DOF per facet or edge only), library-produced meshes: random with_subdomains / with_boundaries / with_defaults / translated / scaled, then refined(random marked cells) or refined(), followed by random uniform refinement / translated / scaled / with_boundaries / further adaptive steps (all of them, and the parent re-used after the derivation, must have sorted cells; p and t of the parent must be unchanged) x random vertex renumbering + cell permutation x random admissible local vertex order (any for '
                       'simplices, cyclic shifts for quadrilaterals, 24 rotations for hexahedra) through the default constructors x all '
                       'interior facets x 5-7 points per facet x a random coefficient vector; non-trivial = at least 2 interior facets; '
                       'distinct by mesh content')
    ctx.ensure_static()
    known = set(ctx.known.findings.get('C03', {}))
    gen_ok = True
    try:
        chunks9, _, info9, translated = _quiet(c09_gen.generate)
        claims = _quiet(c03_oracle.claims)
        conforming = [k for k, v in claims.items() if v[1].split('|')[0] in CONFORMING_KINDS]
        chunks3, summ3, info3 = c03_gen.generate(translated, conforming, known_keys=known)
        gen_txt, info_t2 = c03_t2.generate()
    except TranslateError as e:
        ctx.broke('translator', 'c03 generators (c09_gen / c03_gen / c03_t2)', e)
        gen_ok = False
    if gen_ok:
        ctx.extra['traced'] = info3['elements']
        ctx.extra['trace_lemma_skipped'] = info3['skipped']
        ctx.extra['t2'] = info_t2
        ctx.extra['exhaustive'] = 'per class and slot: polynomial identities decided for all facet points; finite list of classes'
        need = set(info3['sources'])
        ok9, _ = compile_generated(ctx, {k: v for k, v in chunks9.items() if k in need}, info9, tag='C09')
        ok3 = False
        if ok9:
            ok3, failing = compile_generated(ctx, chunks3, info3, tag='C03')
        ctx.write_gen('C03_Gen', gen_txt)
        if ok3:
            ctx.write_gen('C03_Traces', summ3)
            ctx.compile_dyn(['gen/C03_Traces.v', 'gen/C03_Gen.v'] + ctx.copy_dyn())
            ctx.prove()
        else:
            ctx.compile_dyn(['gen/C03_Gen.v'])
            ctx.broke('proof', 'props/C03.v', 'not compiled: generated trace identities failed')
        if ctx.known.findings.get('C03'):
            ctx.extra['known_refutations_on_coq_side'] = {k: info3['names'][k] for k in ('h1_symmetry_refuted', 'vector_uniform_refuted', 'quadp_shift_refuted')}
        corr_sort(ctx)
        _quiet(corr_orient, ctx)
    oracle(ctx, only=only)


def replay(ctx, data):
    inp = data.get('input', {})
    label = inp.get('element')
    ctx.log('replaying', data.get('key'), 'element', label)
    run(ctx, only=label)
