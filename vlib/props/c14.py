"""C14 — point location and point evaluation of discrete functions are exact.

tie T2 : vlib/c14_translate.py regenerates from /repo the inverse affine map (A, b, detA, invA, invF, F of
         mapping_affine.py), the inside tests and the control flow of the MeshTri1 / MeshTet1 finders, the simplex
         selections of MeshQuad1.to_meshtri / MeshHex1.to_meshtet / MeshWedge1.to_meshtet with their "% nt" finders and the
         reference cells, and the rows / cols / shape expressions of CellBasis.probes (+ literal check of interpolator and
         point_source).  coq/dyn/C14/*.v prove on these definitions: inside test (slack 0) <=> point in the closed
         simplex, finder sound / complete / raises for EVERY candidate list, split index map, split certificates,
         probes_spec.
tie T3 : correspondence by vm_compute — real finders on integer-coordinate meshes with dyadic points (simplex, split
         and 1-D finders; candidate lists recomputed as the code does), COO index arrays of probes.
search : vlib/c14_oracle.py — exact Fraction containment of every located point (vertices, edge points, interior,
         outside) on Delaunay / graded / anisotropic / non-convex meshes of all cell types; probes / interpolator /
         point_source against a one-point-at-a-time evaluation of the located cell's expansion; probes at quadrature
         points against interpolate.
"""
import time

from .. import c14_translate as T
from ..core import TranslateError
from .c15 import compile_parallel

GEN = [
    ('C14GenAffine', T.tr_affine),
    ('C14GenTri', lambda: T.tr_finder('tri')),
    ('C14GenTet', lambda: T.tr_finder('tet')),
    ('C14GenSplits', T.tr_splits),
    ('C14GenProbes', T.tr_probes),
    ('C14GenLine', T.tr_line),
]
DYN_LEVELS = [['C14_TieGeom', 'C14_TieSplit', 'C14_TieProbes', 'C14_TieLine'], ['C14_TieFinder', 'C14_SplitBary'],
              ['C14_TieQuad', 'C14_TieHexWedge']]


def regenerate(ctx):
    facts, written = {}, []
    for name, fn in GEN:
        try:
            txt, f = fn()
            ctx.write_gen(name, txt)
            facts[name] = f
            written.append(name)
        except TranslateError as e:
            ctx.broke('translator', name, e)
    return facts, written


def compile_all(ctx, written, facts):
    ok = compile_parallel(ctx, [f'gen/{n}.v' for n in written])
    ctx.copy_dyn()
    if 'C14GenSplits' in facts:
        try:
            ctx.write('dyn/C14_SplitBary.v', T.tr_split_bary(facts['C14GenSplits']))
        except TranslateError as e:
            ctx.broke('translator', 'C14_SplitBary', e)
    for lev in DYN_LEVELS:
        ok.update(compile_parallel(ctx, [f'dyn/{n}.v' for n in lev], kind='tie', timeout=600))
    return ok


def run(ctx):
    import threading
    import traceback
    from .. import c14_oracle as O
    ctx.trusted += [
        'scipy.spatial.cKDTree (outside the model: the theorems hold for every candidate list; the correspondence recomputes '
        'the candidates with the same tree)',
        'binary64 evaluation of the inside tests (the theorems are over Q; float behaviour is covered by the correspondence on '
        'integer meshes / dyadic points and by the exact-Fraction search)',
        'mathematical facts not formalised: contained + pairwise disjoint interiors + equal volume => the split simplices tile '
        'the cell; lift from the reference cell to parallelogram / box cells',
    ]
    ctx.assumptions += ['cells are non-degenerate (detA != 0) and, for non-simplex meshes, convex with planar faces '
                        '(hexahedra with non-planar faces: search only)',
                        'query points of the correspondence are interior with margin or outside with margin; on-mesh points are '
                        'judged by the exact search']
    ctx.cov['rule'] = ('correspondence: batches of 1-6 dyadic points on integer-coordinate Delaunay (2-D, 3-D), sheared tensor '
                       '(quad, hex, prism) and permuted 1-D meshes, real result (cells or error) == model by vm_compute; COO index '
                       'arrays of probes for scalar / vector / tensor-valued elements. search: exact containment of located points of '
                       'every kind; probes vs one-point evaluation. non-trivial = at least two cells (finder) / two points (probes); '
                       'distinct by content')
    ctx.ensure_static()
    t = time.time()
    facts, written = regenerate(ctx)
    ok = {}

    def coq_side():
        try:
            ok.update(compile_all(ctx, written, facts))
            ctx.prove()
            ctx.log(f'build+prove {time.time() - t:.1f}s')
        except Exception as e:      # noqa: BLE001
            ctx.broke('harness', type(e).__name__, traceback.format_exc())
    th = threading.Thread(target=coq_side)
    th.start()
    # meanwhile, on the real implementation (no Coq needed)
    coll = O.Collector()
    for stage in (lambda: O.search_witnesses(ctx), lambda: O.correspond(ctx, facts, coll), lambda: O.search_finders(ctx), lambda: O.search_probes(ctx),
                  lambda: O.search_probes_general(ctx), lambda: O.search_probes_restricted(ctx),
                  lambda: O.search_zero_points(ctx), lambda: O.search_explicit_mapping(ctx), lambda: O.search_api(ctx)):
        try:
            stage()
        except Exception as e:      # noqa: BLE001 - a crash of one stage must not hide what the others find
            ctx.broke('harness', type(e).__name__, traceback.format_exc())
    th.join()
    try:
        O.run_correspondence(ctx, coll, ok)
    except Exception as e:      # noqa: BLE001
        ctx.broke('harness', type(e).__name__, traceback.format_exc())


def replay(ctx, data):
    from .. import c14_oracle as O
    ctx.log('replaying', data.get('key'))
    O.replay(ctx, data)
