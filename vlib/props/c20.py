"""C20 — autodiff Jacobian; integrand helpers equal their definitions.

tie T2 : Gen/C20Gen_np.v, Gen/C20Gen_jx.v are regenerated from skfem/helpers.py and skfem/autodiff/helpers.py by
         symbolic execution of the ast (vlib/c20_tr.py, fail closed); Gen/C20Agree.v holds one generated lemma per
         helper present in both modules; Gen/C20Gen_nl.v holds the COO bookkeeping pieces of NonlinearForm._assemble
         (vlib/c20_nl.py) that Dyn/C20_NonlinTie.v proves equal to the model of Model/C20_Nonlin.v.
proof  : coq/props/C20.v (helpers for ALL 2x2/3x3 inputs over any commutative ring/field; Jacobian/residual placement,
         linear integrand => (A, b - A x)).  jax.linearize/jvp is a Section variable (trusted, external): partial.
corr   : every generated helper term is run by vm_compute on Q on the inputs given to the real helper (NumPy arrays /
         DiscreteFields, jax arrays / JaxDiscreteFields, random trailing axes) and compared exactly.
oracle : helpers vs independent formulas / numpy.linalg on random integer tensors of all admissible shapes, both
         variants; NonlinearForm vs central finite differences of a hand-written NumPy residual, vs hand-linearised
         bilinear forms, and "linear integrand == ordinary assembly".
"""
import itertools
import json
import os

import numpy as np

from .. import c20_nl, c20_nlo, c20_ops, c20_tr
from ..core import TranslateError, clist, cnat, np_seed

# ------------------------------------------------------------------------------------------- real calls


def _mods():
    import skfem.helpers as H
    import skfem.autodiff.helpers as JH
    return H, JH


def _rand_int(rng, shape, lo=-4, hi=4):
    return rng.integers(lo, hi + 1, size=shape).astype(float)


def _rand_unimodular(rng, n, trail):
    """integer matrices with det in {+-1, +-2, +-4}: the cofactor/det inverse is exact in binary64"""
    out = np.zeros((n, n) + trail)
    for t in itertools.product(*[range(k) for k in trail]):
        while True:
            A = rng.integers(-3, 4, size=(n, n))
            d = round(np.linalg.det(A))
            if abs(d) in (1, 2, 4):
                break
        out[(slice(None), slice(None)) + t] = A
    return out


def build_args(spec, n, trail, rng, variant, func, int_dtype=False):
    """python arguments for the real helper + the arrays in the order of the translator's parameters"""
    from skfem.element import DiscreteField
    flat = []

    def arr(r):
        if func == 'inv' and r == 2:
            a = _rand_unimodular(rng, n, trail)
        else:
            a = _rand_int(rng, (n,) * r + trail)
        flat.append((r, a))
        if int_dtype:                       # integer-valued input handed over with an INTEGER dtype
            a = a.astype(np.int64)
        if variant == 'jx':
            import jax.numpy as jnp
            return jnp.asarray(a)
        return a

    def mk(sp):
        if sp[0] == 'arr':
            return arr(sp[1])
        if sp[0] == 'field':
            kw = {}
            for a in c20_tr.FIELD_ATTRS:
                if sp[1].get(a) is not None:
                    kw[a] = arr(sp[1][a])
            if variant == 'jx':
                from skfem.autodiff import JaxDiscreteField
                return JaxDiscreteField(**kw)
            return DiscreteField(**kw)
        if sp[0] == 'none':
            return None
        if sp[0] == 'n':
            return n
        if sp[0] == 'tuple':
            return tuple(mk(s) for s in sp[1])
        raise AssertionError(sp)
    return [mk(s) for s in spec], flat


def needs_two_trailing(func, spec):
    return func in ('inner', 'identity') or any(s[0] == 'field' for s in spec)


def pick_n(scen_n, func, rng):
    if scen_n != 'n':
        return int(scen_n)
    if func == 'div':
        return int(rng.choice([2, 3]))
    return int(rng.choice([1, 2, 2, 3, 3, 4]))


def real_call(variant, func, args):
    H, JH = _mods()
    out = getattr(H if variant == 'np' else JH, func)(*args)
    return np.asarray(out, dtype=float)


# ------------------------------------------------------------------------------------------- correspondence

CORR_DEFS = '''
Close Scope Q_scope.
Definition sc (l : list Q) : Q := nth 0 l 0%Q.
Definition un1 (n : nat) (l : list Q) : vec Q := fun i => nth i l 0%Q.
Definition un2 (n : nat) (l : list Q) : mat Q := fun i j => nth (i * n + j) l 0%Q.
Definition un3 (n : nat) (l : list Q) : ten3 Q := fun i j k => nth ((i * n + j) * n + k) l 0%Q.
Definition un4 (n : nat) (l : list Q) : ten4 Q := fun i j k m => nth (((i * n + j) * n + k) * n + m) l 0%Q.
Definition tb0 (n : nat) (x : Q) : list Q := [x].
Definition tb4 (n : nat) (T : ten4 Q) : list Q :=
  flat_map (fun i => flat_map (fun j => flat_map (fun k => map (T i j k) (seq 0 n)) (seq 0 n)) (seq 0 n)) (seq 0 n).
'''
UN = {0: 'sc', 1: 'un1 n', 2: 'un2 n', 3: 'un3 n', 4: 'un4 n'}
TB = {0: 'tb0 n', 1: 'tab1 n', 2: 'tab2 n', 3: 'tab3 n', 4: 'tb4 n'}


def corr_dispatch(names, meta):
    L = ['Definition run_case (c : nat * (nat * list (list Q))) : list Q :=',
         "  let '(tag, (n, a)) := c in", '  let arg k := nth k a [] in', '  match tag with']
    for tag, name in enumerate(names):
        params, rr, sn = meta[name]
        ps = [p for p in params if p[1] != 'nat']
        call = name + (' n' if sn == 'n' else '') + ''.join(f' ({UN[r]} (arg {k}%nat))' for k, (_, r) in enumerate(ps))
        L.append(f'  | {tag}%nat => {TB[rr]} ({call})')
    L.append('  | _ => [] end.')
    return '\n'.join(L) + '\n'


def q_of(x):
    from fractions import Fraction
    fr = Fraction(float(x))
    return f'(Qmake ({fr.numerator})%Z {fr.denominator}%positive)'


def helper_correspondence(ctx, scen_by_variant, meta, rng):
    names, cases = [], []
    per = ctx.n(5, 30)
    for variant, scen in scen_by_variant:
        for name, func, sn, spec in scen:
            if name not in meta:
                continue
            tag = len(names)
            names.append(name)
            for _ in range(per):
                n = pick_n(sn, func, rng)
                nt = 2 if needs_two_trailing(func, spec) else int(rng.integers(0, 4))
                if ctx.quick():          # a fixed shape per number of trailing axes: jax compiles each primitive once per shape
                    trail = {0: (), 1: (3,), 2: (2, 3), 3: (2, 2, 2)}[nt]
                else:
                    trail = tuple(int(x) for x in rng.integers(1, 4, size=nt))
                if name.endswith('div_1d'):
                    n = 1
                    trail = (max(trail[0], 2),) + trail[1:]
                as_int = bool(rng.integers(0, 2))
                args, flat = build_args(spec, n, trail, rng, variant, func, int_dtype=as_int)
                ctx.hist('helper_input_dtype', 'int64' if as_int else 'float64')
                out = real_call(variant, func, args)
                rr = meta[name][1]
                if out.shape != (n,) * rr + trail:
                    out = np.broadcast_to(out, (n,) * rr + trail) if out.ndim <= rr + len(trail) else out
                if out.shape != (n,) * rr + trail:
                    ctx.fail(f'shape:{name}', f'{variant}.{func} returned shape {out.shape}, expected {(n,) * rr + trail}',
                             {'helper': func, 'variant': variant, 'n': n, 'trailing': trail})
                    continue
                t = tuple(int(rng.integers(0, k)) for k in trail)
                ins = [a[(slice(None),) * r + t].reshape(-1) for r, a in flat]
                o = out[(slice(None),) * rr + t].reshape(-1)
                inp = f'({cnat(tag)}, ({cnat(n)}, {clist([clist([q_of(x) for x in v]) for v in ins])}))'
                cases.append((inp, clist([q_of(x) for x in o]), (name, n, trail, t)))
                ctx.hist('helper_trailing_axes', len(trail))
                ctx.hist('helper_extent', n)
    defs = CORR_DEFS + corr_dispatch(names, meta)
    bad = ctx.corr('helpers', 'From Coq Require Import List Arith QArith.\nRequire Import Base.C20_Ring Model.C20_Tensor '
                   'Gen.C20Gen_np Gen.C20Gen_jx.', 'run_case', 'qs_eqb', cases, defs=defs,
                   nontrivial=lambda r: r[1] >= 2)
    ctx.sample({'kind': 'helper correspondence', 'case': repr(cases[len(cases) // 2][2]), 'input': cases[len(cases) // 2][0][:300]})
    return bad, cases


# ------------------------------------------------------------------------------------------- helper oracle

def _perm_sign(p):
    s = 1
    for i in range(len(p)):
        for j in range(i + 1, len(p)):
            if p[i] > p[j]:
                s = -s
    return s


def leibniz_exact(A):
    """exact integer determinant over the two leading axes (Python ints)"""
    n = A.shape[0]
    if np.iscomplexobj(A):             # Gaussian integers: Python complex arithmetic on small integers is exact
        B = np.vectorize(complex, otypes=[object])(A)
    else:
        B = np.vectorize(int, otypes=[object])(A)
    tot = 0
    for p in itertools.permutations(range(n)):
        term = _perm_sign(p)
        for i in range(n):
            term = term * B[i, p[i]]
        tot = tot + term
    return np.asarray(tot, dtype=object)


EPS3 = np.zeros((3, 3, 3))
for _i, _j, _k in [(0, 1, 2), (1, 2, 0), (2, 0, 1)]:
    EPS3[_i, _j, _k] = 1
    EPS3[_i, _k, _j] = -1


def _eye_like(n, w):
    out = np.zeros((n, n) + np.shape(w), dtype=np.result_type(w, float))
    for i in range(n):
        out[i, i] = w
    return out


def _mv(A, x):
    return (A * x[None]).sum(1)


# name -> (helper, variants, argument builder(rng, n, trail) -> list of arrays, expected(list of arrays), admissible n)
def _oracle_table():
    def A(r):
        return lambda rng, n, tr: _rand_int(rng, (n,) * r + tr)
    T = [
        ('dot', 'dot', 'both', [A(1), A(1)], lambda u, v: (u * v).sum(0), (1, 2, 3, 4)),
        ('ddot', 'ddot', 'both', [A(2), A(2)], lambda u, v: (u * v).sum((0, 1)), (1, 2, 3)),
        ('dddot', 'dddot', 'both', [A(3), A(3)], lambda u, v: (u * v).sum((0, 1, 2)), (2, 3)),
        ('prod2', 'prod', 'both', [A(1), A(1)], lambda u, v: u[:, None] * v[None, :], (2, 3)),
        ('prod3', 'prod', 'both', [A(1), A(1), A(1)], lambda u, v, w: u[:, None, None] * v[None, :, None] * w[None, None, :], (2, 3)),
        ('mul', 'mul', 'both', [A(2), A(1)], _mv, (2, 3, 4)),
        ('mul_mm', 'mul', 'jx', [A(2), A(2)], lambda a, b: (a[:, :, None] * b[None, :, :]).sum(1), (2, 3)),
        ('trace', 'trace', 'both', [A(2)], lambda t: sum(t[i, i] for i in range(t.shape[0])), (1, 2, 3, 4)),
        ('transpose', 'transpose', 'both', [A(2)], lambda t: np.swapaxes(t, 0, 1), (2, 3)),
        ('det', 'det', 'both', [A(2)], lambda a: leibniz_exact(a).astype(complex if np.iscomplexobj(a) else float), (2, 3)),
        ('cross3', 'cross', 'np', [A(1), A(1)], lambda a, b: np.einsum('ijk,j...,k...->i...', EPS3, a, b), (3,)),
        ('cross2', 'cross', 'np', [A(1), A(1)], lambda a, b: a[0] * b[1] - a[1] * b[0], (2,)),
    ]
    return T


def operator_oracle(ctx, rng):
    """the arithmetic special methods of JaxDiscreteField vs the NumPy operator on the value arrays (exact: dyadic inputs,
    divisors are powers of two)"""
    import jax.numpy as jnp
    from skfem.autodiff import JaxDiscreteField
    import operator as op
    table = [('__add__', op.add, False), ('__radd__', op.add, True), ('__sub__', op.sub, False), ('__rsub__', op.sub, True),
             ('__mul__', op.mul, False), ('__rmul__', op.mul, True), ('__truediv__', op.truediv, False), ('__rtruediv__', op.truediv, True)]
    for name, fn, reflected in table:
        for kind in ('float', 'array', 'field'):
            if reflected and kind == 'field':
                continue                       # field (op) field dispatches to the non-reflected method
            for shape in ctx.n(((2, 3),), ((2, 3), (2, 2, 3), (4,))):
                a = rng.integers(-6, 7, size=shape) / 2.
                b = 2. ** rng.integers(-2, 3, size=shape) * rng.choice([-1., 1.], size=shape)
                if reflected and fn is op.truediv:
                    a, b = b, a               # the field is the divisor: keep it a power of two
                u = JaxDiscreteField(value=jnp.asarray(a))
                other_np = 4. if kind == 'float' else b
                other = 4. if kind == 'float' else (jnp.asarray(b) if kind == 'array' else JaxDiscreteField(value=jnp.asarray(b)))
                exp = fn(other_np, a) if reflected else fn(a, other_np)
                try:
                    got = np.asarray(fn(other, u) if reflected else fn(u, other), dtype=float)
                except Exception as e:  # noqa: BLE001
                    ctx.fail(f'jdf-operator:{name}:{kind}', f'JaxDiscreteField.{name} with a {kind} operand raises {type(e).__name__}: {e}',
                             {'method': name, 'other': kind, 'field_value': a.tolist()})
                    continue
                ctx.count(('jdf-op', name, kind, a.tolist(), np.asarray(other_np).tolist()))
                ctx.hist('field_operator', name)
                if got.shape != exp.shape or not np.array_equal(got, exp):
                    ctx.fail(f'jdf-operator:{name}:{kind}', f'JaxDiscreteField.{name} ({"other (op) field" if reflected else "field (op) other"}, '
                             f'other = {kind}) is not the NumPy operator on the values',
                             {'method': name, 'other': kind, 'field_value': a.tolist(), 'other_value': np.asarray(other_np).tolist(),
                              'got': got.tolist(), 'expected': np.asarray(exp).tolist()})
    a = rng.integers(-6, 7, size=(2, 3)) / 2.
    u = JaxDiscreteField(value=jnp.asarray(a))
    for k in (2, 3):
        got = np.asarray(u ** k, dtype=float)
        ctx.count(('jdf-pow', k, a.tolist()))
        if not np.array_equal(got, a ** k):
            ctx.fail(f'jdf-operator:__pow__:{k}', 'JaxDiscreteField.__pow__ is not the power of the values',
                     {'exponent': k, 'field_value': a.tolist(), 'got': got.tolist(), 'expected': (a ** k).tolist()})
    if True:                                  # c ** field (a missing __rpow__ is a TypeError on a valid integrand expression)
        e = rng.integers(-3, 4, size=(2, 3)).astype(float)
        ue = JaxDiscreteField(value=jnp.asarray(e))
        base = rng.integers(1, 5, size=(2, 3)).astype(float)
        for kind, b_np, b in (('float', 2., 2.), ('array', base, jnp.asarray(base))):
            try:
                got = np.asarray(b ** ue, dtype=float)
            except Exception as ex:  # noqa: BLE001
                ctx.fail(f'jdf-operator:__rpow__:{kind}', f'{kind} ** JaxDiscreteField raises {type(ex).__name__}: {ex}', {'exponent_field': e.tolist()})
                continue
            exp = np.power(b_np, e)
            ctx.count(('jdf-rpow', kind, e.tolist(), np.asarray(b_np).tolist()))
            ctx.hist('field_operator', '__rpow__')
            if got.shape != exp.shape or not np.allclose(got, exp, rtol=1e-13, atol=0):
                ctx.fail(f'jdf-operator:__rpow__:{kind}', 'c ** field is not c ** values (NumPy power)',
                         {'base': np.asarray(b_np).tolist(), 'exponent_field': e.tolist(), 'got': got.tolist(), 'expected': exp.tolist()})
    try:
        if not np.array_equal(np.asarray(-u, dtype=float), -a):
            ctx.fail('jdf-operator:__neg__', 'JaxDiscreteField.__neg__ is not the negated values', {'field_value': a.tolist()})
    except Exception as ex:  # noqa: BLE001
        ctx.fail('jdf-operator:__neg__', f'-field raises {type(ex).__name__}: {ex}', {'field_value': a.tolist()})


def helper_oracle(ctx, rng):
    H, JH = _mods()
    import jax.numpy as jnp
    reps = ctx.n(4, 40)
    trails = [(), (3,), (2, 3), (2, 2, 2)]
    operator_oracle(ctx, rng)
    maxdisc = 0.0
    for name, func, variants, builders, expected, ns in _oracle_table():
        for n in ns:
            for tr in trails:
                for _ in range(reps):
                    args = [b(rng, n, tr) for b in builders]
                    exp = np.asarray(expected(*args), dtype=float)
                    res = {}
                    if variants in ('both', 'np'):
                        res['np'] = np.asarray(getattr(H, func)(*args), dtype=float)
                        res['np-int64'] = np.asarray(getattr(H, func)(*[a.astype(np.int64) for a in args]), dtype=float)
                    if variants in ('both', 'jx'):
                        res['jx'] = np.asarray(getattr(JH, func)(*[jnp.asarray(a) for a in args]), dtype=float)
                        res['jx-int64'] = np.asarray(getattr(JH, func)(*[jnp.asarray(a.astype(np.int64)) for a in args]), dtype=float)
                    ctx.count((name, n, tr, [a.tolist() for a in args]), nontrivial=n >= 2)
                    ctx.hist('oracle_helper', name)
                    for v, got in res.items():
                        if got.shape != exp.shape or not np.array_equal(got, exp):
                            _report_helper(ctx, name, func, v, n, tr, args, got, exp)
                    # COMPLEX dtype (Gaussian integers): the helpers are dtype-generic tensor algebra
                    cargs = [a + 1j * b(rng, n, tr) for a, b in zip(args, builders)]
                    cexp = np.asarray(expected(*cargs), dtype=complex)
                    cres = {}
                    if variants in ('both', 'np'):
                        cres['np-complex128'] = np.asarray(getattr(H, func)(*cargs), dtype=complex)
                    if variants in ('both', 'jx'):
                        cres['jx-complex128'] = np.asarray(getattr(JH, func)(*[jnp.asarray(a) for a in cargs]), dtype=complex)
                    ctx.count((name, n, tr, 'complex', [a.tolist() for a in cargs]), nontrivial=n >= 2)
                    for v, got in cres.items():
                        if got.shape != cexp.shape or not np.array_equal(got, cexp):
                            _report_helper(ctx, name, func, v, n, tr, cargs, got, cexp)
    # jump: (-1) ** w.idx[i] * args[i]
    from skfem.assembly.form.form import FormExtraParams
    for idx in (None, (0, 1), (1, 0), (0,), (1,)):
        a1, a2 = _rand_int(rng, (2, 3)), _rand_int(rng, (2, 3))
        w = FormExtraParams({} if idx is None else {'idx': idx})
        argsj = (a1, a2) if idx is None or len(idx) == 2 else (a1,)
        got = H.jump(w, *argsj)
        got = list(got) if isinstance(got, (tuple, list)) else [got]
        exp = [a if idx is None else (-1.) ** idx[k] * a for k, a in enumerate(argsj)]
        ctx.count(('jump', idx, a1.tolist(), a2.tolist()))
        ctx.hist('oracle_helper', 'jump')
        if len(got) != len(exp) or not all(np.array_equal(np.asarray(g), e) for g, e in zip(got, exp)):
            ctx.fail(f'np-jump:idx={idx}', 'helper jump differs from (-1)**idx[i] * arg_i',
                     {'idx': idx, 'args': [a.tolist() for a in argsj], 'got': [np.asarray(g).tolist() for g in got]})
    # inverse: exact on unimodular-like input, and against numpy.linalg on general well-conditioned integer input
    for n in (2, 3):
        for tr in trails:
            for _ in range(reps):
                Aex = _rand_unimodular(rng, n, tr)
                goti = np.asarray(H.inv(Aex.astype(np.int64)), dtype=float)
                got = np.asarray(H.inv(Aex), dtype=float)
                if goti.shape != got.shape or not np.array_equal(goti, got):
                    _report_helper(ctx, 'inv', 'inv', 'np-int64', n, tr, [Aex.astype(np.int64)], goti, got)
                ref = np.moveaxis(np.linalg.inv(np.moveaxis(Aex, (0, 1), (-2, -1))), (-2, -1), (0, 1))
                prod = (Aex[:, :, None] * got[None, :, :]).sum(1)
                ctx.count(('inv', n, tr, Aex.tolist()))
                ctx.hist('oracle_helper', 'inv')
                if not np.array_equal(prod, _eye_like(n, np.ones(tr))):
                    _report_helper(ctx, 'inv', 'inv', 'np', n, tr, [Aex], got, ref)
                maxdisc = max(maxdisc, float(np.abs(got - ref).max()))
                Ag = _rand_int(rng, (n, n) + tr)
                d = leibniz_exact(Ag).astype(float)
                if np.all(np.abs(d) >= 1):
                    got = np.asarray(H.inv(Ag), dtype=float)
                    ref = np.moveaxis(np.linalg.inv(np.moveaxis(Ag, (0, 1), (-2, -1))), (-2, -1), (0, 1))
                    err = float(np.abs(got - ref).max())
                    maxdisc = max(maxdisc, err)
                    ctx.count(('inv-general', n, tr, Ag.tolist()))
                    if err > 1e-9:
                        _report_helper(ctx, 'inv', 'inv', 'np', n, tr, [Ag], got, ref)
    ctx.extra['helper_inv_max_abs_discrepancy_vs_numpy_linalg'] = maxdisc
    ctx.extra['helper_inv_tolerance'] = 1e-9
    # field-valued helpers on real-shaped DiscreteFields (nel, nqp trailing), both variants
    from skfem.element import DiscreteField
    from skfem.autodiff import JaxDiscreteField
    for n in (2, 3):
        for _ in range(reps):
            tr = (int(rng.integers(1, 4)), int(rng.integers(1, 4)))
            val, G = _rand_int(rng, (n,) + tr), _rand_int(rng, (n, n) + tr)
            u = DiscreteField(value=val, grad=G)
            ju = JaxDiscreteField(value=jnp.asarray(val), grad=jnp.asarray(G))
            checks = [('sym_grad', H.sym_grad(u), JH.sym_grad(ju), 0.5 * (G + np.swapaxes(G, 0, 1))),
                      ('div', H.div(u), JH.div(ju), sum(G[i, i] for i in range(n))),
                      ('grad', H.grad(u), JH.grad(ju), G)]
            if n == 3:
                checks.append(('curl3', H.curl(u), None, np.einsum('ijk,kj...->i...', EPS3, G)))
            else:
                checks.append(('curl2', H.curl(u), None, G[1, 0] - G[0, 1]))
                s = DiscreteField(value=val[0], grad=val)
                checks.append(('curl_scalar2', H.curl(s), None, np.array([val[1], -val[0]])))
            w = _rand_int(rng, tr)
            checks.append(('eye', H.eye(w, n), JH.eye(jnp.asarray(w), n), _eye_like(n, w)))
            checks.append(('identity', H.identity(G), None, _eye_like(n, np.ones(tr))))
            checks.append(('identity_N', H.identity(w, N=n), None, _eye_like(n, np.ones(tr))))
            # the same with complex data (eye / identity / sym_grad / div / curl are dtype-generic)
            cval, cG = val + 1j * _rand_int(rng, (n,) + tr), G + 1j * _rand_int(rng, (n, n) + tr)
            cu = DiscreteField(value=cval, grad=cG)
            cju = JaxDiscreteField(value=jnp.asarray(cval), grad=jnp.asarray(cG))
            cw = w + 1j * _rand_int(rng, tr)
            checks += [('sym_grad-complex', H.sym_grad(cu), JH.sym_grad(cju), 0.5 * (cG + np.swapaxes(cG, 0, 1))),
                       ('div-complex', H.div(cu), JH.div(cju), sum(cG[i, i] for i in range(n))),
                       ('eye-complex', H.eye(cw, n), JH.eye(jnp.asarray(cw), n), _eye_like(n, cw)),
                       ('eye-int64', H.eye(w.astype(np.int64), n), JH.eye(jnp.asarray(w.astype(np.int64)), n), _eye_like(n, w))]
            if n == 3:
                checks.append(('curl3-complex', H.curl(cu), None, np.einsum('ijk,kj...->i...', EPS3, cG)))
            else:
                checks.append(('curl2-complex', H.curl(cu), None, cG[1, 0] - cG[0, 1]))
            for nm, a, b, exp in checks:
                ctx.count((nm, n, tr, val.tolist(), G.tolist()))
                ctx.hist('oracle_helper', nm)
                for v, got in (('np', a), ('jx', b)):
                    if got is None:
                        continue
                    got = np.asarray(got, dtype=complex if np.iscomplexobj(exp) else float)
                    if got.shape != np.shape(exp) or not np.array_equal(got, exp):
                        _report_helper(ctx, nm, nm, v, n, tr, [val, G], got, np.asarray(exp))


def _report_helper(ctx, name, func, variant, n, tr, args, got, exp):
    key = 'jax-det3' if (name == 'det' and variant == 'jx' and n == 3) else f'{variant}-{name}:n={n}'
    def lst(a):
        a = np.asarray(a)
        return [str(z) for z in a.reshape(-1)] if np.iscomplexobj(a) else a.tolist()
    data = {'helper': func, 'variant': variant, 'n': n, 'trailing_shape': list(tr), 'args': [lst(a) for a in args],
            'got': lst(got), 'expected': lst(exp)}
    if key == 'jax-det3':
        data.update(_shrink_det3(args[0], tr))
    ctx.fail(key, f'{variant} helper {func} (n={n}) differs from its definition', data)


def _shrink_det3(A, tr):
    """one concrete 3x3 integer matrix on which skfem.autodiff.helpers.det differs from the Leibniz value, made small"""
    _, JH = _mods()
    import jax.numpy as jnp
    A = np.asarray(A).reshape(3, 3, -1)
    bad = None
    for k in range(A.shape[2]):
        M = A[:, :, k]
        if float(JH.det(jnp.asarray(M))) != float(leibniz_exact(M)):
            bad = M.copy()
            break
    if bad is None:
        return {}
    for i in range(3):
        for j in range(3):
            for cand in (0.0, 1.0):
                if bad[i, j] != cand:
                    T = bad.copy()
                    T[i, j] = cand
                    if float(JH.det(jnp.asarray(T))) != float(leibniz_exact(T)):
                        bad = T
                        break
    H, _ = _mods()
    return {'minimal_matrix': bad.tolist(), 'jax_det': float(JH.det(jnp.asarray(bad))), 'leibniz_exact': int(leibniz_exact(bad)),
            'numpy_linalg_det': float(np.linalg.det(bad)), 'numpy_variant_det': float(H.det(bad))}


def raising_scenarios(ctx, variant, scen, raises, rng):
    """a scenario under which the model says the helper raises: confirm on the implementation -> failing input"""
    for name, (func, what) in raises.items():
        spec = [s for s in scen if s[0] == name][0]
        n = pick_n(spec[2], func, rng)
        args, flat = build_args(spec[3], n, (2, 3), rng, variant, func)
        key = 'jax-div-hdiv-field' if name == 'jx_div_hdiv' else f'{name}-raises'
        if name == 'jx_div_1d':
            n = 1
        try:
            H, JH = _mods()
            out = getattr(H if variant == 'np' else JH, func)(*args)
            if out is None:
                raise TypeError('the helper returned None')
        except Exception as e:  # noqa: BLE001 - the exception IS the observation
            ctx.fail(key, f'{"skfem.autodiff.helpers" if variant == "jx" else "skfem.helpers"}.{func} raises '
                     f'{type(e).__name__} on a valid argument (scenario {name}: {what})',
                     {'helper': func, 'variant': variant, 'scenario': name, 'exception': f'{type(e).__name__}: {e}',
                      'argument_attributes': {p: np.asarray(a).tolist() for (p, _), (_, a) in
                                              zip([(k, 0) for k in spec[3][0][1]] if spec[3][0][0] == 'field' else [], flat)}})
            continue
        ctx.broke('correspondence', f'raises:{name}', f'the model of {func} raises ({what}) but the implementation returns')


# ------------------------------------------------------------------------------------------- fresh-process precision oracle

FRESH_SCRIPT = r"""
import json, sys
import numpy as np
rng = np.random.default_rng(int(sys.argv[1]))
import skfem.helpers as H
import skfem.autodiff.helpers as JH          # NOTHING has been assembled in this process
import jax.numpy as jnp
out = []
n, tr = 3, (2, 3)
u, v, w3 = (rng.random((n,) + tr) + 0.1 for _ in range(3))
A, B = rng.random((n, n) + tr) + 0.1, rng.random((n, n) + tr) + 0.1
T = rng.random((n, n, n) + tr)
w = rng.random(tr)
cases = [('dot', (u, v)), ('ddot', (A, B)), ('dddot', (T, T[::-1])), ('prod', (u, v)), ('prod', (u, v, w3)), ('mul', (A, u)),
         ('trace', (A,)), ('transpose', (A,)), ('det', (A,)), ('det', (A[:2, :2],)), ('eye', (w, n))]
for name, args in cases:
    jargs = [jnp.asarray(a) if isinstance(a, np.ndarray) else a for a in args]
    rec = {'helper': name, 'nargs': len(args)}
    try:
        got = getattr(JH, name)(*jargs)
        ref = np.asarray(getattr(H, name)(*args), dtype=float)
        g = np.asarray(got)
        rec.update(dtype=str(g.dtype), input_dtype=str(jargs[0].dtype), err=float(np.abs(g.astype(float) - ref).max() / (1 + np.abs(ref).max())))
    except Exception as e:
        rec.update(error=type(e).__name__ + ': ' + str(e))
    out.append(rec)
print('RESULT ' + json.dumps(out))
"""


def fresh_process_start(ctx):
    """the JAX helpers used in a FRESH interpreter before any NonlinearForm is assembled must work in double precision"""
    import subprocess
    import sys
    return subprocess.Popen([sys.executable, '-c', FRESH_SCRIPT, str(ctx.seed)], env=dict(os.environ), stdout=subprocess.PIPE,
                            stderr=subprocess.PIPE, text=True)


def fresh_process_collect(ctx, proc):
    try:
        out, err = proc.communicate(timeout=600)
    except Exception:  # noqa: BLE001
        proc.kill()
        ctx.broke('harness', 'fresh-process oracle', 'timeout')
        return
    line = [ln for ln in out.split('\n') if ln.startswith('RESULT ')]
    if proc.returncode != 0 or not line:
        ctx.broke('harness', 'fresh-process oracle', (err or out)[-1200:])
        return
    worst = 0.0
    for rec in json.loads(line[0][7:]):
        ctx.count(('fresh-process', rec['helper'], rec['nargs']))
        ctx.hist('fresh_process_helper', rec['helper'])
        key = f"fresh-process-precision:{rec['helper']}"
        if 'error' in rec:
            ctx.fail(key, f"skfem.autodiff.helpers.{rec['helper']} raises in a fresh process: {rec['error']}", rec)
            continue
        worst = max(worst, rec['err'])
        if rec['dtype'] != 'float64' or rec['input_dtype'] != 'float64' or not rec['err'] <= 1e-12:
            ctx.fail(key, f"skfem.autodiff.helpers.{rec['helper']} used before any assembly: result dtype {rec['dtype']} (float64 data became "
                     f"{rec['input_dtype']}), relative deviation from the NumPy variant {rec['err']:.2e} > 1e-12",
                     dict(rec, how='fresh interpreter: import skfem.autodiff.helpers; call the helper on float64 data; no NonlinearForm assembled before'))
    ctx.extra['fresh_process_max_relative_deviation'] = worst


# ------------------------------------------------------------------------------------------- NonlinearForm bookkeeping

class NLStub:
    """duck-typed basis with integer-valued fields: the real NonlinearForm._assemble (jax.linearize included) returns
    exact integers for a quadratic integrand"""

    def __init__(self, N, edofs, tags, dx):
        from skfem.element import DiscreteField
        self.N = N
        self.element_dofs = np.array(edofs, dtype=np.int32)
        self.Nbfun, self.nelems = self.element_dofs.shape
        self.dx = np.array(dx, dtype=float)
        nq = self.dx.shape[1]
        self.basis = [(DiscreteField(np.array(t, dtype=float)[:, None] * np.ones((self.nelems, nq))),) for t in tags]

    def default_parameters(self):
        return {}


NL_DEFS = '''
Close Scope Q_scope.
Definition nth2n (t : list (list nat)) (i e : nat) : nat := nth e (nth i t []) 0%nat.
Definition nth2q (t : list (list Q)) (i e : nat) : Q := nth e (nth i t []) 0%Q.
Definition gq (W : list Q) (e : nat) (U V : Q) : Q := (nth e W 0 * (U * U * V + 3 * U * V - 2 * V))%Q.
Definition Dq (h : Q -> Q) (X0 W : Q) : Q := ((h (X0 + W) - h (X0 - W)) / 2)%Q.
Definition run_nl (c : nat * nat * list (list nat) * list (list Q) * list Q * list Q) :=
  let '(Nb, nt, ed, tg, Xs, Ws) := c in
  let X := fun e => nth e Xs 0%Q in
  let jl := seq 0 (gen_jac_len Nb nt) in
  let rl := seq 0 (gen_rhs_len Nb nt) in
  ((map (@jac_rows Q QOps Q gen_pieces Nb nt (nth2n ed) (nth2q tg) X (gq Ws) Dq) jl,
    map (@jac_cols Q QOps Q gen_pieces Nb nt (nth2n ed) (nth2q tg) X (gq Ws) Dq) jl,
    map (@jac_data Q QOps Q gen_pieces Nb nt (nth2n ed) (nth2q tg) X (gq Ws) Dq) jl),
   (map (@rhs_rows Q QOps Q gen_pieces Nb nt (nth2n ed) (nth2q tg) X (gq Ws) Dq) rl,
    map (@rhs_data Q QOps Q gen_pieces Nb nt (nth2n ed) (nth2q tg) X (gq Ws) Dq) rl)).
Definition nl_eqb (a b : (list nat * list nat * list Q) * (list nat * list Q)) : bool :=
  let '((r1, c1, d1), (rr1, rd1)) := a in let '((r2, c2, d2), (rr2, rd2)) := b in
  nats_eqb r1 r2 && nats_eqb c1 c2 && qs_eqb d1 d2 && nats_eqb rr1 rr2 && qs_eqb rd1 rd2.
'''


def nonlinear_correspondence(ctx, rng):
    import jax.numpy as jnp
    from skfem.autodiff import JaxDiscreteField, NonlinearForm
    from ..core import cnats

    def form(u, v, w):
        return u.value * u.value * v.value + 3. * u.value * v.value - 2. * v.value
    cases = []
    for c in range(ctx.n(30, 150)):
        Nb, nt, nq = int(rng.integers(1, 4)), int(rng.integers(1, 4)), int(rng.integers(1, 3))
        if c == 0:
            Nb, nt, nq = 3, 2, 2
        N = int(rng.integers(Nb, 2 * Nb + 3))
        edofs = rng.integers(0, N, size=(Nb, nt))
        tags = rng.integers(-3, 4, size=(Nb, nt))
        dx = rng.integers(1, 4, size=(nt, nq))
        Xs = rng.integers(-3, 4, size=nt)
        stub = NLStub(N, edofs, tags, dx)
        x = (JaxDiscreteField(value=jnp.asarray(Xs.astype(float)[:, None] * np.ones((nt, nq)))),)
        try:
            mat, vec = NonlinearForm(form)._assemble(stub, x=x)
        except Exception as e:  # noqa: BLE001 - an exception of the code under test on a valid input is a failing input
            ctx.fail('nonlinear-stub-exception', f'NonlinearForm._assemble raises {type(e).__name__} on a stub basis with integer data '
                     f'(linearisation point given as a JaxDiscreteField built before the assembly): {e}',
                     {'Nbfun': Nb, 'nelems': nt, 'edofs': edofs.tolist(), 'tags': tags.tolist(), 'dx': dx.tolist(), 'x': Xs.tolist(),
                      'x_dtype': str(x[0].value.dtype)})
            return
        if mat[2] != (N, N) or mat[3] != (Nb, Nb) or vec[2] != (N,) or vec[3] != (Nb,):
            ctx.fail('nonlinear-shapes', 'NonlinearForm._assemble returns wrong shape descriptors',
                     {'N': N, 'Nbfun': Nb, 'got': [mat[2], mat[3], vec[2], vec[3]]})
        rows, cols = (np.asarray(a).tolist() for a in mat[0])
        inp = (f'({cnat(Nb)}, {cnat(nt)}, {clist([cnats(r) for r in edofs.tolist()])}, '
               f'{clist([clist([q_of(t) for t in r]) for r in tags.tolist()])}, {clist([q_of(v) for v in Xs])}, '
               f'{clist([q_of(v) for v in dx.sum(1)])})')
        out = (f'(({cnats(rows)}, {cnats(cols)}, {clist([q_of(v) for v in np.asarray(mat[1])])}), '
               f'({cnats(np.asarray(vec[0][0]).tolist())}, {clist([q_of(v) for v in np.asarray(vec[1])])}))')
        cases.append((inp, out, ('nl-stub', Nb, nt, nq, edofs.tolist(), tags.tolist())))
        ctx.hist('nl_stub_Nbfun', Nb)
        ctx.hist('nl_stub_cells', nt)
    ctx.sample({'kind': 'NonlinearForm._assemble on a stub basis', 'input': cases[0][0], 'triplets_of_impl': cases[0][1][:400]})
    ctx.corr('nonlinear_bookkeeping', 'From Coq Require Import List Arith Bool QArith.\nRequire Import Base.C20_Ring '
             'Model.C20_Nonlin Gen.C20Gen_nl.', 'run_nl', 'nl_eqb', cases, defs=NL_DEFS,
             nontrivial=lambda r: r[1] >= 2 and r[2] >= 2)


# ------------------------------------------------------------------------------------------- the check

def run(ctx):
    ctx.trusted += ['jax.linearize / jax.jvp return true derivatives (external engine; Section variable D in the theorems)',
                    'numpy.einsum / jax.numpy.einsum on the nine subscript strings (mapped to fixed combinators; corresponded)',
                    'NumPy/JAX elementwise arithmetic and broadcasting over trailing axes (corresponded on random trailing shapes)']
    ctx.assumptions += ['helper theorems are over exact arithmetic in a commutative ring/field; binary64 rounding is not modelled',
                        'shape dispatch on len(x.shape) presumes the (nelems, nqp) trailing layout of DiscreteFields',
                        'operands of one helper call share their trailing axes and the extent n of all tensor axes',
                        'JAX differentiation is trusted: the Jacobian theorems take the differentiation oracle as a parameter (partial)']
    ctx.cov['rule'] = ('helper correspondence: every generated helper term x random extent n in 1..4 x random trailing shapes, small-integer '
                       'entries (exact); helper oracle: both variants vs independent formulas / numpy.linalg for n in 1..4 and trailing '
                       'shapes (),(3,),(2,3),(2,2,2); NonlinearForm: random meshes/elements/integrands/linearisation points; '
                       'non-trivial = extent >= 2 resp. at least 2 cells; distinct by content')
    ctx.extra['exhaustive_note'] = ('helper theorems: ring/field identities for ALL entries; extents 2 and 3 (closed forms) or every n '
                               '(einsum helpers, finite-sum algebra); NonlinearForm bookkeeping: all Nbfun, nt, dof tables by induction over folds')
    ctx.extra['helpers_not_covered'] = {'skfem/helpers.py': sorted(c20_tr.NP_SKIP), 'skfem/autodiff/helpers.py': sorted(c20_tr.JX_SKIP),
                                        'note': 'every other module-level function is translated; an unlisted new function is a TranslateError'}
    rng = np_seed(ctx)
    ctx.ensure_static()
    # 1. regenerate
    meta, raises, gen_ok = {}, {}, True
    try:
        tnp, mnp, rnp = c20_tr.generate('np')
        tjx, mjx, rjx = c20_tr.generate('jx')
        ctx.write_gen('C20Gen_np', tnp)
        ctx.write_gen('C20Gen_jx', tjx)
        ctx.write_gen('C20Agree', c20_tr.agreement_file(mnp, mjx))
        meta.update(mnp)
        meta.update(mjx)
        raises = {'np': rnp, 'jx': rjx}
    except TranslateError as e:
        ctx.broke('translator', 'c20_tr.generate(helpers.py, autodiff/helpers.py)', e)
        gen_ok = False
    nl_ok = True
    try:
        ctx.write_gen('C20Gen_nl', c20_nl.translate())
    except TranslateError as e:
        ctx.broke('translator', 'c20_nl.translate(autodiff/__init__.py: NonlinearForm._assemble)', e)
        nl_ok = False
    ops_present = []
    try:
        txt, ops_present = c20_ops.generate()
        ctx.write_gen('C20Gen_ops', txt)
        ops_ok = True
    except TranslateError as e:
        ctx.broke('translator', 'c20_ops.generate(autodiff/__init__.py: JaxDiscreteField special methods)', e)
        ops_ok = False
    # the failing-input searches do not depend on the Coq build: they run in a child process meanwhile (vlib/c20_child.py)
    import subprocess
    import sys
    out_json = os.path.join(ctx.bdir, 'oracle_result.json')
    child = subprocess.Popen([sys.executable, '-m', 'vlib.c20_child', str(ctx.seed), ctx.tier, out_json],
                             cwd=os.path.dirname(os.path.dirname(os.path.dirname(os.path.abspath(__file__)))),
                             env=dict(os.environ, PYTHONPATH=os.environ.get('PYTHONPATH', '')), stdout=subprocess.PIPE, stderr=subprocess.STDOUT, text=True)
    fresh = fresh_process_start(ctx)
    # 2. build + prove
    gens = ((['gen/C20Gen_np.v', 'gen/C20Gen_jx.v', 'gen/C20Agree.v'] if gen_ok else []) + (['gen/C20Gen_nl.v'] if nl_ok else [])
            + (['gen/C20Gen_ops.v'] if ops_ok else []))
    dyn = ctx.copy_dyn()
    if not gen_ok:
        dyn = [d for d in dyn if 'Nonlin' in d]
    if not nl_ok:
        dyn = [d for d in dyn if 'Nonlin' not in d]
    from .c10 import compile_parallel
    first = [g for g in gens if g != 'gen/C20Agree.v']
    compile_parallel(ctx, first)                          # independent generated files, then the files that import them
    compile_parallel(ctx, [g for g in gens if g == 'gen/C20Agree.v'] + dyn)
    ctx.prove()
    # 3. correspondence of the generated terms with the real helpers
    corr_error = None
    try:
      if gen_ok:
          helper_correspondence(ctx, [('np', c20_tr.NP_SCEN), ('jx', c20_tr.JX_SCEN)], meta, rng)
          for v, scen in (('np', c20_tr.NP_SCEN), ('jx', c20_tr.JX_SCEN)):
              raising_scenarios(ctx, v, scen, raises[v], rng)
      if nl_ok:
          nonlinear_correspondence(ctx, rng)
    except Exception:  # noqa: BLE001 - reported after the child processes have been collected
        import traceback
        corr_error = traceback.format_exc()
    # 4. oracles: started before the Coq work (own random stream), collected here
    fresh_process_collect(ctx, fresh)
    try:
        child_out, _ = child.communicate(timeout=ctx.n(600, 3000))
    except subprocess.TimeoutExpired:
        child.kill()
        child_out = 'timeout'
    if child.returncode != 0 or not os.path.exists(out_json):
        ctx.broke('harness', 'oracle child process', (child_out or '')[-1500:])
        return
    res = json.load(open(out_json))
    if res['error']:
        ctx.broke('harness', 'oracle child process', res['error'])
    for f in res['failures']:
        ctx.fail(f['key'], f['what'], f['data'])
    ctx.cov['evaluations'] += res['evaluations']
    ctx._distinct.update(res['distinct'])
    for k, d in res['hists'].items():
        for v, c in d.items():
            hd = ctx.extra.setdefault('distribution', {}).setdefault(k, {})
            hd[v] = hd.get(v, 0) + c
    ctx.extra.update(res['extra'])
    for smp in res['samples']:
        ctx.sample(smp)
    ctx.extra['oracle_child_seconds'] = round(res['seconds'], 1)
    if corr_error:
        ctx.broke('harness', 'correspondence stage', corr_error)


def replay(ctx, data):
    ctx.log('replaying', data.get('key'))
    run(ctx)
