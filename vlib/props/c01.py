"""C01 — assembled matrix, vector and scalar represent the weak form.

tie T2 : Gen/C01Gen.v = BilinearForm._assemble/_kernel, LinearForm._assemble/_kernel, Functional.*,
         COOData._assemble_scipy_csr/toarray/todefault re-read from the source (vlib/c01_translate.py, fail
         closed); dyn/C01Tie.v proves them equal to Model.C01_Assembly (conversion, else extensionally + nia)
         and transports the theorems.
proof  : props/C01.v — COO entries (all Nu, Nv, nt; rectangular), v^T A u = a(u_h, v_h), b^T v = l(v_h),
         s = J, mutual consistency, subset bases; over any commutative ring.
tie T3 : the REAL assemblers, COO->dense conversions and AbstractBasis.interpolate run on stub bases with
         integer tables (vlib/c01_stub.py); triplets / dense arrays / interpolants equal the model's by vm_compute.
oracle : |v^T A u - Functional(f(u_h, v_h))|, |b^T v - Functional(g(v_h))|, A u = b_u on real bases
         (vlib/c01_oracle.py), plus the keyword-parameter kinds of Form._normalize_asm_kwargs.
"""
import numpy as np

from .. import c01_stub as S
from .. import c01_translate
from ..core import TranslateError, clist, cnat, cnats, copt, cz

# ------------------------------------------------------------------------------------------ helpers


def _coo_term(res):
    ind, data, shape = res[0], res[1], res[2]
    ind = np.asarray(ind)
    rows = [cnats(r) for r in ind.reshape(len(shape), -1)] if len(shape) else []
    return f'({clist(rows)}, {clist([cz(x) for x in S.exact_ints(data)])}, {cnats(shape)})'


class NonInteger(Exception):
    pass


def _run(ctx, key, what, data, fn, expect_error=None):
    """run the implementation; an exception on a valid input is a failing input (not hidden)"""
    try:
        out = fn()
    except Exception as e:  # noqa
        if expect_error is not None and isinstance(e, expect_error):
            return None
        ctx.fail(key, f'{what}: unexpected {type(e).__name__}: {e}', data)
        return None
    if expect_error is not None:
        ctx.fail(key, f'{what}: expected {expect_error.__name__}, got a result', data)
    return out


def _tables(b):
    return {k: b.tables[k] for k in ('N', 'edofs', 'nt_full', 'nq', 'tind')}


# ------------------------------------------------------------------------------------------ correspondence

def _one_case(ctx, env, bil, bil_dense, lin, lin_dense, fun, itp):
    from skfem.assembly import BilinearForm, LinearForm, Functional
    (rng, key, info, k2, same, ub, vb, wc, wterm, ub_t, vb_t, inp, nontriv, Nu, Nv, nt, NU) = (
        env[n] for n in ('rng', 'key', 'info', 'k2', 'same', 'ub', 'vb', 'wc', 'wterm', 'ub_t', 'vb_t', 'inp', 'nontriv',
                         'Nu', 'Nv', 'nt', 'NU'))
    # --- BilinearForm._assemble: triplets
    form = BilinearForm(S.py_form2(k2))
    args = (ub,) if same else (ub, vb)
    res = _run(ctx, key + ':bilinear', 'BilinearForm._assemble on a stub basis', info, lambda: form._assemble(*args, c=wc))
    if res is not None:
        bil.append((inp, '(Some ' + _coo_term(res) + ')', ('bil', nontriv, info)))
        A = _run(ctx, key + ':assemble', 'BilinearForm.assemble on a stub basis', info, lambda: form.assemble(*args, c=wc))
        if A is not None:
            dense = A.toarray()
            el = form.elemental(*args, c=wc).toarray()
            if not np.array_equal(dense, el):
                ctx.fail(key + ':toarray', 'COOData.toarray differs from assemble().toarray()', info)
            rows = clist([clist([cz(x) for x in S.exact_ints(r)]) for r in dense])
            bil_dense.append((inp, f'(Some {rows})', ('bild', nontriv, info)))
    # --- LinearForm
    k1 = [rng.randint(-3, 3) for _ in range(3)]
    lform = LinearForm(S.py_form1(k1))
    inp1 = f'({clist([cz(x) for x in k1])}, {wterm}, {vb_t})'
    res = _run(ctx, key + ':linear', 'LinearForm._assemble on a stub basis', info, lambda: lform._assemble(vb, c=wc))
    if res is not None:
        lin.append((inp1, '(Some ' + _coo_term(res) + ')', ('lin', Nv >= 2 and nt >= 2, info)))
        b = _run(ctx, key + ':lassemble', 'LinearForm.assemble on a stub basis', info, lambda: lform.assemble(vb, c=wc))
        if b is not None:
            lin_dense.append((inp1, '(Some ' + clist([cz(x) for x in S.exact_ints(b)]) + ')', ('lind', Nv >= 2 and nt >= 2, info)))
    # --- Functional
    k0 = [rng.randint(-3, 3) for _ in range(3)]
    fform = Functional(S.py_form0(k0))
    el = _run(ctx, key + ':functional', 'Functional.elemental on a stub basis', info, lambda: fform.elemental(ub, c=wc))
    tot = _run(ctx, key + ':functional-assemble', 'Functional.assemble on a stub basis', info, lambda: fform.assemble(ub, c=wc))
    if el is not None and tot is not None:
        # direct oracle (also available when the translator fails closed): per-cell sums over the quadrature points
        wa, dxa = np.array(wc), np.array(ub.dx)
        ref = ((k0[0] * wa + k0[1] * wa * wa + k0[2]) * dxa).sum(-1)
        if np.shape(el) != ref.shape or not np.array_equal(el, ref) or float(np.asarray(tot)) != float(ref.sum()):
            ctx.fail(key + ':functional-value', 'Functional.elemental / assemble differ from the per-cell quadrature sums',
                     dict(info, k0=k0, elemental=np.asarray(el).tolist(), expected=ref.tolist(), total=float(np.asarray(tot))))
        fun.append((f'({clist([cz(x) for x in k0])}, {wterm}, {ub_t})',
                    f'({clist([cz(x) for x in S.exact_ints(el)])}, {cz(S.exact_ints(tot)[0])})', ('fun', nt >= 2, info)))
    # --- interpolate
    if Nu >= 1:
        wv = [rng.randint(-3, 3) for _ in range(NU)]
        f = _run(ctx, key + ':interpolate', 'AbstractBasis.interpolate on a stub basis', info,
                 lambda: ub.interpolate(np.array(wv, dtype=float)))
        if f is not None:
            val = clist([clist([f'({cz(a)}, {cz(b)})' for a, b in zip(S.exact_ints(np.array(f)[e]), S.exact_ints(f.grad[0][e]))])
                         for e in range(nt)])
            itp.append((f'({clist([cz(x) for x in wv])}, {ub_t})', val, ('itp', Nu >= 2 and nt >= 1, info)))


def correspond(ctx, gen_ok):
    from skfem.assembly import BilinearForm, LinearForm, Functional
    from skfem.element import DiscreteField
    Stub = S.make_stub_class()
    rng = ctx.rng
    ncase = ctx.n(45, 400)
    bil, bil_dense, lin, lin_dense, fun, itp = [], [], [], [], [], []
    for c in range(ncase):
        Nu, Nv = rng.randint(0, 4), rng.randint(0, 4)
        nt, nq = rng.randint(0, 5), rng.randint(1, 3)
        if c == 0:
            Nu, Nv, nt, nq = 2, 3, 2, 2
        elif c < 12:
            Nu, Nv = rng.randint(1, 4), rng.randint(1, 4)
            while Nv == Nu:
                Nv = rng.randint(1, 4)
            nt = rng.randint(2, 5)
        NU, NV = rng.randint(1, 2 * Nu + 2), rng.randint(1, 2 * Nv + 2)
        # a third of the cases restrict both bases to a list of cells (repeats allowed, unsorted)
        subset = (c % 3 == 2) and nt > 0
        nt_full = nt + rng.randint(0, 2) if subset else nt
        tu = [rng.randrange(nt_full) for _ in range(nt)] if subset else None
        tv = (tu if rng.random() < 0.5 else [rng.randrange(nt_full) for _ in range(nt)]) if subset else None
        dx = S.random_dx(rng, nt_full, nq)
        eu, bu, gu = S.random_tables(rng, NU, Nu, nt_full, nq)
        ev, bv, gv = S.random_tables(rng, NV, Nv, nt_full, nq)
        ub = Stub(NU, eu, bu, gu, dx, nt_full, nq, tu)
        vb = Stub(NV, ev, bv, gv, dx, nt_full, nq, tv)
        wt = [[rng.randint(-2, 3) for _ in range(nq)] for _ in range(nt)]
        wc = DiscreteField(np.array(wt, dtype=float).reshape(nt, nq))
        k2 = [rng.randint(-3, 3) for _ in range(4)]
        same = (c % 7 == 3)            # vbasis omitted: the default "vbasis = ubasis"
        info = {'Nu': Nu, 'Nv': Nv, 'nt': nt, 'nq': nq, 'u': _tables(ub), 'v': None if same else _tables(vb), 'k': k2, 'w': wt}
        key = 'stub'
        info['case'] = c
        ctx.hist('Nu,Nv', (Nu, Nv))
        ctx.hist('nt', nt)
        wterm = f'(tab2 {S.cz2(wt)})'
        ub_t, vb_t = S.coq_basis(ub.tables), S.coq_basis(vb.tables)
        vopt = 'None' if same else f'(Some {vb_t})'
        inp = f'({clist([cz(x) for x in k2])}, {wterm}, {ub_t}, {vopt})'
        nontriv = Nu != Nv and nt >= 2 and Nu >= 1 and Nv >= 1 and not same
        try:
            _one_case(ctx, locals(), bil, bil_dense, lin, lin_dense, fun, itp)
        except ValueError as e:      # S.exact_ints: the implementation returned a non-integer on integer tables
            ctx.fail(key + ':non-integer', f'stub computation is not exact: {e}'[:300], info)
    # --- TrilinearForm on three different stub bases
    from skfem.assembly import TrilinearForm
    tri, trid = [], []
    for c in range(ctx.n(10, 80)):
        Nu, Nv, Nw = rng.randint(1, 3), rng.randint(1, 3), rng.randint(1, 3)
        if c < 6:
            Nu, Nv, Nw = rng.sample([1, 2, 3], 3)
        nt, nq = rng.randint(0 if c % 8 == 7 else 1, 3), rng.randint(1, 2)
        dx = S.random_dx(rng, nt, nq)
        bs = [Stub(N, *S.random_tables(rng, N, nb, nt, nq, -2, 2), dx, nt, nq) for N, nb in
              ((rng.randint(2, 4), Nu), (rng.randint(2, 5), Nv), (rng.randint(2, 4), Nw))]
        wt = [[rng.randint(-2, 2) for _ in range(nq)] for _ in range(nt)]
        wc = DiscreteField(np.array(wt, dtype=float).reshape(nt, nq))
        k3 = [rng.randint(-2, 2) for _ in range(4)]
        mode = c % 4                       # 0: three bases, 1: wbasis omitted, 2: only ubasis, 3: three bases
        args = {0: bs, 1: bs[:2], 2: bs[:1], 3: bs}[mode]
        info = {'Nu,Nv,Nw': (Nu, Nv, Nw), 'nt': nt, 'nq': nq, 'k': k3, 'w': wt, 'bases': [_tables(b) for b in args], 'case': c}
        tform = TrilinearForm(S.py_form3(k3))
        terms = [S.coq_basis(b.tables) for b in args]
        opt = [f'(Some {t})' for t in terms[1:]] + ['None'] * (3 - len(terms))
        inp = f'({clist([cz(x) for x in k3])}, (tab2 {S.cz2(wt)}), {terms[0]}, {opt[0]}, {opt[1]})'
        ctx.hist('trilinear Nu,Nv,Nw', (Nu, Nv, Nw))
        try:
            res = _run(ctx, 'stub:trilinear', 'TrilinearForm._assemble on stub bases', info, lambda: tform._assemble(*args, c=wc))
            if res is not None:
                tri.append((inp, '(Some ' + _coo_term(res) + ')', ('tri', len({Nu, Nv, Nw}) == 3 and nt >= 2 and mode in (0, 3), info)))
                T = _run(ctx, 'stub:trilinear-toarray', 'TrilinearForm.assemble(...).toarray()', info, lambda: tform.assemble(*args, c=wc).toarray())
                if T is not None and c < 5:
                    # complex-valued trilinear form: the dense 3-tensor (COOData.toarray, N-tensor branch) keeps the imaginary part
                    f3 = S.py_form3(k3)
                    Tc = _run(ctx, 'stub:trilinear-complex', 'complex TrilinearForm.assemble(...).toarray()', info,
                              lambda: TrilinearForm(lambda u, v, w, p: (1.0 + 2.0j) * f3(u, v, w, p), dtype=np.complex128).assemble(*args, c=wc).toarray())
                    ctx.count(('trilinear-complex', info), nontrivial=True)
                    if Tc is not None and not np.array_equal(Tc, (1.0 + 2.0j) * np.asarray(T)):
                        ctx.fail('stub:trilinear-complex', 'the dense 3-tensor of a complex TrilinearForm is not (1+2j) times the real one '
                                 '(imaginary part lost in COOData.toarray)', dict(info, got_dtype=str(np.asarray(Tc).dtype)))
                if T is not None:
                    trid.append((inp, '(Some ' + clist([clist([clist([cz(x) for x in S.exact_ints(r)]) for r in m]) for m in T]) + ')',
                                 ('trid', True, info)))
        except ValueError as e:
            ctx.fail('stub:trilinear:non-integer', f'stub computation is not exact: {e}'[:300], info)
    # --- inputs the implementation rejects: the model must reject them too (None)
    for c in range(ctx.n(8, 30)):
        Nu, Nv, nq = rng.randint(1, 3), rng.randint(1, 3), rng.randint(1, 2)
        nt = rng.randint(2, 4)
        kind = c % 2
        nq_v = nq + 1 if kind == 0 else nq
        nt_v = nt if kind == 0 else nt + rng.choice([-1, 1, 2])
        if nt_v < 2:
            nt_v = nt + 1
        eu, bu, gu = S.random_tables(rng, 4, Nu, nt, nq)
        ev, bv, gv = S.random_tables(rng, 5, Nv, nt_v, nq_v)
        ub = Stub(4, eu, bu, gu, S.random_dx(rng, nt, nq), nt, nq)
        vb = Stub(5, ev, bv, gv, S.random_dx(rng, nt_v, nq_v), nt_v, nq_v)
        wt = [[1] * nq for _ in range(nt)]
        k2 = [1, 2, 3, 4]
        info = {'kind': ['quadrature mismatch', 'cell-count mismatch'][kind], 'u': _tables(ub), 'v': _tables(vb)}
        key = f'stub-reject:{kind}'
        _run(ctx, key, 'BilinearForm._assemble must reject ' + info['kind'], info,
             lambda: BilinearForm(S.py_form2(k2))._assemble(ub, vb, c=DiscreteField(np.array(wt, dtype=float))), expect_error=ValueError)
        bil.append((f'({clist([cz(x) for x in k2])}, (tab2 {S.cz2(wt)}), {S.coq_basis(ub.tables)}, (Some {S.coq_basis(vb.tables)}))',
                    'None', ('bil-reject', True, info)))
    if not gen_ok:
        return
    defs = S.COQ_DEFS + '''
Definition run_bil (c : list Z * (nat -> nat -> Z) * basis Z VZ * option (basis Z VZ)) :=
  let '(k, w, ub, vb) := c in
  match gen_bilinear_assemble Z 0%Z Z.add Z.mul VZ Z (form2 k) w ub vb with Some c => Some (coo_out c) | None => None end.
Definition run_bil_dense (c : list Z * (nat -> nat -> Z) * basis Z VZ * option (basis Z VZ)) :=
  let '(k, w, ub, vb) := c in
  match gen_bilinear_assemble Z 0%Z Z.add Z.mul VZ Z (form2 k) w ub vb with Some c => gen_to_dense2 Z 0%Z Z.add c | None => None end.
Definition run_lin (c : list Z * (nat -> nat -> Z) * basis Z VZ) :=
  let '(k, w, vb) := c in
  match gen_linear_assemble Z 0%Z Z.add Z.mul VZ Z (form1 k) w vb with Some c => Some (coo_out c) | None => None end.
Definition run_lin_dense (c : list Z * (nat -> nat -> Z) * basis Z VZ) :=
  let '(k, w, vb) := c in
  match gen_linear_assemble Z 0%Z Z.add Z.mul VZ Z (form1 k) w vb with Some c => gen_to_dense1 Z 0%Z Z.add c | None => None end.
Definition run_fun (c : list Z * (nat -> nat -> Z) * basis Z VZ) :=
  let '(k, w, b) := c in
  (gen_functional_elemental Z 0%Z Z.add Z.mul VZ Z (form0 k) w b,
   gen_to_scalar Z 0%Z Z.add (gen_functional_assemble Z 0%Z Z.add Z.mul VZ Z (form0 k) w b)).
Definition run_itp (c : list Z * basis Z VZ) :=
  let '(wv, b) := c in
  map (fun e => map (fun q => interp Z 0%Z VZ vaddZ vscaleZ b (vecZ wv) e q) (seq 0 (bnq b))) (seq 0 (bnelems b)).
Definition run_tri (c : list Z * (nat -> nat -> Z) * basis Z VZ * option (basis Z VZ) * option (basis Z VZ)) :=
  let '(k, w, ub, vb, wb) := c in
  match gen_trilinear_assemble Z 0%Z Z.add Z.mul VZ Z (form3 k) w ub vb wb with Some c => Some (coo_out c) | None => None end.
Definition run_tri_dense (c : list Z * (nat -> nat -> Z) * basis Z VZ * option (basis Z VZ) * option (basis Z VZ)) :=
  let '(k, w, ub, vb, wb) := c in
  match gen_trilinear_assemble Z 0%Z Z.add Z.mul VZ Z (form3 k) w ub vb wb with Some c => gen_to_dense3 Z 0%Z Z.add c | None => None end.
Definition zpair_eqb (a b : Z * Z) := Z.eqb (fst a) (fst b) && Z.eqb (snd a) (snd b).
'''
    defs += '''
Inductive cin :=
| CBil (c : list Z * (nat -> nat -> Z) * basis Z VZ * option (basis Z VZ))
| CBilD (c : list Z * (nat -> nat -> Z) * basis Z VZ * option (basis Z VZ))
| CLin (c : list Z * (nat -> nat -> Z) * basis Z VZ)
| CLinD (c : list Z * (nat -> nat -> Z) * basis Z VZ)
| CFun (c : list Z * (nat -> nat -> Z) * basis Z VZ)
| CItp (c : list Z * basis Z VZ)
| CTri (c : list Z * (nat -> nat -> Z) * basis Z VZ * option (basis Z VZ) * option (basis Z VZ))
| CTriD (c : list Z * (nat -> nat -> Z) * basis Z VZ * option (basis Z VZ) * option (basis Z VZ)).
Inductive cout :=
| OCoo (o : option (list (list nat) * list Z * list nat))
| ODense (o : option (list (list Z)))
| OVec (o : option (list Z))
| OFun (o : list Z * Z)
| OItp (o : list (list (Z * Z)))
| ODense3 (o : option (list (list (list Z)))).
Definition run_any (c : cin) : cout :=
  match c with
  | CBil x => OCoo (run_bil x) | CBilD x => ODense (run_bil_dense x) | CLin x => OCoo (run_lin x)
  | CLinD x => OVec (run_lin_dense x) | CFun x => OFun (run_fun x) | CItp x => OItp (run_itp x)
  | CTri x => OCoo (run_tri x) | CTriD x => ODense3 (run_tri_dense x)
  end.
Definition cout_eqb (a b : cout) : bool :=
  match a, b with
  | OCoo x, OCoo y => option_eqb out_eqb x y
  | ODense x, ODense y => option_eqb zss_eqb x y
  | OVec x, OVec y => option_eqb zs_eqb x y
  | OFun x, OFun y => pair_eqb zs_eqb Z.eqb x y
  | OItp x, OItp y => list_eqb (list_eqb zpair_eqb) x y
  | ODense3 x, ODense3 y => option_eqb zsss_eqb x y
  | _, _ => false
  end.
'''
    allc = ([(f'(CBil {i})', f'(OCoo {o})', r) for i, o, r in bil] + [(f'(CBilD {i})', f'(ODense {o})', r) for i, o, r in bil_dense]
            + [(f'(CLin {i})', f'(OCoo {o})', r) for i, o, r in lin] + [(f'(CLinD {i})', f'(OVec {o})', r) for i, o, r in lin_dense]
            + [(f'(CFun {i})', f'(OFun {o})', r) for i, o, r in fun] + [(f'(CItp {i})', f'(OItp {o})', r) for i, o, r in itp]
            + [(f'(CTri {i})', f'(OCoo {o})', r) for i, o, r in tri] + [(f'(CTriD {i})', f'(ODense3 {o})', r) for i, o, r in trid])
    for r in allc:
        ctx.hist('stub correspondence kind', r[2][0])
    bad = ctx.corr('stub_assembly', S.COQ_IMPORTS, 'run_any', 'cout_eqb', allc, per_file=(90 if ctx.quick() else 40), defs=defs, nontrivial=lambda r: r[1])
    for i in (bad or [])[:3]:
        ctx.log('disagreeing case:', allc[i][2][0], str(allc[i][2][2])[:300])
    if bil:
        ctx.sample({'kind': 'stub bilinear triplets (input term, implementation output)', 'input': bil[0][0][:600], 'output': bil[0][1][:400]})


# ------------------------------------------------------------------------------------------ parameter kinds

def param_kinds(ctx):
    """Form._normalize_asm_kwargs: a coefficient vector, the pre-interpolated field, a raw ndarray and a scalar
    must enter the three form types identically (exact integers on stubs)."""
    from skfem.assembly import BilinearForm, LinearForm, Functional
    from skfem.element import DiscreteField
    Stub = S.make_stub_class()
    rng = ctx.rng
    for c in range(ctx.n(12, 60)):
        Nu, Nv, nt, nq = rng.randint(1, 3), rng.randint(1, 3), rng.randint(1, 4), rng.randint(1, 3)
        dx = S.random_dx(rng, nt, nq)
        ub = Stub(5, *S.random_tables(rng, 5, Nu, nt, nq), dx, nt, nq)
        vb = Stub(6, *S.random_tables(rng, 6, Nv, nt, nq), dx, nt, nq)
        k2 = [rng.randint(-3, 3) for _ in range(4)]
        k1, k0 = k2[:3], k2[1:]
        vec = np.array([rng.randint(-3, 3) for _ in range(5)], dtype=float)
        arr = np.array([[rng.randint(-3, 3) for _ in range(nq)] for _ in range(nt)], dtype=float)
        sc = rng.randint(-3, 3)
        info = {'Nu': Nu, 'Nv': Nv, 'nt': nt, 'nq': nq, 'u': _tables(ub), 'v': _tables(vb), 'k': k2, 'vec': vec.tolist(), 'arr': arr.tolist(), 'scalar': sc}
        pairs = [('vector', vec, lambda b: b.interpolate(vec)),
                 ('ndarray', arr, lambda b: DiscreteField(arr)),
                 ('scalar', sc, lambda b: DiscreteField(np.full((nt, nq), float(sc)))),
                 ('float-scalar', float(sc), lambda b: DiscreteField(np.full((nt, nq), float(sc))))]
        for name, raw, field in pairs:
            key = f'param-kind:{name}'
            for fname, call in (('bilinear', lambda p: BilinearForm(S.py_form2(k2))._assemble(ub, vb, c=p)[1]),
                                ('linear', lambda p: LinearForm(S.py_form1(k1))._assemble(ub, c=p)[1]),
                                ('functional', lambda p: Functional(S.py_form0(k0)).elemental(ub, c=p))):
                a = _run(ctx, key + ':' + fname, f'{fname} form with a {name} parameter', info, lambda: call(raw))
                b = _run(ctx, key + ':' + fname, f'{fname} form with a field parameter', info, lambda: call(field(ub)))
                ctx.count(('param', name, fname, info), nontrivial=True)
                if a is not None and b is not None and not np.array_equal(np.broadcast_to(a, np.shape(b)), b):
                    ctx.fail(key + ':' + fname, f'{fname} form: a {name} keyword parameter does not enter like the '
                             'equivalent pre-interpolated field', dict(info, got=np.asarray(a).tolist(), expected=np.asarray(b).tolist()))
        # user parameters NAMED like the defaults (x, h, n: a previous iterate, a thickness field, ...) override the defaults
        # of the basis in all three form types; an unshadowed default stays visible
        ub.defaults = {'x': DiscreteField(np.full((nt, nq), 7.0)), 'h': DiscreteField(np.full((nt, nq), 5.0)),
                       'n': DiscreteField(np.full((nt, nq), 3.0))}
        for nm in ('x', 'h', 'n'):
            for fname, call in (('bilinear', lambda key, kw: BilinearForm(S.py_form2(k2, key))._assemble(ub, vb, **kw)[1]),
                                ('linear', lambda key, kw: LinearForm(S.py_form1(k1, key))._assemble(ub, **kw)[1]),
                                ('functional', lambda key, kw: Functional(S.py_form0(k0, key)).elemental(ub, **kw))):
                fld = DiscreteField(arr)
                got = _run(ctx, f'param-named:{nm}:{fname}', f'{fname} form with a user parameter named {nm}', info, lambda: call(nm, {nm: fld}))
                exp = call('c', {'c': fld})
                dflt = _run(ctx, f'param-named:{nm}:{fname}', f'{fname} form reading the default parameter {nm}', info, lambda: call(nm, {}))
                dexp = call('c', {'c': ub.defaults[nm]})
                ctx.count(('param-named', nm, fname, info), nontrivial=True)
                if got is not None and not np.array_equal(got, exp):
                    ctx.fail(f'param-named:{nm}:{fname}', f'{fname} form: a user keyword parameter named {nm!r} does not override the default '
                             f'parameter of the basis (it must enter like any other parameter)',
                             dict(info, name=nm, got=np.asarray(got).tolist(), expected=np.asarray(exp).tolist()))
                if dflt is not None and not np.array_equal(dflt, dexp):
                    ctx.fail(f'param-default:{nm}:{fname}', f'{fname} form: the default parameter {nm!r} of the basis is not passed to the form',
                             dict(info, name=nm))
        ub.defaults = {}
        # (i) a pre-interpolated field handed to a functional is an input: an integrand that returns it unchanged must not
        #     modify it (re-use gives the same value); (ii) a complex integrand in a Functional created without dtype= keeps its
        #     imaginary part; (iii) scaling the integrand by 2^-50 scales every entry of the matrix exactly
        fld = DiscreteField(arr.copy())
        e1 = _run(ctx, 'functional-reuse', 'Functional returning its input field', info, lambda: Functional(lambda w: w['c']).elemental(ub, c=fld))
        t1 = _run(ctx, 'functional-reuse', 'Functional returning its input field', info, lambda: Functional(lambda w: w['c']).assemble(ub, c=fld))
        ctx.count(('reuse', info), nontrivial=True)
        if e1 is not None and t1 is not None:
            ref = (arr * np.array(ub.dx)).sum(-1)
            if not np.array_equal(np.array(fld), arr) or not np.array_equal(e1, ref) or float(t1) != float(ref.sum()):
                ctx.fail('functional-reuse', 'a Functional modified the pre-interpolated field it was given (or the second use of the field '
                         'gave another value)', dict(info, field_before=arr.tolist(), field_after=np.array(fld).tolist(),
                                                     first=np.asarray(e1).tolist(), second_total=float(np.real(t1)), expected=ref.tolist()))
        tc = _run(ctx, 'functional-complex', 'complex Functional without dtype=', info,
                  lambda: Functional(lambda w: (1.0 + 2.0j) * w['c']).assemble(ub, c=DiscreteField(arr)))
        if tc is not None:
            refc = (1.0 + 2.0j) * (arr * np.array(ub.dx)).sum()
            if complex(tc) != complex(refc):
                ctx.fail('functional-complex', 'a Functional created without dtype= loses the imaginary part of a complex integrand',
                         dict(info, got=str(complex(tc)), expected=str(complex(refc))))
        A1 = BilinearForm(S.py_form2(k2)).assemble(ub, vb, c=DiscreteField(arr)).toarray()
        A2 = _run(ctx, 'scale-invariance', 'assembly of a tiny integrand', info,
                  lambda: BilinearForm(lambda u, v, w: 2.0 ** -50 * S.py_form2(k2)(u, v, w)).assemble(ub, vb, c=DiscreteField(arr)).toarray())
        if A2 is not None and not np.array_equal(A2, 2.0 ** -50 * A1):
            ctx.fail('scale-invariance', 'scaling the integrand by 2^-50 does not scale the assembled matrix by 2^-50 (entries lost)',
                     dict(info, nonzeros=int((A1 != 0).sum()), nonzeros_scaled=int((A2 != 0).sum())))
        # a DOF vector passed as keyword parameter is read at every call: assemble with w = x, update x IN PLACE, assemble
        # again on the same long-lived basis -> must equal the assembly with a fresh copy of the new x and with its
        # pre-interpolated field (all three form types)
        xs = vec.copy()
        delta = np.array([rng.randint(-3, 3) for _ in range(5)], dtype=float)
        delta[rng.randrange(5)] += 1.0 if not delta.any() else 0.0
        for fname, call in (('bilinear', lambda p: BilinearForm(S.py_form2(k2))._assemble(ub, vb, c=p)[1]),
                            ('linear', lambda p: LinearForm(S.py_form1(k1))._assemble(ub, c=p)[1]),
                            ('functional', lambda p: Functional(S.py_form0(k0)).elemental(ub, c=p))):
            xs[:] = vec
            first = _run(ctx, f'param-inplace:{fname}', f'{fname} form with a DOF-vector parameter', info, lambda: call(xs))
            xs += delta                                     # in place: same array object
            second = _run(ctx, f'param-inplace:{fname}', f'{fname} form with the updated DOF-vector parameter', info, lambda: call(xs))
            fresh = call((vec + delta).copy())
            viafield = call(ub.interpolate(vec + delta))
            ctx.count(('param-inplace', fname, info), nontrivial=True)
            if second is not None and not (np.array_equal(second, fresh) and np.array_equal(second, viafield)):
                ctx.fail(f'param-inplace:{fname}', f'{fname} form: a DOF vector updated in place between two assemblies on the same basis '
                         'enters the second assembly with stale values',
                         dict(info, x_first=vec.tolist(), x_second=(vec + delta).tolist(), got=np.asarray(second).tolist(),
                              expected=np.asarray(fresh).tolist(), first=None if first is None else np.asarray(first).tolist()))
        # Form.partial binds extra arguments of the integrand; decorator forms (Form()(f)) keep dtype / nthreads
        def f4(u, v, w, alpha=1, beta=0):
            return alpha * S.py_form2(k2)(u, v, w) + beta * u * v
        wfield = DiscreteField(arr)
        a = _run(ctx, 'form-partial', 'Form.partial', info, lambda: BilinearForm(f4).partial(alpha=3, beta=sc)._assemble(ub, vb, c=wfield)[1])
        b = BilinearForm(lambda u, v, w: 3 * S.py_form2(k2)(u, v, w) + sc * u * v)._assemble(ub, vb, c=wfield)[1]
        c2 = _run(ctx, 'form-decorator', 'Form()(f) decorator', info,
                  lambda: BilinearForm(nthreads=2)(lambda u, v, w: 3 * S.py_form2(k2)(u, v, w) + sc * u * v)._assemble(ub, vb, c=wfield)[1])
        ctx.count(('partial', info), nontrivial=True)
        if a is not None and not np.array_equal(a, b):
            ctx.fail('form-partial', 'Form.partial(alpha=..., beta=...) differs from the form with the arguments substituted',
                     dict(info, got=np.asarray(a).tolist(), expected=b.tolist()))
        if c2 is not None and not np.array_equal(c2, b):
            ctx.fail('form-decorator', 'a form built by decoration differs from the directly constructed form', info)
        ctx.hist('param-kinds', 'vector/ndarray/scalar x bilinear/linear/functional')


def wrapper_corr(ctx, gen_ok):
    """the regenerated form-copying wrappers and the asm dispatch against the real ones on generated attribute records"""
    import functools
    from skfem.assembly import BilinearForm, LinearForm, Functional, TrilinearForm, asm
    rng = ctx.rng
    DT = [np.float64, np.complex128]
    classes = [BilinearForm, LinearForm, Functional]
    cases = []

    def code(F, orig):
        f = F.form
        fc = 0 if f is orig else (1 if (isinstance(f, functools.partial) and f.func is orig) or (callable(f) and f is not orig) else 9)
        tag = F.params.get('tag', 99) if isinstance(F.params, dict) else 98
        return f'(Some {cnat(fc)}, {cnat(DT.index(F.dtype) if F.dtype in DT else 7)}, {cnat(F.nthreads)}, {cnat(tag)})'
    for c in range(ctx.n(30, 120)):
        cls = classes[c % 3]
        d, n, tg = rng.randrange(2), rng.randrange(4), rng.randrange(6)
        kind = ['partial', 'block', 'decorate', 'init', 'init_from'][c % 5]

        def f(u, v=None, w=None, x=None, alpha=1.0):
            return u
        info = {'class': cls.__name__, 'wrapper': kind, 'dtype': DT[d].__name__, 'nthreads': n, 'tag': tg}
        try:
            if kind == 'partial':
                out = code(cls(f, dtype=DT[d], nthreads=n, tag=tg).partial(alpha=2.0), f)
            elif kind == 'block':
                out = code(cls(f, dtype=DT[d], nthreads=n, tag=tg).block(0, 0), f)
            elif kind == 'decorate':
                out = code(cls(dtype=DT[d], nthreads=n, tag=tg)(f), f)
            elif kind == 'init':
                out = code(cls(f, dtype=DT[d], nthreads=n, tag=tg), f)
            else:
                out = code(cls(cls(f, dtype=DT[1 - d], nthreads=n + 1, tag=tg + 1), dtype=DT[d], nthreads=n, tag=tg), f)
        except Exception as e:  # noqa
            ctx.fail(f'api:form-copy:{kind}:exception', f'{cls.__name__}.{kind}: unexpected {type(e).__name__}: {e}', info)
            continue
        cases.append((f'(W{kind} {cnat(d)} {cnat(n)} {cnat(tg)})', f'(OFr {out})', ('wrap', True, info)))
        ctx.hist('wrapper correspondence', kind)
    # asm dispatch by argument count, observed through the type of the result
    import skfem
    b = skfem.Basis(skfem.MeshTri(), skfem.ElementTriP1())
    for nargs, fn in ((1, lambda w: w['x'][0]), (2, lambda v, w: v), (3, lambda u, v, w: u * v), (4, lambda u, v, z, w: u * v * z)):
        r = asm(fn, b)
        cl = ('WFunctional' if np.ndim(r) == 0 else 'WLinearForm' if isinstance(r, np.ndarray) else 'WBilinearForm' if hasattr(r, 'tocsr') and not hasattr(r, 'local_shape')
              else 'WTrilinearForm' if getattr(r, 'shape', None) is not None and len(r.shape) == 3 else 'WNone')
        cases.append((f'(Wasm {cnat(nargs)})', f'(OCls {cl})', ('asm', True, {'nargs': nargs})))
    if not gen_ok:
        return
    defs = '''
Require Import Model.C01_FormWrap.
Inductive win := Wpartial (d n t : nat) | Wblock (d n t : nat) | Wdecorate (d n t : nat) | Winit (d n t : nat) | Winit_from (d n t : nat) | Wasm (k : nat).
Inductive wout := OFr (r : option nat * nat * nat * nat) | OCls (c : formclass).
Definition fr_out (r : formrec nat nat nat) := (fr_form r, fr_dtype r, fr_nthreads r, fr_params r).
Definition runw (c : win) : wout :=
  match c with
  | Wpartial d n t => OFr (fr_out (gen_form_partial 0 99 S (mkFr (Some 0) d n t)))
  | Wblock d n t => OFr (fr_out (gen_form_copy_block 0 99 S (mkFr (Some 0) d n t)))
  | Wdecorate d n t => OFr (fr_out (gen_form_decorate 0 99 (mkFr None d n t) 0))
  | Winit d n t => OFr (fr_out (gen_form_init 0 99 0 d n t))
  | Winit_from d n t => OFr (fr_out (gen_form_init_from 0 99 (mkFr (Some 0) (1 - d) (S n) (S t)) d n t))
  | Wasm k => OCls (gen_asm_wrapper k)
  end.
Definition cls_eqb (a b : formclass) : bool :=
  match a, b with WFunctional, WFunctional | WLinearForm, WLinearForm | WBilinearForm, WBilinearForm | WTrilinearForm, WTrilinearForm | WNone, WNone => true | _, _ => false end.
Definition wout_eqb (a b : wout) : bool :=
  match a, b with
  | OFr (f1, d1, n1, t1), OFr (f2, d2, n2, t2) => option_eqb Nat.eqb f1 f2 && Nat.eqb d1 d2 && Nat.eqb n1 n2 && Nat.eqb t1 t2
  | OCls x, OCls y => cls_eqb x y
  | _, _ => false
  end.
'''
    ctx.corr('form_wrappers', 'From Coq Require Import List Arith Bool.\nRequire Import Gen.C01Gen.', 'runw', 'wout_eqb', cases, per_file=400, defs=defs)


# ------------------------------------------------------------------------------------------ the check

def run(ctx):
    ctx.trusted += ['NumPy slice assignment / broadcasting / flatten / sum and SciPy COO->CSR (modelled as slice_set, '
                    'C-contiguous buffer, sum over duplicates; corresponded on stub bases)',
                    'integrands are pointwise functions of the field values at a quadrature point (NumPy broadcasting '
                    'inside user integrands is not modelled)',
                    'binary64 rounding (oracle tolerance 1e-10 relative to sum of absolute terms)']
    ctx.assumptions += ['the form is additive and homogeneous in each argument function (Section hypotheses of the theorems)',
                        'DOF tables have Nbfun rows of nelems entries < N (wf_basis); trial and test basis have the same '
                        'number of cells and quadrature points (otherwise the implementation and the model raise)']
    ctx.cov['rule'] = ('stub correspondence: random (Nu,Nv) in 0..4 incl. rectangular, nt 0..5, nq 1..3, repeated DOFs, cell '
                       'subsets with repeats, omitted vbasis, rejected inputs; non-trivial = Nu<>Nv, nt>=2, both >=1. '
                       'oracle: see extra.oracle; non-trivial = trial<>test or non-symmetric integrand on >=2 cells; '
                       'distinct by content hash')
    # the box is shared: at most 4 coqc at a time, generous per-file timeout
    _many = type(ctx).coqc_many
    ctx.coqc_many = lambda rels, timeout=300, jobs=None: _many(ctx, rels, max(timeout, 900), jobs=4)
    ctx.ensure_static()
    try:
        ctx.write_gen('C01Gen', c01_translate.translate())
        gen_ok = True
    except TranslateError as e:
        ctx.broke('translator', 'c01_translate(bilinear_form.py, linear_form.py, functional.py, coo_data.py)', e)
        gen_ok = False
    if gen_ok:
        gen_ok = ctx.compile_dyn(['gen/C01Gen.v'])
        if gen_ok:
            ctx.compile_dyn(ctx.copy_dyn())
    ctx.prove()
    correspond(ctx, gen_ok)
    param_kinds(ctx)
    wrapper_corr(ctx, gen_ok)
    from .. import c01_oracle, c01_api
    c01_oracle.run(ctx)
    c01_api.run(ctx)


def replay(ctx, data):
    from .. import c01_oracle
    ctx.log('replaying', data.get('key'))
    inp = data.get('input', {})
    if isinstance(inp, dict) and inp.get('oracle_case') is not None:
        c01_oracle.replay(ctx, inp)
    else:
        run(ctx)
