"""C05 — Essential boundary conditions: condense, enforce, penalize, expansion.

tie T2 : Gen/C05Gen.v is regenerated from skfem/utils.py by vlib/c05_tr.py: the integer-array arithmetic of
         ``enforce`` ("set rows on lhs to zero") as a term over Base.C05_Np (option monad = NumPy's exceptions),
         and the matrix/vector plumbing of _init_bc / condense / solve_linear / solve_eigen / enforce / penalize as
         terms over the combinators of Model.C05_BC.  dyn/C05Tie.v proves the former correct for every valid row
         pointer (via Proofs.C05_ChainProofs) and the latter equal to the model by reflexivity.
tie T3 : the real condense / enforce / penalize / solve_linear / solve_eigen / _flatten_dofs are run on random
         sparse integer systems and compared with the model by vm_compute (exact).
proof  : props/C05.v
oracle : the property statement checked directly on the implementation's outputs with exact rational arithmetic
         (dense Fraction solve), float solves only on generated diagonally dominant systems.
"""
import hashlib
import warnings
from fractions import Fraction

import numpy as np
import scipy.sparse as sp

from .. import c05_tr
from ..core import TranslateError, clist, cnat, cnats, cints, cz, copt, np_seed

F6_KEY = 'enforce:empty-constrained-row'
# public callables of skfem/utils.py: covered before the audit / now / out of scope
API_COVERAGE = [
    ['condense (I / D / views / dicts / repeats / empty / formats / expand=False / matrix rhs)', 'before', 'covered'],
    ['enforce (diag, overwrite, matrix rhs, formats, complex)', 'before', 'covered'],
    ['penalize (epsilon given / default, overwrite, matrix rhs, formats, complex)', 'before', 'covered'],
    ['solve / solve_linear / solve_eigen (array and tuple I, complex)', 'before', 'covered'],
    ['mpc (all defaults, complex, formats), bmat (through mpc)', 'before', 'covered'],
    ['solver_direct_scipy, solver_eigen_scipy', 'before', 'covered'],
    ['solver_iter_pcg / solver_iter_cg / solver_iter_krylov (krylov=, verbose, M=, solve-time kwargs)', 'no', 'now: check_solver_factories'],
    ['build_pc_diag / build_pc_ilu', 'no', 'now: check_solver_factories'],
    ['solver_eigen_scipy_sym', 'no', 'now: check_solver_factories'],
    ['rcm', 'no', 'now: check_solver_factories (reordered system scattered back)'],
    ['projection / project (deprecated L2 projection)', 'no', 'covered by C06 (legacy_projection)'],
    ['adaptive_theta', 'no', 'out of scope: marking strategy for adaptive refinement, no linear system involved'],
]

IMPORTS = ('From Coq Require Import List ZArith Bool Arith.\n'
           'Require Import Base.C05_Np Model.C05_BC Model.C05_MPC Model.C05_Ext Model.C05_Solve Gen.C05Gen.')

DEFS = r'''
Definition mk (ip : list Z) (ix : list nat) (d : list Z) : csr Z := {| indptr := ip; indices := ix; data := d |}.
Definition entry_eqb (a b : nat * Z) := Nat.eqb (fst a) (fst b) && Z.eqb (snd a) (snd b).
Definition rows_eqb := list_eqb (list_eqb entry_eqb).
Definition ozs_eqb := option_eqb zs_eqb.
(* canonical form used by the harness: every row sorted by column (no duplicate columns in the inputs) *)
Fixpoint ins_entry (e : nat * Z) (l : list (nat * Z)) :=
  match l with [] => [e] | f :: t => if fst e <=? fst f then e :: l else f :: ins_entry e t end.
Definition canon (M : list (list (nat * Z))) := map (fun r => fold_right ins_entry [] r) M.
Definition posf := gen_enforce_idx.
Definition fl (s : option (list nat)) := option_map gen_flatten_array s.   (* _flatten_dofs on index arrays *)
Definition run_enforce (c : csr Z * option (list Z) * option (list Z) * option (list nat) * option (list nat) * Z) :=
  let '(A, b, x, Is, Ds, diag) := c in
  option_map (fun r => (canon (fst r), snd r)) (enforce_call Zops posf A b x (fl Is) (fl Ds) diag).
Definition run_enforce_eig (c : csr Z * csr Z * option (list nat) * option (list nat) * Z) :=
  let '(A, B, Is, Ds, diag) := c in
  option_map (fun r => (canon (fst r), canon (snd r))) (enforce_eig Zops posf A B (fl Is) (fl Ds) diag).
Definition run_condense (c : csr Z * option (list Z) * option (list Z) * option (list nat) * option (list nat)) :=
  let '(A, b, x, Is, Ds) := c in
  option_map (fun r => let '(A', b', x', Is') := r in (canon A', b', x', Is')) (condense_call Zops (csr_rows A) b x (fl Is) (fl Ds)).
Definition run_condense_eig (c : csr Z * csr Z * option (list Z) * option (list nat) * option (list nat)) :=
  let '(A, B, x, Is, Ds) := c in
  option_map (fun r => let '(A', B', x', Is') := r in (canon A', canon B', x', Is'))
    (condense_eig (csr_rows A) (csr_rows B) (snd (bc_defaults Zops (csr_nrows A) None x)) (fl Is) (fl Ds)).
Definition run_penalize (c : csr Z * option (list Z) * option (list Z) * option (list nat) * option (list nat) * Z) :=
  let '(A, b, x, Is, Ds, w) := c in
  option_map (fun r => (canon (fst r), snd r)) (penalize_call Zops (csr_rows A) b x (fl Is) (fl Ds) w).
Definition run_expand (c : list Z * list nat * list Z) := let '(x, Is, z) := c in gen_expand x Is z.
Definition run_expand_eig (c : list Z * list nat * list (list Z)) := let '(x, Is, X) := c in gen_expand_eig x Is X.
(* the zero pattern the generated arithmetic produces on an all-ones value array *)
Definition run_positions (c : list Z * list Z * nat) :=
  let '(ip, Ds, nnz) := c in bind (gen_enforce_idx ip Ds) (fun pos => np_scatter_const (repeat 1%Z nnz) pos 0%Z).
Definition NoNats : option (list nat) := None.
Definition NoZs : option (list Z) := None.
Definition RaisesMO : option (list (list (nat * Z)) * option (list Z)) := None.
Definition RaisesMM : option (list (list (nat * Z)) * list (list (nat * Z))) := None.
Definition RaisesZs : option (list Z) := None.
Definition NoRows : option (list (list (nat * Z))) := None.
Definition densez (k : nat) (M : list (list (nat * Z))) := map (fun r => map (fun j => dense_entry Zops r j) (seq 0 k)) M.
Definition run_mpc (c : csr Z * list Z * option (list nat) * option (list nat) * option (list (list (nat * Z))) * option (list Z)) :=
  let '(A, b, Ss, Ms, T, g) := c in
  let '(B, y, x0, perm) := mpc_call Zops (csr_rows A) b Ss Ms T g in (densez (length B) B, y, x0, perm).
Definition run_tuple (c : list Z * list nat * list (list (nat * Z)) * list Z * list nat * list Z) :=
  let '(x, perm, T, g, U, z) := c in gen_expand_tuple Zops x perm (gen_mpc_expand Zops T g U) z.
Definition eq_mpc := pair_eqb (pair_eqb (pair_eqb zss_eqb zs_eqb) zs_eqb) nats_eqb.
(* Gaussian integers: complex prescribed values with real matrix / right-hand side, exactly *)
Definition G := (Z * Z)%type.
Definition Gops : ring_ops G :=
  {| r0 := (0, 0)%Z; r1 := (1, 0)%Z; radd := fun a b => (fst a + fst b, snd a + snd b)%Z;
     rmul := fun a b => (fst a * fst b - snd a * snd b, fst a * snd b + snd a * fst b)%Z;
     rsub := fun a b => (fst a - fst b, snd a - snd b)%Z; ropp := fun a => (- fst a, - snd a)%Z |}.
Definition g_eqb (a b : G) := Z.eqb (fst a) (fst b) && Z.eqb (snd a) (snd b).
Definition gentry_eqb (a b : nat * G) := Nat.eqb (fst a) (fst b) && g_eqb (snd a) (snd b).
Fixpoint ins_gentry (e : nat * G) (l : list (nat * G)) :=
  match l with [] => [e] | f :: t => if fst e <=? fst f then e :: l else f :: ins_gentry e t end.
Definition canong (M : list (list (nat * G))) := map (fun r => fold_right ins_gentry [] r) M.
Definition mkg (ip : list Z) (ix : list nat) (d : list Z) : csr G := {| indptr := ip; indices := ix; data := map (fun v => (v, 0%Z)) d |}.
Definition re (l : list Z) : list G := map (fun v => (v, 0%Z)) l.
Definition run_enforce_g (c : list Z * list nat * list Z * list Z * list G * option (list nat) * option (list nat) * Z) :=
  let '(ip, ix, d, b, x, Is, Ds, diag) := c in
  option_map (fun r => (canong (fst r), snd r)) (enforce_call Gops posf (mkg ip ix d) (Some (re b)) (Some x) (fl Is) (fl Ds) (diag, 0%Z)).
Definition run_penalize_g (c : list Z * list nat * list Z * list Z * list G * option (list nat) * option (list nat) * Z) :=
  let '(ip, ix, d, b, x, Is, Ds, w) := c in
  option_map (fun r => (canong (fst r), snd r)) (penalize_call Gops (csr_rows (mkg ip ix d)) (Some (re b)) (Some x) (fl Is) (fl Ds) (w, 0%Z)).
Definition eq_g := option_eqb (pair_eqb (list_eqb (list_eqb gentry_eqb)) (option_eqb (list_eqb g_eqb))).
(* the dispatch wrapper solve with stub solvers: kind 0 = vector rhs, 1 = sparse rhs, 2 = anything else *)
Definition run_solve (c : nat * option (list Z) * option (list nat) * list Z * list (list Z)) : option (list Z * list (list Z)) :=
  let '(kind, x, Ia, z, X) := c in
  let b : @rhs Z := match kind with 0%nat => RVec [] | 1%nat => RMat [] | _ => ROther end in
  match gen_solve Zops (fun _ _ => z) (fun _ _ => ([], X)) [] b x (option_map IArr Ia) with
  | Some (SVec y) => Some (y, [])
  | Some (SEig _ Y) => Some ([], Y)
  | None => None
  end.
Definition eq_solve := option_eqb (pair_eqb zs_eqb zss_eqb).
Definition RaisesSolve : option (list Z * list (list Z)) := None.
Definition eq_mo := pair_eqb rows_eqb ozs_eqb.
Definition eq_mm := pair_eqb rows_eqb rows_eqb.
Definition eq_cond := pair_eqb (pair_eqb (pair_eqb rows_eqb ozs_eqb) zs_eqb) nats_eqb.
Definition eq_conde := pair_eqb (pair_eqb (pair_eqb rows_eqb rows_eqb) zs_eqb) nats_eqb.
'''


# ------------------------------------------------------------------------------------ emit helpers

def c_csr(ip, ix, d):
    return f'(mk {cints(ip)} {cnats(ix)} {cints(d)})'


def c_ozs(v):
    return 'NoZs' if v is None else f'(Some {cints(v)})'


def c_onats(v):
    return 'NoNats' if v is None else f'(Some {cnats(v)})'


def c_rows(rows):
    return clist([clist([f'({cnat(c)}, {cz(v)})' for c, v in r]) for r in rows])


def tup(*a):
    return '(' + ', '.join(a) + ')'


def as_int(v):
    f = float(v)
    if not f.is_integer():
        raise ValueError(f'non-integer value {v!r} in an exact correspondence')
    return int(f)


def ints(a):
    return [as_int(v) for v in np.asarray(a).ravel()]


def canon_rows(M):
    """stored entries of a scipy CSR matrix, row by row, sorted by column, explicit zeros kept"""
    M = M.tocsr() if not sp.isspmatrix_csr(M) else M
    out = []
    for i in range(M.shape[0]):
        lo, hi = M.indptr[i], M.indptr[i + 1]
        row = sorted((int(c), as_int(v)) for c, v in zip(M.indices[lo:hi], M.data[lo:hi]))
        if len({c for c, _ in row}) != len(row):
            raise ValueError('duplicate column in canonical row')
        out.append(row)
    return out


def checksum(*objs):
    h = hashlib.sha1()
    for o in objs:
        if o is None:
            h.update(b'N')
        elif sp.issparse(o):
            if o.format in ('csr', 'csc'):
                arrs = (o.data, o.indices, o.indptr)
            else:
                c = o.tocoo()
                arrs = (c.data, c.row, c.col)
            for a in arrs:
                h.update(np.ascontiguousarray(a).tobytes())
                h.update(str(a.dtype).encode())
            h.update(repr(o.shape).encode() + o.format.encode())
        else:
            a = np.ascontiguousarray(o)
            h.update(a.tobytes())
            h.update(str(a.dtype).encode() + repr(a.shape).encode())
    return h.hexdigest()


# ------------------------------------------------------------------------------------ generators

def rand_csr(rng, n, empty_p=0.3, zero_p=0.15, sort_p=0.5, dominant=False):
    """random square CSR as python lists: empty rows, explicit zeros, unsorted columns, unsymmetric pattern"""
    ip, ix, d = [0], [], []
    for i in range(n):
        if rng.random() < empty_p and not dominant:
            cols = []
        else:
            k = rng.randint(0, n)
            cols = rng.sample(range(n), k)
        if dominant and i not in cols:
            cols.append(i)
        if rng.random() < sort_p:
            cols.sort()
        vals = []
        for c in cols:
            v = 0 if rng.random() < zero_p else rng.choice([-4, -3, -2, -1, 1, 2, 3, 4, 5])
            vals.append(v)
        if dominant:
            s = sum(abs(v) for c, v in zip(cols, vals) if c != i)
            vals[cols.index(i)] = s + rng.randint(1, 4)
        ix += cols
        d += vals
        ip.append(len(ix))
    return ip, ix, d


def to_scipy(ip, ix, d, n):
    return sp.csr_matrix((np.array(d, dtype=float), np.array(ix, dtype=np.int32), np.array(ip, dtype=np.int32)), shape=(n, n))


def rand_split(rng, n, allow_empty=True, repeats=True):
    """a subset in random order — every fourth time with REPEATED entries (an index array denotes a set) — and which
    of I / D carries it"""
    k = rng.randint(0 if allow_empty else 1, n)
    S = rng.sample(range(n), k)
    if repeats and S and rng.random() < 0.25:
        for _ in range(rng.randint(1, 3)):
            S.insert(rng.randrange(len(S) + 1), rng.choice(S))
    return S, rng.choice(['I', 'D'])


def dedup(S):
    out = []
    for i in S:
        if i not in out:
            out.append(i)
    return out


FORMATS = ['csr', 'csr', 'csr', 'csc', 'coo', 'lil']


def as_format(A, fmt):
    return A if fmt == 'csr' else A.asformat(fmt)


def canon_csr_lists(A):
    """(indptr, indices, data) of the CSR conversion scipy makes of a non-CSR matrix (the model's input then)"""
    C = A.tocsr()
    return [int(v) for v in C.indptr], [int(v) for v in C.indices], [as_int(v) for v in C.data]


def idx_array(rng, S):
    return np.array(S, dtype=rng.choice([np.int32, np.int64]))


def dense_of(ip, ix, d, n):
    M = [[0] * n for _ in range(n)]
    for i in range(n):
        for k in range(ip[i], ip[i + 1]):
            M[i][ix[k]] += d[k]
    return M


def frac_solve(M, rhs):
    """exact Gaussian elimination; None when singular"""
    n = len(M)
    a = [[Fraction(v) for v in row] + [Fraction(r)] for row, r in zip(M, rhs)]
    for c in range(n):
        p = next((r for r in range(c, n) if a[r][c] != 0), None)
        if p is None:
            return None
        a[c], a[p] = a[p], a[c]
        for r in range(n):
            if r != c and a[r][c] != 0:
                f = a[r][c] / a[c][c]
                a[r] = [u - f * v for u, v in zip(a[r], a[c])]
    return [a[i][n] / a[i][i] for i in range(n)]


# ------------------------------------------------------------------------------------ the check

def run(ctx):
    warnings.simplefilter('ignore')           # SparseEfficiencyWarning of setdiag
    ctx.trusted += ['NumPy fancy indexing / in-place update semantics, scipy.sparse CSR indexing, diagonal(), setdiag() '
                    '(modelled in Base.C05_Np / Model.C05_BC; validated by exact correspondence)',
                    'scipy spsolve / dense eigensolver (oracle only; no theorem speaks about them)']
    ctx.assumptions += ['values in a commutative ring with Leibniz equality (Z, any field); floats are corresponded only on '
                        'small integers where every operation is exact',
                        'storage-level statements of enforce/penalize (which stored entry stays where) assume no duplicate stored entry '
                        'inside a row; the dense-level theorems (C05_enforce_any_storage, C05_penalize_any_storage) and condense need no such assumption',
                        'index lists have entries in [0,n); repeated entries denote a set (proved from the regenerated _flatten_dofs)',
                        'non-CSR input enters the model through scipy tocsr (trusted, corresponded); dtype promotion of the expansion is runtime (oracle)',
                        'penalize is modelled with the weight w = 1/epsilon; the limit epsilon -> 0 is oracle only',
                        'mpc: S and M duplicate-free and disjoint, T with |S| rows, g of length |S| (what mpc checks or np.setdiff1d assumes)']
    ctx.cov['rule'] = ('random square CSR systems n=1..8 (thorough: ..12): empty rows, explicit zeros, unsorted columns, '
                       'unsymmetric patterns; duplicate-free splits in random order given as I or D, as int32/int64 arrays, '
                       'DofsView or dict of views of a real basis; vector / matrix / absent right-hand sides; overwrite on/off; CSR storage with '
                       'duplicate entries (oracle only); complex-valued systems with x omitted / given (oracle only); mpc with all defaults; default and given epsilon, zero constrained diagonal. '
                       'non-trivial = n>=2, 0<|D|<n and at least one stored off-diagonal entry; distinct by content')
    ctx.extra['api_coverage'] = API_COVERAGE
    ctx.ensure_static()
    # 1. regenerate
    try:
        ctx.write_gen('C05Gen', c05_tr.translate())
        gen_ok = True
    except TranslateError as e:
        ctx.broke('translator', 'c05_tr.translate(skfem/utils.py)', e)
        gen_ok = False
    # 2. tie + theorems
    tie_ok = False
    if gen_ok:
        # the generated file itself must compile even if the tie lemmas do not (the model is then still runnable)
        gen_ok = ctx.compile_dyn(['gen/C05Gen.v'])
        if gen_ok:
            tie_ok = ctx.compile_dyn(ctx.copy_dyn())
    ctx.prove()
    ctx.extra['tie_ok'] = tie_ok

    # 3. correspondence + 4. oracle share the generated cases
    state = {'maxdisc': 0.0, 'pen_maxdisc': 0.0, 'eig_maxdisc': 0.0}
    cases = {k: [] for k in ('enforce', 'enforce_eig', 'condense', 'condense_eig', 'penalize', 'expand', 'expand_eig',
                             'positions', 'mpc', 'tuple', 'enforce_g', 'penalize_g', 'solve')}
    _gen_random(ctx, cases, state)
    _solve_dispatch_cases(ctx, cases)
    _gen_basis(ctx, cases, state)
    _oracle_mpc(ctx, state, cases)
    ctx.extra['max_float_discrepancy'] = {'solve_vs_exact(rel)': state['maxdisc'], 'tolerance': 1e-9,
                                          'penalize_vs_condense(rel)': state['pen_maxdisc'], 'penalize_tolerance': 1e-6,
                                          'penalize_zero_diagonal_vs_condense(rel)': state.get('pen0_maxdisc', 0.0),
                                          'eigen_residual(rel)': state['eig_maxdisc'], 'eigen_tolerance': 1e-8,
                                          'mpc_solve_vs_exact(rel)': state.get('mpc_maxdisc', 0.0),
                                          'complex_solve(rel)': state.get('complex_maxdisc', 0.0),
                                          'mpc_complex_noncsr(rel)': state.get('mpc_variant_maxdisc', 0.0),
                                          'solver_factories(rel)': state.get('solver_factories_maxdisc', 0.0)}
    if gen_ok:
        nt = lambda r: r.get('nontrivial', False)  # noqa: E731
        spec = [('enforce', 'run_enforce', '(option_eqb eq_mo)'),
                ('enforce_eig', 'run_enforce_eig', '(option_eqb eq_mm)'),
                ('condense', 'run_condense', '(option_eqb eq_cond)'),
                ('condense_eig', 'run_condense_eig', '(option_eqb eq_conde)'),
                ('penalize', 'run_penalize', '(option_eqb eq_mo)'),
                ('expand', 'run_expand', 'zs_eqb'),
                ('expand_eig', 'run_expand_eig', 'zss_eqb'),
                ('positions', 'run_positions', '(option_eqb zs_eqb)'),
                ('mpc', 'run_mpc', 'eq_mpc'), ('tuple', 'run_tuple', 'zs_eqb'),
                ('enforce_g', 'run_enforce_g', 'eq_g'), ('penalize_g', 'run_penalize_g', 'eq_g'), ('solve', 'run_solve', 'eq_solve')]
        # the files of the different functions are independent: evaluate them concurrently
        from concurrent.futures import ThreadPoolExecutor
        with ThreadPoolExecutor(4) as ex:
            list(ex.map(lambda s: ctx.corr(s[0], IMPORTS, s[1], s[2], cases[s[0]], defs=DEFS, nontrivial=nt) if cases[s[0]] else None,
                        spec))


# ------------------------------------------------------------------------------------ single calls on the implementation

def call_enforce(A, b, x, S, which, diag, overwrite=False):
    from skfem.utils import enforce
    kw = {which: S}
    return enforce(A, b, x, diag=diag, overwrite=overwrite, **kw)


def _record_violation(ctx, key, what, data):
    ctx.fail(key, what, data)


def check_enforce_case(ctx, cases, state, n, csr, b, x, S, which, diag, rng, Sarg=None, view_lists=None, tag='rand'):
    """one enforce call with a vector (or absent) right-hand side: correspondence record + exact oracle"""
    ip, ix, d = csr
    fmt = rng.choice(FORMATS) if tag == 'rand' else 'csr'
    A = as_format(to_scipy(ip, ix, d, n), fmt)
    if fmt != 'csr':
        ip, ix, d = canon_csr_lists(A)          # what scipy's conversion stores: the model's input
    bb = None if b is None else np.array(b, dtype=float)
    xx = None if x is None else np.array(x, dtype=float)
    Sarr = idx_array(rng, S) if Sarg is None else Sarg
    has_rep = len(set(S)) != len(S)
    D = dedup(S) if which == 'D' else [i for i in range(n) if i not in S]
    before = checksum(A, bb, xx, Sarr if isinstance(Sarr, np.ndarray) else None)
    exc = None
    ctx.hist('matrix_format', fmt)
    ctx.hist('index_array_repeats', has_rep)
    try:
        out = call_enforce(A, bb, xx, Sarr, which, float(diag))
    except Exception as e:  # noqa: BLE001  (an exception on a valid input is a failing input, reported below)
        exc, out = e, None
    after = checksum(A, bb, xx, Sarr if isinstance(Sarr, np.ndarray) else None)
    nontrivial = n >= 2 and 0 < len(D) < n and any(ix[k] != i for i in range(n) for k in range(ip[i], ip[i + 1]))
    has_empty_D = any(ip[dd] == ip[dd + 1] for dd in D)
    ctx.count(('enforce', n, ip, ix, d, b, x, S, which, diag), nontrivial=nontrivial)
    ctx.hist('n', n)
    ctx.hist('enforce_empty_constrained_row', has_empty_D)
    rep = {'fn': 'enforce', 'n': n, 'indptr': ip, 'indices': ix, 'data': d, 'b': b, 'x': x, which: S, 'diag': diag,
           'nontrivial': nontrivial, 'tag': tag, 'format': fmt}

    def fkey(default):
        if has_empty_D and fmt == 'csr':
            return F6_KEY
        if fmt != 'csr':
            return 'enforce:non-csr-input'
        if len(S) == 0:
            return 'enforce:empty-selection'
        if has_rep:
            return 'enforce:repeated-indices'
        return default
    if before != after:
        ctx.fail('no_mutation:enforce', 'enforce(overwrite=False) modified one of its arguments', rep)
    # expected by the property statement (exact integers)
    dense = dense_of(ip, ix, d, n)
    b_eff = b if b is not None else (None if x is None else [0] * n)
    x_eff = x if x is not None else [0] * n
    exp_dense = [[(diag if j == i else 0) for j in range(n)] if i in D else dense[i] for i in range(n)]
    exp_b = None if b_eff is None else [x_eff[i] if i in D else b_eff[i] for i in range(n)]
    if exc is not None:
        key = fkey('enforce:raises:' + type(exc).__name__)
        ctx.fail(key, f'enforce raises {type(exc).__name__}: {exc}',
                 dict(rep, expected_dense=exp_dense, expected_rhs=exp_b, got='exception ' + repr(exc)))
        got_term = 'RaisesMO'
    else:
        A2, b2 = (out if isinstance(out, tuple) else (out, None))
        got_dense = [[as_int(v) for v in r] for r in A2.toarray()]
        got_b = None if b2 is None else ints(b2)
        rows2 = canon_rows(A2)
        bad = got_dense != exp_dense or got_b != exp_b
        # every stored entry of rows outside D untouched
        for i in range(n):
            if i not in D:
                orig = sorted((ix[k], d[k]) for k in range(ip[i], ip[i + 1]))
                if not set(orig) <= set(rows2[i]):
                    bad = True
        if bad:
            key = fkey('enforce:wrong-result:' + hashlib.sha1(repr(rep).encode()).hexdigest()[:10])
            ctx.fail(key, 'enforce: constrained rows are not diag*e_i / other rows or right-hand side changed'
                     + (f' (matrix given in {fmt} format)' if fmt != 'csr' else ''),
                     dict(rep, expected_dense=exp_dense, expected_rhs=exp_b, got_dense=got_dense, got_rhs=got_b))
        got_term = f'(Some ({c_rows(rows2)}, {c_ozs(got_b)}))'
        # overwrite=True: same result, returned objects are the arguments
        A3 = as_format(to_scipy(ip, ix, d, n), fmt)
        b3 = None if b is None else np.array(b, dtype=float)
        try:
            out3 = call_enforce(A3, b3, xx, Sarr, which, float(diag), overwrite=True)
            A4, b4 = (out3 if isinstance(out3, tuple) else (out3, None))
            # (a matrix that is not in CSR format is converted; only a CSR argument is modified in place and returned)
            if (fmt == 'csr' and A4 is not A3) or (b3 is not None and b4 is not b3) or canon_rows(A4) != rows2 or \
                    (b4 is not None and ints(b4) != got_b):
                ctx.fail('enforce:overwrite-differs', 'enforce(overwrite=True) differs from overwrite=False or does not return '
                         'its arguments', rep)
        except Exception as e:  # noqa: BLE001
            ctx.fail('enforce:overwrite-raises', f'enforce(overwrite=True) raises {e!r} where overwrite=False does not', rep)
        # exact solve of the enforced system: same solution as the original equations with y_D = x_D / diag
        if b2 is not None and diag != 0 and not bad:
            y = frac_solve(got_dense, got_b)
            if y is not None:
                ok = all(diag * y[i] == x_eff[i] for i in D) and all(
                    sum(Fraction(dense[i][j]) * y[j] for j in range(n)) == b_eff[i] for i in range(n) if i not in D)
                if not ok:
                    ctx.fail('enforce:solution', 'solution of the enforced system violates the property', rep)
    if view_lists is None:
        sel = c_onats(S)
    else:
        sel = '(Some (flatten_dofs ' + clist([cnats(v) for v in view_lists]) + '))'
    I_t, D_t = (sel, 'NoNats') if which == 'I' else ('NoNats', sel)
    cases['enforce'].append((tup(c_csr(ip, ix, d), c_ozs(b), c_ozs(x), I_t, D_t, cz(diag)), got_term, rep))
    if len(ctx.cov['samples']) < 2 and nontrivial and has_empty_D:
        ctx.sample({'kind': 'enforce', 'input': rep, 'impl_output': got_term})


def check_enforce_eig(ctx, cases, state, n, csrA, csrB, S, which, diag, rng):
    from skfem.utils import enforce
    fa, fb_ = rng.choice(FORMATS), rng.choice(FORMATS)
    A = as_format(to_scipy(*csrA, n), fa)
    B = as_format(to_scipy(*csrB, n), fb_)
    if fa != 'csr':
        csrA = canon_csr_lists(A)
    if fb_ != 'csr':
        csrB = canon_csr_lists(B)
    Sarr = idx_array(rng, S)
    D = dedup(S) if which == 'D' else [i for i in range(n) if i not in S]
    before = checksum(A, B, Sarr)
    has_empty_D = any(c[0][dd] == c[0][dd + 1] for dd in D for c in (csrA, csrB)) and (fa, fb_) == ('csr', 'csr')
    noncsr = (fa, fb_) != ('csr', 'csr')
    rep = {'fn': 'enforce(matrix rhs)', 'n': n, 'A': list(csrA), 'B': list(csrB), which: S, 'diag': diag,
           'nontrivial': n >= 2 and 0 < len(D) < n}
    ctx.count(('enforce_eig', n, csrA, csrB, S, which, diag), nontrivial=rep['nontrivial'])
    try:
        A2, B2 = enforce(A, B, diag=float(diag), **{which: Sarr})
    except Exception as e:  # noqa: BLE001
        ctx.fail(F6_KEY if has_empty_D else ('enforce:non-csr-input' if noncsr else 'enforce_eig:raises:' + type(e).__name__),
                 f'enforce (matrix rhs; formats {fa}/{fb_}) raises {e!r}', rep)
        cases['enforce_eig'].append((tup(c_csr(*csrA), c_csr(*csrB), *((c_onats(S), 'NoNats') if which == 'I' else ('NoNats', c_onats(S))),
                                         cz(diag)), 'RaisesMM', rep))
        return
    if checksum(A, B, Sarr) != before:
        ctx.fail('no_mutation:enforce_eig', 'enforce(matrix rhs, overwrite=False) modified its arguments', rep)
    dA, dB = dense_of(*csrA, n), dense_of(*csrB, n)
    eA = [[(diag if j == i else 0) for j in range(n)] if i in D else dA[i] for i in range(n)]
    eB = [[0] * n if i in D else dB[i] for i in range(n)]
    gA = [[as_int(v) for v in r] for r in A2.toarray()]
    gB = [[as_int(v) for v in r] for r in B2.toarray()]
    if gA != eA or gB != eB:
        ctx.fail(F6_KEY if has_empty_D else ('enforce:non-csr-input' if noncsr else 'enforce_eig:wrong-result'),
                 f'enforce (matrix rhs; formats {fa}/{fb_}): stiffness rows not diag*e_i or mass '
                 'rows not zero or other rows changed', dict(rep, expected=[eA, eB], got=[gA, gB]))
    cases['enforce_eig'].append((tup(c_csr(*csrA), c_csr(*csrB), *((c_onats(S), 'NoNats') if which == 'I' else ('NoNats', c_onats(S))),
                                     cz(diag)), f'(Some ({c_rows(canon_rows(A2))}, {c_rows(canon_rows(B2))}))', rep))


def check_condense_case(ctx, cases, state, n, csr, b, x, S, which, rng, Sarg=None, view_lists=None, solve_too=False):
    from skfem.utils import condense, solve
    ip, ix, d = csr
    fmt = rng.choice(['csr', 'csr', 'csr', 'csc', 'lil']) if not solve_too else 'csr'
    A = as_format(to_scipy(ip, ix, d, n), fmt)
    if fmt != 'csr':
        ip, ix, d = canon_csr_lists(A)
    bb = None if b is None else np.array(b, dtype=float)
    xx = None if x is None else np.array(x, dtype=float)
    Sarr = idx_array(rng, S) if Sarg is None else Sarg
    has_rep = len(set(S)) != len(S)
    I = dedup(S) if which == 'I' else [i for i in range(n) if i not in S]
    D = [i for i in range(n) if i not in I] if which == 'I' else dedup(S)
    nontrivial = n >= 2 and 0 < len(D) < n and any(ix[k] != i for i in range(n) for k in range(ip[i], ip[i + 1]))
    rep = {'fn': 'condense', 'n': n, 'indptr': ip, 'indices': ix, 'data': d, 'b': b, 'x': x, which: S, 'nontrivial': nontrivial,
           'format': fmt}
    ctx.hist('matrix_format', fmt)
    ctx.hist('index_array_repeats', has_rep)
    ctx.count(('condense', n, ip, ix, d, b, x, S, which), nontrivial=nontrivial)
    ctx.hist('split_given_as', which)
    ctx.hist('nD', len(D))
    before = checksum(A, bb, xx, Sarr if isinstance(Sarr, np.ndarray) else None)
    try:
        out = condense(A, bb, xx, **{which: Sarr})
    except Exception as e:  # noqa: BLE001
        ctx.fail(('condense:empty-selection' if len(S) == 0 else 'condense:raises:' + type(e).__name__),
                 f'condense raises {type(e).__name__}: {e}' + (f' (empty index array of dtype {getattr(Sarr, "dtype", None)})' if len(S) == 0 else ''),
                 dict(rep, index_dtype=str(getattr(Sarr, 'dtype', None))))
        return
    if checksum(A, bb, xx, Sarr if isinstance(Sarr, np.ndarray) else None) != before:
        ctx.fail('no_mutation:condense', 'condense modified one of its arguments', rep)
    b_eff = b if b is not None else (None if x is None else [0] * n)
    x_eff = x if x is not None else [0] * n
    if b_eff is None:
        AII, xr, Ir = out
        bI = None
    else:
        AII, bI, xr, Ir = out
    Ir_l, xr_l = [int(i) for i in Ir], ints(xr)
    if has_rep and (len(set(Ir_l)) != len(Ir_l) or sorted(Ir_l) != sorted(I)):
        ctx.fail('condense:repeated-indices', 'condense with an index array that repeats an index: the repeated index is counted '
                 'more than once (an index array denotes a set)', dict(rep, returned_I=Ir_l))
        return
    # the kept set in the CALLER'S order (first occurrences): with expand=False the caller scatters the solution himself
    # through his own index array, so the rows/columns of the condensed system must follow it: AII == A[I][:, I]
    if which == 'I' and isinstance(Sarr, np.ndarray):
        dn = dense_of(ip, ix, d, n)
        want_AII = [[dn[i][j] for j in I] for i in I]
        got_AII = [[as_int(v) for v in r] for r in AII.toarray()] if len(I) else []
        if Ir_l != I or got_AII != want_AII:
            ctx.fail('condense:index-order', 'condense(I=array): the kept indices are not returned / used in the caller\'s order '
                     '(first occurrences): the condensed matrix is not A[I][:, I], so x[I] = solve(AII, bI) with expand=False '
                     'scatters the solution to the wrong indices', dict(rep, returned_I=Ir_l, expected_I=I, AII=got_AII, A_I_I=want_AII))
            return
    # expand=False: the same system without (x, I)
    out2 = condense(A, bb, xx, expand=False, **{which: Sarr})
    if b_eff is None:
        same = sp.issparse(out2) and canon_rows(out2) == canon_rows(AII)
    else:
        same = isinstance(out2, tuple) and len(out2) == 2 and canon_rows(out2[0]) == canon_rows(AII) and ints(out2[1]) == ints(bI)
    if not same:
        ctx.fail('condense:expand=False', 'condense(expand=False) does not return the same condensed system without (x, I)', rep)
    rowsII = canon_rows(AII)
    got_bI = None if bI is None else ints(bI)
    if view_lists is None:
        sel = c_onats(S)
    else:
        sel = '(Some (flatten_dofs ' + clist([cnats(v) for v in view_lists]) + '))'
    I_t, D_t = (sel, 'NoNats') if which == 'I' else ('NoNats', sel)
    cases['condense'].append((tup(c_csr(ip, ix, d), c_ozs(b), c_ozs(x), I_t, D_t),
                              f'(Some ({c_rows(rowsII)}, {c_ozs(got_bI)}, {cints(xr_l)}, {cnats(Ir_l)}))', rep))
    if len(ctx.cov['samples']) < 4 and nontrivial:
        ctx.sample({'kind': 'condense', 'input': rep, 'impl_output': cases['condense'][-1][1]})
    if b_eff is None:
        return
    # --- the property on the implementation's output, exactly: solve the returned condensed system in Q, expand with
    #     the real solve_linear (through a stub solver returning the exact solution rounded is not exact, so expansion
    #     is done on Fractions with the returned (x, I)), check y[D] = x[D] and (A y)[I] = b[I]
    dense = dense_of(ip, ix, d, n)
    dII = [[as_int(v) for v in r] for r in AII.toarray()] if len(Ir_l) else []
    z = frac_solve(dII, got_bI) if len(Ir_l) else []
    if sorted(Ir_l) != sorted(I) or len(set(Ir_l)) != len(Ir_l):
        ctx.fail('condense:index-set', 'returned I is not the kept set', dict(rep, got_I=Ir_l))
        return
    if z is not None:
        y = [Fraction(v) for v in xr_l]
        for k, i in enumerate(Ir_l):
            y[i] = z[k]
        ok = all(y[i] == x_eff[i] for i in D) and all(
            sum(Fraction(dense[i][j]) * y[j] for j in range(n)) == b_eff[i] for i in I)
        if not ok:
            ctx.fail('condense:repeated-indices' if has_rep else 'condense:solution:' + hashlib.sha1(repr(rep).encode()).hexdigest()[:10],
                     'solving the condensed system exactly and expanding does not satisfy the original equations on I / x on D',
                     dict(rep, condensed_A=dII, condensed_b=got_bI, I=Ir_l, y=[str(v) for v in y]))
        if solve_too and len(Ir_l):
            # the float pipeline on a diagonally dominant system
            yf = solve(*out)
            if not all(float(yf[i]) == float(x_eff[i]) for i in D):
                ctx.fail('solve:expansion', 'solve(*condense(...)) does not return x on D', rep)
            scale = max(1.0, max(abs(float(v)) for v in y))
            disc = max(abs(float(yf[i]) - float(y[i])) for i in range(n)) / scale
            state['maxdisc'] = max(state['maxdisc'], disc)
            if disc > 1e-9:
                ctx.fail('solve:float-vs-exact', f'solve(*condense(...)) deviates from the exact solution by {disc:.2e} (rel)', rep)


def check_condense_eig(ctx, cases, state, n, csrA, csrB, x, S, which, rng):
    from skfem.utils import condense
    A, B = to_scipy(*csrA, n), to_scipy(*csrB, n)
    Sarr = idx_array(rng, S)
    xx = None if x is None else np.array(x, dtype=float)
    before = checksum(A, B, xx, Sarr)
    rep = {'fn': 'condense(matrix rhs)', 'n': n, 'A': list(csrA), 'B': list(csrB), 'x': x, which: S, 'nontrivial': n >= 2 and 0 < len(S) < n}
    ctx.count(('condense_eig', n, csrA, csrB, x, S, which), nontrivial=rep['nontrivial'])
    AII, BII, xr, Ir = condense(A, B, xx, **{which: Sarr})
    if checksum(A, B, xx, Sarr) != before:
        ctx.fail('no_mutation:condense_eig', 'condense (matrix rhs) modified its arguments', rep)
    cases['condense_eig'].append((tup(c_csr(*csrA), c_csr(*csrB), c_ozs(x), *((c_onats(S), 'NoNats') if which == 'I' else ('NoNats', c_onats(S)))),
                                  f'(Some ({c_rows(canon_rows(AII))}, {c_rows(canon_rows(BII))}, {cints(ints(xr))}, '
                                  f'{cnats([int(i) for i in Ir])}))', rep))
    I = [int(i) for i in Ir]
    dA, dB = dense_of(*csrA, n), dense_of(*csrB, n)
    if [[as_int(v) for v in r] for r in AII.toarray()] != [[dA[i][j] for j in I] for i in I] or \
            [[as_int(v) for v in r] for r in BII.toarray()] != [[dB[i][j] for j in I] for i in I]:
        ctx.fail('condense_eig:blocks', 'condense (matrix rhs) does not return A_II, B_II', rep)


def check_penalize_case(ctx, cases, state, n, csr, b, x, S, which, k, rng, Sarg=None):
    """epsilon = 2^-k so that 1/epsilon and x/epsilon are exact"""
    from skfem.utils import penalize
    ip, ix, d = csr
    fmt = rng.choice(FORMATS)
    A = as_format(to_scipy(ip, ix, d, n), fmt)
    if fmt != 'csr':
        ip, ix, d = canon_csr_lists(A)
    bb = None if b is None else np.array(b, dtype=float)
    xx = None if x is None else np.array(x, dtype=float)
    Sarr = idx_array(rng, S) if Sarg is None else Sarg
    D = dedup(S) if which == 'D' else [i for i in range(n) if i not in S]
    w = 2 ** k
    rep = {'fn': 'penalize', 'n': n, 'indptr': ip, 'indices': ix, 'data': d, 'b': b, 'x': x, which: S, 'epsilon': f'2^-{k}',
           'nontrivial': n >= 2 and 0 < len(D) < n}
    ctx.count(('penalize', n, ip, ix, d, b, x, S, which, k), nontrivial=rep['nontrivial'])
    before = checksum(A, bb, xx, Sarr)
    try:
        out = penalize(A, bb, xx, epsilon=2.0 ** -k, **{which: Sarr})
    except Exception as e:  # noqa: BLE001
        ctx.fail(('penalize:empty-selection' if len(S) == 0 else 'penalize:raises:' + type(e).__name__),
                 f'penalize raises {type(e).__name__}: {e}', dict(rep, index_dtype=str(getattr(Sarr, 'dtype', None))))
        return
    if checksum(A, bb, xx, Sarr) != before:
        ctx.fail('no_mutation:penalize', 'penalize(overwrite=False) modified its arguments', rep)
    A2, b2 = (out if isinstance(out, tuple) else (out, None))
    dense = dense_of(ip, ix, d, n)
    b_eff = b if b is not None else (None if x is None else [0] * n)
    x_eff = x if x is not None else [0] * n
    eA = [[(w if (j == i and i in D) else dense[i][j]) for j in range(n)] for i in range(n)]
    eb = None if b_eff is None else [x_eff[i] * w if i in D else b_eff[i] for i in range(n)]
    gA = [[as_int(v) for v in r] for r in A2.toarray()]
    gb = None if b2 is None else ints(b2)
    if gA != eA or gb != eb:
        ctx.fail('penalize:wrong-result', 'penalize: diagonal of D not 1/epsilon / rhs not x/epsilon / other entries changed',
                 dict(rep, expected=[eA, eb], got=[gA, gb]))
    # overwrite=True: same result, the arguments are returned
    A3 = as_format(to_scipy(ip, ix, d, n), fmt)
    b3 = None if b is None else np.array(b, dtype=float)
    out3 = penalize(A3, b3, xx, epsilon=2.0 ** -k, overwrite=True, **{which: Sarr})
    A4, b4 = (out3 if isinstance(out3, tuple) else (out3, None))
    if (fmt == 'csr' and A4 is not A3) or (b3 is not None and b4 is not b3) or canon_rows(A4) != canon_rows(A2) or (b4 is not None and ints(b4) != gb):
        ctx.fail('penalize:overwrite-differs', 'penalize(overwrite=True) differs from overwrite=False or does not return its arguments', rep)
    # matrix right-hand side: the mass matrix is returned unchanged (a copy)
    csrB = rand_csr(rng, n)
    Bm = to_scipy(*csrB, n)
    cb = checksum(Bm)
    A5, B5 = penalize(as_format(to_scipy(ip, ix, d, n), fmt), Bm, epsilon=2.0 ** -k, **{which: Sarr})
    if checksum(Bm) != cb or B5 is Bm or canon_rows(B5) != canon_rows(Bm) or canon_rows(A5) != canon_rows(A2):
        ctx.fail('penalize:matrix-rhs', 'penalize with a matrix right-hand side: mass matrix changed / not copied, or stiffness differs', rep)
    if fmt in ('coo', 'lil'):
        return            # setdiag of these formats stores the diagonal differently; only the dense result (checked above) is specified
    cases['penalize'].append((tup(c_csr(ip, ix, d), c_ozs(b), c_ozs(x), *((c_onats(S), 'NoNats') if which == 'I' else ('NoNats', c_onats(S))),
                                  cz(w)), f'(Some ({c_rows(canon_rows(A2))}, {c_ozs(gb)}))', rep))


def check_penalize_limit(ctx, state, n, csr, b, x, D, rng, zero_diag=False, key=None):
    """default epsilon: penalised solution vs condensed solution on a system whose kept block is diagonally dominant.
    zero_diag: the constrained rows carry a zero (or no) diagonal entry, as the pressure rows of a saddle-point system or
    rows without stored entries do — the property quantifies over those matrices too."""
    from skfem.utils import penalize, condense, solve
    ip, ix, d = [list(a) for a in csr]
    if zero_diag:
        # drop the diagonal entries of the rows in D (every second one is kept as an explicit zero)
        nip, nix, nd = [0], [], []
        for i in range(n):
            for k in range(ip[i], ip[i + 1]):
                if i in D and ix[k] == i:
                    if (i + len(nix)) % 2 == 0:
                        nix.append(i)
                        nd.append(0)
                    continue
                nix.append(ix[k])
                nd.append(d[k])
            nip.append(len(nix))
        ip, ix, d = nip, nix, nd
    A = to_scipy(ip, ix, d, n)
    bb, xx = np.array(b, dtype=float), np.array(x, dtype=float)
    Darr = idx_array(rng, D)
    key = key or ('penalize:default-epsilon:zero-diagonal' if zero_diag else 'penalize:limit')
    rep = {'fn': 'penalize (default epsilon) vs condense', 'n': n, 'indptr': ip, 'indices': ix, 'data': d, 'b': b, 'x': x, 'D': D}
    ctx.count(('penalize_limit', zero_diag, n, ip, ix, d, b, x, D), nontrivial=0 < len(D) < n)
    yc = solve(*condense(A, bb, xx, D=Darr))
    try:
        with np.errstate(all='ignore'):
            yp = solve(*penalize(A, bb, xx, D=Darr))
    except Exception as e:  # noqa: BLE001
        ctx.fail(key, f'solve(*penalize(...)) raises {e!r} where the condensed system is uniquely solvable', rep)
        return
    disc = float(np.max(np.abs(yp - yc)) / max(1.0, np.max(np.abs(yc))))
    if not zero_diag:
        state['pen_maxdisc'] = max(state['pen_maxdisc'], disc if np.isfinite(disc) else np.inf)
    else:
        state['pen0_maxdisc'] = max(state.get('pen0_maxdisc', 0.0), disc if np.isfinite(disc) else np.inf)
    if not (disc <= 1e-6):
        ctx.fail(key, f'penalize with its default epsilon deviates from condense by {disc:.2e} (rel): the prescribed values '
                 f'are not imposed (y[D] = {yp[D].tolist()}, x[D] = {xx[D].tolist()})',
                 dict(rep, penalized_solution=yp.tolist(), condensed_solution=yc.tolist()))


def check_noncanonical(ctx, n, rng):
    """CSR storage with DUPLICATE entries inside a row (outside the model's assumption): dense semantics of the
    results of enforce / penalize / condense against the property statement (exact integers)."""
    from skfem.utils import enforce, penalize, condense
    ip, ix, d = [0], [], []
    for i in range(n):
        k = rng.randint(0, n + 2)
        cols = [rng.randrange(n) for _ in range(k)]
        ix += cols
        d += [rng.choice([-3, -2, -1, 0, 1, 2, 3]) for _ in cols]
        ip.append(len(ix))
    A = to_scipy(ip, ix, d, n)
    dense = dense_of(ip, ix, d, n)
    S, which = rand_split(rng, n)
    D = dedup(S) if which == 'D' else [i for i in range(n) if i not in S]
    I = [i for i in range(n) if i not in D] if which == 'D' else dedup(S)
    b = [rng.randint(-9, 9) for _ in range(n)]
    x = [rng.randint(-9, 9) for _ in range(n)]
    bb, xx, Sarr = np.array(b, dtype=float), np.array(x, dtype=float), idx_array(rng, S)
    rep = {'fn': 'non-canonical CSR', 'n': n, 'indptr': ip, 'indices': ix, 'data': d, 'b': b, 'x': x, which: S}
    ctx.count(('noncanonical', n, ip, ix, d, b, x, S, which), nontrivial=0 < len(D) < n)
    before = checksum(A, bb, xx, Sarr)
    has_empty_D = any(ip[dd] == ip[dd + 1] for dd in D)
    try:
        A2, b2 = enforce(A, bb, xx, diag=2.0, **{which: Sarr})
        eA = [[(2 if j == i else 0) for j in range(n)] if i in D else dense[i] for i in range(n)]
        eb = [x[i] if i in D else b[i] for i in range(n)]
        if [[as_int(v) for v in r] for r in A2.toarray()] != eA or ints(b2) != eb:
            ctx.fail(F6_KEY if has_empty_D else 'enforce:noncanonical', 'enforce on a CSR matrix with duplicate entries: wrong dense result', rep)
        A3, b3 = penalize(A, bb, xx, epsilon=0.25, **{which: Sarr})
        eA = [[(4 if (j == i and i in D) else dense[i][j]) for j in range(n)] for i in range(n)]
        eb = [4 * x[i] if i in D else b[i] for i in range(n)]
        if [[as_int(v) for v in r] for r in A3.toarray()] != eA or ints(b3) != eb:
            ctx.fail('penalize:noncanonical', 'penalize on a CSR matrix with duplicate entries: wrong dense result', rep)
        AII, bI, xr, Ir = condense(A, bb, xx, **{which: Sarr})
        Il = [int(i) for i in Ir]
        eII = [[dense[i][j] for j in Il] for i in Il]
        ebI = [b[i] - sum(dense[i][j] * x[j] for j in D) for i in Il]
        if sorted(Il) != sorted(I) or ([[as_int(v) for v in r] for r in AII.toarray()] if Il else []) != eII or ints(bI) != ebI:
            ctx.fail('condense:repeated-indices' if len(set(S)) != len(S) else 'condense:noncanonical', 'condense on a CSR matrix with duplicate entries: wrong dense result', rep)
    except Exception as e:  # noqa: BLE001
        ctx.fail(F6_KEY if has_empty_D else 'noncanonical:raises:' + type(e).__name__, f'{type(e).__name__}: {e} on a CSR matrix with duplicate entries', rep)
    if checksum(A, bb, xx, Sarr) != before:
        ctx.fail('no_mutation:noncanonical', 'an argument was modified (CSR with duplicate entries)', rep)


def check_complex_case(ctx, state, n, rng):
    """complex-valued systems (Helmholtz-like), prescribed values omitted (default zeros) or given: condense + solve
    expansion, enforce, penalize.  Exact part: the expansion y = x.copy(); y[I] = z of a complex z through the (x, I)
    that condense returns keeps z bit for bit; float part: y = x on D and the residual on the kept rows."""
    from skfem.utils import condense, enforce, penalize, solve, solve_linear
    ip, ix, d = rand_csr(rng, n, dominant=True, empty_p=0.0, zero_p=0.05)
    im = [rng.randint(-3, 3) for _ in d]
    # keep the kept block diagonally dominant: imaginary parts only off the diagonal and small
    data = np.array([complex(d[k], (0 if ix[k] == i else 0.25 * im[k])) for i in range(n) for k in range(ip[i], ip[i + 1])]) \
        if ip[-1] else np.zeros(0, dtype=complex)
    A = sp.csr_matrix((data.astype(np.complex128), np.array(ix, dtype=np.int32), np.array(ip, dtype=np.int32)), shape=(n, n))
    b = np.array([complex(rng.randint(-9, 9), rng.randint(-9, 9)) for _ in range(n)])
    k = rng.randint(1, n - 1)
    D = rng.sample(range(n), k)
    I = [i for i in range(n) if i not in D]
    mode = rng.choice(['omitted', 'omitted', 'given', 'real'])
    given = mode != 'omitted'
    if mode == 'given':
        x = np.array([complex(rng.randint(-5, 5), rng.randint(-5, 5)) for _ in range(n)])
    elif mode == 'real':                         # real prescribed values (float array) for a complex system
        x = np.array([float(rng.randint(-5, 5)) for _ in range(n)])
    else:
        x = None
    xref = x.astype(complex) if given else np.zeros(n, dtype=complex)
    rep = {'fn': 'complex system', 'n': n, 'indptr': ip, 'indices': ix, 'data': [[float(v.real), float(v.imag)] for v in data],
           'b': [[float(v.real), float(v.imag)] for v in b], 'x': None if x is None else [[float(np.real(v)), float(np.imag(v))] for v in x], 'x_dtype': None if x is None else str(x.dtype),
           'D': D}
    ctx.count(('complex', n, ip, ix, rep['data'], rep['b'], rep['x'], D), nontrivial=True)
    ctx.hist('complex_x', mode)
    Darr, Iarr = idx_array(rng, D), idx_array(rng, I)
    key = 'condense:complex:x-' + mode
    kw = {} if x is None else {'x': x}
    before = checksum(A, b, x, Darr)
    scale = max(1.0, float(np.max(np.abs(b))))
    worst = 0.0
    with warnings.catch_warnings():
        warnings.simplefilter('ignore')
        for label, call in (('condense(D=)', lambda: solve(*condense(A, b, D=Darr, **kw))),
                            ('condense(I=)', lambda: solve(*condense(A, b, I=Iarr, **kw))),
                            ('enforce', lambda: solve(*enforce(A, b, D=Darr, **kw))),
                            ('penalize', lambda: solve(*penalize(A, b, D=Darr, **kw)))):
            try:
                y = np.asarray(call())
            except Exception as e:  # noqa: BLE001
                ctx.fail(key + ':' + label + ':raises', f'{label} on a complex system raises {e!r}', rep)
                continue
            tol = 1e-6 if label == 'penalize' else 1e-9
            e_bc = float(np.max(np.abs(y[D] - xref[D]))) / max(1.0, float(np.max(np.abs(xref))))
            res = float(np.max(np.abs((A @ y - b)[I]))) / scale
            if label != 'penalize':
                worst = max(worst, e_bc, res)
            if not (e_bc <= tol and res <= tol):
                ctx.fail(key + ':' + label.split('(')[0], f'{label} on a complex system: solution violates the property (|y-x| on D {e_bc:.1e}, '
                         f'residual on the kept rows {res:.1e}); real part only = {bool(np.all(np.asarray(y).imag == 0))}',
                         dict(rep, call=label, solution=[[float(v.real), float(v.imag)] for v in y]))
        # exact: expansion of a complex z through what condense returned
        AII, bI, xr, Ir = condense(A, b, D=Darr, **kw)
        z = np.array([complex(rng.randint(-9, 9), rng.randint(-9, 9)) for _ in Ir])
        y = solve_linear(AII, bI, xr, Ir, solver=lambda A_, b_, **kw_: z)
        if not (np.array_equal(np.asarray(y)[np.asarray(Ir)], z) and np.array_equal(np.asarray(y)[D], xref[D])):
            ctx.fail(key + ':expansion', 'solve_linear expansion with the (x, I) returned by condense does not keep a complex solution '
                     f'(x dtype {np.asarray(xr).dtype}, result dtype {np.asarray(y).dtype})',
                     dict(rep, z=[[float(v.real), float(v.imag)] for v in z], got=[[float(v.real), float(v.imag)] for v in np.asarray(y, dtype=complex)]))
        from skfem.utils import solve_eigen
        X = np.array([[complex(rng.randint(-9, 9), rng.randint(-9, 9)) for _ in range(2)] for _ in Ir]).reshape(len(Ir), 2)
        L, Y = solve_eigen(AII, bI, xr, Ir, solver=lambda A_, M_, **kw_: (np.zeros(2), X))
        if not (np.array_equal(np.asarray(Y)[np.asarray(Ir)], X) and np.array_equal(np.asarray(Y)[D], np.tile(xref[D][:, None], (1, 2)))):
            ctx.fail(key + ':eigen-expansion', 'solve_eigen expansion does not keep complex eigenvectors '
                     f'(x dtype {np.asarray(xr).dtype}, result dtype {np.asarray(Y).dtype})', rep)
    if checksum(A, b, x, Darr) != before:
        ctx.fail('no_mutation:complex', 'an argument of condense/enforce/penalize was modified (complex system)', rep)
    state['complex_maxdisc'] = max(state.get('complex_maxdisc', 0.0), worst)


def check_mpc_variants(ctx, state, rng):
    """mpc with complex-valued data and matrices that are not in CSR format: for x = solve(*mpc(...)) the constraint
    x[S] = T x[M] + g and the rows U, M of A x = b must hold (float residuals on diagonally dominant systems)"""
    from skfem.utils import mpc, solve
    n = rng.randint(4, 9)
    ip, ix, d = rand_csr(rng, n, dominant=True, empty_p=0.0)
    cplx = rng.random() < 0.5
    fmt = rng.choice(['csr', 'csc', 'lil'])
    data = np.array(d, dtype=complex if cplx else float)
    if cplx:
        data = data + 0.25j * np.array([0 if ix[k] == i else rng.randint(-2, 2) for i in range(n) for k in range(ip[i], ip[i + 1])])
    A = sp.csr_matrix((data, np.array(ix, dtype=np.int32), np.array(ip, dtype=np.int32)), shape=(n, n)).asformat(fmt)
    k = rng.randint(1, n // 2)
    SM = rng.sample(range(n), 2 * k)
    S, M = SM[:k], SM[k:]
    T = np.array([[rng.choice([0, 1, -1, 2]) for _ in M] for _ in S], dtype=complex if cplx else float).reshape(k, k)
    g = np.array([rng.randint(-3, 3) for _ in S], dtype=complex if cplx else float)
    b = np.array([rng.randint(-9, 9) for _ in range(n)], dtype=complex if cplx else float)
    if cplx:
        T = T + 1j * np.array([[rng.choice([0, 0, 1]) for _ in M] for _ in S]).reshape(k, k)
        g = g + 1j * np.array([rng.randint(-2, 2) for _ in S])
        b = b + 1j * np.array([rng.randint(-5, 5) for _ in range(n)])
    rep = {'fn': 'mpc (complex / non-CSR)', 'n': n, 'format': fmt, 'complex': cplx, 'indptr': ip, 'indices': ix,
           'data': [[float(np.real(v)), float(np.imag(v))] for v in data], 'S': S, 'M': M,
           'T': [[[float(np.real(v)), float(np.imag(v))] for v in r] for r in T], 'g': [[float(np.real(v)), float(np.imag(v))] for v in g],
           'b': [[float(np.real(v)), float(np.imag(v))] for v in b]}
    ctx.count(('mpc_variant', n, fmt, cplx, ip, ix, rep['data'], S, M, rep['T'], rep['g'], rep['b']), nontrivial=True)
    ctx.hist('mpc_variant', ('complex' if cplx else 'real') + ':' + fmt)
    before = checksum(A, b, g)
    try:
        with warnings.catch_warnings():
            warnings.simplefilter('ignore')
            red = mpc(A, b, S=np.array(S), M=np.array(M), T=sp.csr_matrix(T), g=g)
            if np.linalg.cond(red[0].toarray()) > 1e6:
                return        # the constrained problem itself is (nearly) singular: nothing to compare
            x = np.asarray(solve(*red))
    except Exception as e:  # noqa: BLE001
        ctx.fail('mpc:variant:raises', f'solve(*mpc(...)) raises {e!r} ({"complex" if cplx else "real"} data, {fmt} matrix)', rep)
        return
    U = [i for i in range(n) if i not in S and i not in M]
    scale = max(1.0, float(np.max(np.abs(x))))
    e_c = float(np.max(np.abs(x[S] - (T @ x[M] + g)))) / scale
    e_r = float(np.max(np.abs((A @ x - b)[U + M]))) / max(1.0, float(np.max(np.abs(b))))
    state['mpc_variant_maxdisc'] = max(state.get('mpc_variant_maxdisc', 0.0), e_c, e_r)
    if not (e_c <= 1e-9 and e_r <= 1e-9) or checksum(A, b, g) != before:
        ctx.fail('mpc:variant', f'mpc with {"complex" if cplx else "real"} data and a {fmt} matrix: constraint error {e_c:.1e}, residual on '
                 f'rows U, M {e_r:.1e}' + ('' if np.iscomplexobj(x) or not cplx else ' (imaginary part lost)'),
                 dict(rep, solution=[[float(np.real(v)), float(np.imag(v))] for v in x]))


def c_gs(v):
    return clist([f'({cz(int(np.real(z)))}, {cz(int(np.imag(z)))})' for z in v])


def check_complex_values_real_system(ctx, cases, n, rng):
    """REAL matrix and right-hand side, COMPLEX prescribed values (Gaussian integers, exact): enforce / penalize must carry
    x[D] into the returned right-hand side without losing the imaginary part; a copy is made unless overwrite is requested
    AND the dtype does not change.  Correspondence with the model over the ring of Gaussian integers."""
    from skfem.utils import enforce, penalize
    ip, ix, d = rand_csr(rng, n)
    A = to_scipy(ip, ix, d, n)
    b = [rng.randint(-9, 9) for _ in range(n)]
    x = np.array([complex(rng.randint(-9, 9), rng.randint(-9, 9)) for _ in range(n)])
    S, which = rand_split(rng, n)
    D = dedup(S) if which == 'D' else [i for i in range(n) if i not in S]
    Sarr = idx_array(rng, S)
    diag, k = rng.choice([1, 2, -3]), rng.randint(0, 4)
    rep = {'fn': 'complex prescribed values, real system', 'n': n, 'indptr': ip, 'indices': ix, 'data': d, 'b': b,
           'x': [[int(z.real), int(z.imag)] for z in x], which: S, 'diag': diag, 'epsilon': f'2^-{k}', 'nontrivial': 0 < len(D) < n}
    ctx.count(('complex_values', n, ip, ix, d, b, rep['x'], S, which, diag, k), nontrivial=rep['nontrivial'])
    sel = (c_onats(S), 'NoNats') if which == 'I' else ('NoNats', c_onats(S))

    def gterm(A2, b2):
        rows = []
        C = A2.tocsr()
        for i in range(n):
            lo, hi = C.indptr[i], C.indptr[i + 1]
            rows.append(sorted((int(c), as_int(np.real(v)), as_int(np.imag(v))) for c, v in zip(C.indices[lo:hi], C.data[lo:hi])))
        rt = clist([clist([f'({cnat(c)}, ({cz(a)}, {cz(bb)}))' for c, a, bb in r]) for r in rows])
        return f'(Some ({rt}, (Some {c_gs(b2)})))'
    for fn_name, call, w in (('enforce', lambda ov, bb: enforce(A.copy(), bb, x, diag=float(diag), overwrite=ov, **{which: Sarr}), diag),
                             ('penalize', lambda ov, bb: penalize(A.copy(), bb, x, epsilon=2.0 ** -k, overwrite=ov, **{which: Sarr}), 2 ** k)):
        exp = [(x[i] * (w if fn_name == 'penalize' else 1)) if i in D else complex(b[i]) for i in range(n)]
        for ov in (False, True):
            bb = np.array(b, dtype=float)
            try:
                with warnings.catch_warnings():
                    warnings.simplefilter('ignore')
                    A2, b2 = call(ov, bb)
            except Exception as e:  # noqa: BLE001
                ctx.fail(f'{fn_name}:complex-values:raises', f'{fn_name} with complex prescribed values and a real right-hand side raises {e!r}', rep)
                break
            ok = len(b2) == n and all(complex(b2[i]) == exp[i] for i in range(n))
            untouched = [float(v) for v in bb] == [float(v) for v in b]
            if not ok or not untouched:
                ctx.fail(f'{fn_name}:complex-values', f'{fn_name} with complex prescribed values x and a real right-hand side (overwrite={ov}): '
                         + ('the returned right-hand side does not carry x[D] (imaginary part lost); ' if not ok else '')
                         + ('the real argument b was modified although its dtype cannot hold the result' if not untouched else ''),
                         dict(rep, overwrite=ov, got=[[float(np.real(v)), float(np.imag(v))] for v in np.asarray(b2, dtype=complex)],
                              expected=[[v.real, v.imag] for v in exp]))
                break
            if not ov:
                inp = tup(cints(ip), cnats(ix), cints(d), cints(b), c_gs(x), sel[0], sel[1], cz(w))
                cases[fn_name + '_g'].append((inp, gterm(A2, b2), rep))
        # equal dtype + overwrite: the argument itself is returned
        bc = np.array(b, dtype=complex)
        with warnings.catch_warnings():
            warnings.simplefilter('ignore')
            _, b3 = call(True, bc)
        if b3 is not bc:
            ctx.fail(f'{fn_name}:overwrite-differs', f'{fn_name}(overwrite=True) with a right-hand side of the result dtype does not return it', rep)


def check_solver_factories(ctx, state, n, rng):
    """the solver factories and preconditioners of utils.py through solve(*condense(...)) / solve(*enforce(...)):
    solver_iter_pcg, solver_iter_cg, solver_iter_krylov (cg / gmres / bicgstab, verbose), build_pc_diag, build_pc_ilu,
    solve-time keyword arguments, solver_eigen_scipy_sym; rcm reordering.  Reference: exact rational solution."""
    import scipy.sparse.linalg as spl
    from skfem.utils import (condense, enforce, solve, solver_iter_pcg, solver_iter_cg, solver_iter_krylov, solver_direct_scipy,
                             build_pc_diag, build_pc_ilu, solver_eigen_scipy_sym, rcm)
    nprng = np.random.default_rng(rng.randrange(2 ** 31))
    G = nprng.integers(-2, 3, size=(n, n))
    Ad = (G @ G.T + 2 * n * np.eye(n, dtype=int)).astype(int)          # symmetric positive definite, integers
    A = sp.csr_matrix(Ad.astype(float))
    b = [rng.randint(-9, 9) for _ in range(n)]
    x = [rng.randint(-5, 5) for _ in range(n)]
    D = rng.sample(range(n), rng.randint(1, n - 2))
    I = [i for i in range(n) if i not in D]
    bb, xx, Darr = np.array(b, dtype=float), np.array(x, dtype=float), idx_array(rng, D)
    z = frac_solve([[int(Ad[i][j]) for j in I] for i in I], [b[i] - sum(int(Ad[i][j]) * x[j] for j in D) for i in I])
    yex = [Fraction(v) for v in x]
    for k_, i in enumerate(I):
        yex[i] = z[k_]
    yex = np.array([float(v) for v in yex])
    rep = {'fn': 'solver factories', 'n': n, 'A': Ad.tolist(), 'b': b, 'x': x, 'D': D}
    ctx.count(('solver_factories', n, Ad.tolist(), b, x, D), nontrivial=True)
    tol = {'rtol': 1e-13, 'atol': 0.0}
    cond = condense(A, bb, xx, D=Darr)
    enf = enforce(A, bb, xx, D=Darr)
    runs = {
        'condense + solver_iter_pcg': lambda: solve(*cond, solver=solver_iter_pcg(**tol)),
        'condense + solver_iter_cg': lambda: solve(*cond, solver=solver_iter_cg(**tol)),
        'condense + solver_iter_krylov()': lambda: solve(*cond, solver=solver_iter_krylov(**tol)),
        'condense + solver_iter_krylov(verbose)': lambda: solve(*cond, solver=solver_iter_krylov(spl.cg, verbose=False, **tol)),
        'condense + pcg, solve-time kwargs': lambda: solve(*cond, solver=solver_iter_pcg(), **tol),
        'condense + pcg(M=build_pc_diag)': lambda: solve(*cond, solver=solver_iter_pcg(M=build_pc_diag(cond[0]), **tol)),
        'condense + pcg(M=build_pc_ilu)': lambda: solve(*cond, solver=solver_iter_pcg(M=build_pc_ilu(cond[0]), **tol)),
        'condense + solver_direct_scipy': lambda: solve(*cond, solver=solver_direct_scipy()),
        'enforce + krylov(gmres)': lambda: solve(*enf, solver=solver_iter_krylov(spl.gmres, **tol)),
        'enforce + krylov(bicgstab, M=ilu)': lambda: solve(*enf, solver=solver_iter_krylov(spl.bicgstab, M=build_pc_ilu(enf[0]), **tol)),
    }
    worst = 0.0
    with warnings.catch_warnings():
        warnings.simplefilter('ignore')
        for label, fn in runs.items():
            try:
                y = np.asarray(fn())
            except Exception as e:  # noqa: BLE001
                ctx.fail('solve:solver-factory:raises', f'{label} raises {e!r}', dict(rep, call=label))
                continue
            err = float(np.max(np.abs(y - yex))) / max(1.0, float(np.max(np.abs(yex))))
            worst = max(worst, err)
            exact_on_D = (not label.startswith('condense')) or all(float(y[i]) == float(x[i]) for i in D)
            if not (err <= 1e-8 and exact_on_D):
                ctx.fail('solve:solver-factory', f'{label}: deviates from the exact constrained solution by {err:.2e} or does not carry x on D',
                         dict(rep, call=label, got=y.tolist()))
        # rcm: the reordered system has the permuted solution
        Ar, br, perm = rcm(cond[0], cond[1])
        zr = spl.spsolve(Ar.tocsr(), br)
        zz = np.zeros(len(I))
        zz[perm] = zr
        err = float(np.max(np.abs(zz - np.array([float(v) for v in z])))) / max(1.0, max(abs(float(v)) for v in z)) if len(I) else 0.0
        worst = max(worst, err)
        if not (err <= 1e-8):
            ctx.fail('rcm', f'rcm(A, b): the solution of the reordered system, scattered back by the returned permutation, deviates by {err:.2e}', rep)
        # symmetric eigensolver factory through condense of a pencil
        if len(I) >= 8:
            H = nprng.integers(-1, 2, size=(n, n)).astype(float)
            M = sp.csr_matrix(H @ H.T + n * np.eye(n))
            L, Y = solve(*condense(A, M, D=Darr), solver=solver_eigen_scipy_sym())
            if np.asarray(Y).shape[0] != n:
                ctx.fail('solve_eigen:not-expanded', f'solve(*condense(A, M, D=D)) returns eigenvectors of length {np.asarray(Y).shape[0]}, not {n}', rep)
                return
            res = 0.0
            for j in range(len(L)):
                r = (A @ Y[:, j] - L[j] * (M @ Y[:, j]))[I]
                res = max(res, float(np.max(np.abs(r))) / max(1.0, abs(L[j])) / max(1.0, float(np.max(np.abs(Y[:, j])))))
            worst = max(worst, res)
            if not (res <= 1e-8 and np.all(Y[D, :] == 0)):
                ctx.fail('solve:solver_eigen_scipy_sym', f'condense + solver_eigen_scipy_sym: residual on the kept rows {res:.2e} or non-zero on D', rep)
    state['solver_factories_maxdisc'] = max(state.get('solver_factories_maxdisc', 0.0), worst)


def check_expand(ctx, cases, n, x, I, z, X):
    from skfem.utils import solve_linear, solve_eigen
    xx = np.array(x, dtype=float)
    Iarr = np.array(I, dtype=np.int64)
    zz = np.array(z, dtype=float)
    before = checksum(xx, Iarr, zz)
    y = solve_linear(None, None, xx, Iarr, solver=lambda A, b, **kw: zz)
    if checksum(xx, Iarr, zz) != before:
        ctx.fail('no_mutation:solve_linear', 'solve_linear modified x / I / the solver output', {'x': x, 'I': I, 'z': z})
    rep = {'fn': 'solve_linear expansion', 'x': x, 'I': I, 'z': z, 'nontrivial': 0 < len(I) < n}
    ctx.count(('expand', x, I, z), nontrivial=rep['nontrivial'])
    exp = list(x)
    for k, i in enumerate(I):
        exp[i] = z[k]
    if ints(y) != exp:
        ctx.fail('solve_linear:expansion', 'y = x.copy(); y[I] = z not what solve_linear returns', dict(rep, got=ints(y)))
    cases['expand'].append((tup(cints(x), cnats(I), cints(z)), cints(ints(y)), rep))
    # eigen: X has one column per eigenvector
    XX = np.array(X, dtype=float).reshape(len(X), len(I)).T if len(X) else np.zeros((len(I), 0))
    L, Y = solve_eigen(None, None, xx, Iarr, solver=lambda A, M, **kw: (np.arange(len(X), dtype=float), XX))
    cols = [ints(Y[:, k]) for k in range(Y.shape[1])]
    expc = []
    for col in X:
        e = list(x)
        for k, i in enumerate(I):
            e[i] = col[k]
        expc.append(e)
    rep2 = {'fn': 'solve_eigen expansion', 'x': x, 'I': I, 'X': X, 'nontrivial': 0 < len(I) < n and len(X) > 0}
    ctx.count(('expand_eig', x, I, X), nontrivial=rep2['nontrivial'])
    if cols != expc:
        ctx.fail('solve_eigen:expansion', 'columns of the expanded eigenvectors are not x with X on I', dict(rep2, got=cols))
    cases['expand_eig'].append((tup(cints(x), cnats(I), clist([cints(c) for c in X])), clist([cints(c) for c in cols]), rep2))


def check_eigen_pipeline(ctx, state, n, rng):
    """condense / enforce on a symmetric positive definite pencil; dense eigensolver; residual on the kept rows"""
    import scipy.linalg as la
    from skfem.utils import condense, solve
    nprng = np.random.default_rng(rng.randrange(2 ** 31))
    cplx = rng.random() < 0.4                     # Hermitian positive definite pencils with complex entries
    fa, fm = rng.choice(['csr', 'csc', 'lil']), rng.choice(['csr', 'csc', 'lil'])
    G = nprng.integers(-2, 3, size=(n, n)).astype(float)
    H = nprng.integers(-1, 2, size=(n, n)).astype(float)
    if cplx:
        G = G + 1j * nprng.integers(-2, 3, size=(n, n))
        H = H + 1j * nprng.integers(-1, 2, size=(n, n))
    A = sp.csr_matrix(G @ G.conj().T + n * np.eye(n)).asformat(fa)
    M = sp.csr_matrix(H @ H.conj().T + n * np.eye(n)).asformat(fm)
    ctx.hist('eigen_pencil', ('complex' if cplx else 'real') + f':{fa}/{fm}')
    k = rng.randint(1, n - 1)
    D = rng.sample(range(n), k)
    if rng.random() < 0.3:
        D = D + [D[0]]                            # a repeated index denotes a set
    Darr = idx_array(rng, D)
    D = dedup(D)

    def dense_solver(Ac, Mc, **kw):
        w, V = la.eigh(Ac.toarray(), Mc.toarray())
        return w, V
    L, Y = solve(*condense(A, M, D=Darr), solver=dense_solver)
    if np.asarray(Y).shape[0] != n:
        ctx.fail('solve_eigen:not-expanded', f'solve(*condense(A, M, D=D)) returns eigenvectors of length {np.asarray(Y).shape[0]}, not {n}',
                 {'n': n, 'D': D})
        return
    I = [i for i in range(n) if i not in D]
    res = 0.0
    for j in range(len(L)):
        r = (A @ Y[:, j] - L[j] * (M @ Y[:, j]))[I]
        res = max(res, float(np.max(np.abs(r))) / max(1.0, abs(L[j])))
    state['eig_maxdisc'] = float(max(state['eig_maxdisc'], res))
    ctx.count(('eig_pipeline', n, D), nontrivial=True)
    if n - len(D) >= 8:
        # the library's default eigensolver (ARPACK shift-invert, k = 5) through the same expansion
        L2, Y2 = solve(*condense(A, M, D=Darr))
        for j in range(len(L2)):
            r = (A @ Y2[:, j] - L2[j] * (M @ Y2[:, j]))[I]
            res = max(res, float(np.max(np.abs(r))) / max(1.0, abs(L2[j])) / max(1.0, float(np.max(np.abs(Y2[:, j])))))
        state['eig_maxdisc'] = float(max(state['eig_maxdisc'], res))
        if Y2.shape[0] != n or not np.all(Y2[D, :] == 0):
            ctx.fail('condense_eig:default-solver', 'solve(*condense(A, M, D=D)) with the default eigensolver: eigenvectors not zero on D '
                     'or of the wrong length', {'n': n, 'D': D})
    if res > 1e-8 or not np.all(Y[D, :] == 0):
        ctx.fail('condense_eig:pipeline', f'expanded eigenvectors violate the kept rows (residual {res:.2e}) or are non-zero on D',
                 {'n': n, 'A': A.toarray().tolist(), 'M': M.toarray().tolist(), 'D': D})


# ------------------------------------------------------------------------------------ case generation

def _gen_random(ctx, cases, state):
    rng = ctx.rng
    nmax = ctx.n(8, 12)
    N = ctx.n(220, 1000)
    # the matrix of finding F6 first (fixed regression corpus), then random
    f6 = ([0, 2, 2, 5, 8], [1, 0, 3, 0, 2, 1, 3, 2], [1, 2, 3, 0, 5, 6, 7, 8])
    for D in ([0, 1, 2], [0, 1], [1, 2], [2, 3], [1], [3, 1, 0]):
        check_enforce_case(ctx, cases, state, 4, f6, [10, 11, 12, 13], [100, 101, 102, 103], D, 'D', 7, rng, tag='corpus')
    for it in range(N):
        n = rng.randint(1, nmax)
        csr = rand_csr(rng, n)
        S, which = rand_split(rng, n)
        b = [rng.randint(-9, 9) for _ in range(n)]
        x = [rng.randint(-9, 9) for _ in range(n)]
        diag = rng.choice([1, 1, 1, 2, -3, 0, 7])
        mode = rng.random()
        bo, xo = (b, x) if mode < 0.7 else ((None, None) if mode < 0.8 else ((None, x) if mode < 0.9 else (b, None)))
        check_enforce_case(ctx, cases, state, n, csr, bo, xo, S, which, diag, rng)
        check_condense_case(ctx, cases, state, n, csr, bo, xo, S, which, rng)
        if it % 3 == 0:
            csrB = rand_csr(rng, n)
            check_enforce_eig(ctx, cases, state, n, csr, csrB, S, which, diag, rng)
            check_condense_eig(ctx, cases, state, n, csr, csrB, xo, S, which, rng)
            check_penalize_case(ctx, cases, state, n, csr, bo, xo, S, which, rng.randint(0, 6), rng)
            I = dedup(S) if which == 'I' else [i for i in range(n) if i not in S]
            rng.shuffle(I)
            z = [rng.randint(-20, 20) for _ in I]
            X = [[rng.randint(-20, 20) for _ in I] for _ in range(rng.randint(0, 3))]
            check_expand(ctx, cases, n, x, I, z, X)
        # positions alone (the T2-generated arithmetic against the zero pattern the implementation produces is part of
        # 'enforce'; here the arithmetic is run on larger row pointers than whole matrices allow)
    for it in range(ctx.n(60, 300)):
        n = rng.randint(2, nmax)
        csr = rand_csr(rng, n, dominant=True, empty_p=0.0, zero_p=0.05)
        S, which = rand_split(rng, n)
        b = [rng.randint(-9, 9) for _ in range(n)]
        x = [rng.randint(-9, 9) for _ in range(n)]
        check_condense_case(ctx, cases, state, n, csr, b, x, S, which, rng, solve_too=True)
        D = dedup(S) if which == 'D' else [i for i in range(n) if i not in S]
        if 0 < len(D) < n:
            check_penalize_limit(ctx, state, n, csr, b, x, D, rng)
            if it % 4 == 0:
                check_penalize_limit(ctx, state, n, csr, b, x, D, rng, zero_diag=True)
    for it in range(ctx.n(60, 400)):
        check_noncanonical(ctx, rng.randint(1, nmax), rng)
    # empty selections of every dtype (np.array([]) is an array of floats), both call forms
    for dt in (np.float64, np.int32, np.int64):
        for which in ('I', 'D'):
            for rep_i in range(ctx.n(2, 8)):
                n = rng.randint(1, nmax)
                csr = rand_csr(rng, n)
                b = [rng.randint(-9, 9) for _ in range(n)]
                x = [rng.randint(-9, 9) for _ in range(n)]
                ctx.hist('empty_selection', f'{which}:{np.dtype(dt).name}')
                check_enforce_case(ctx, cases, state, n, csr, b, x, [], which, rng.choice([1, 2]), rng, Sarg=np.array([], dtype=dt), tag='empty')
                check_condense_case(ctx, cases, state, n, csr, b, x, [], which, rng, Sarg=np.array([], dtype=dt))
                check_penalize_case(ctx, cases, state, n, csr, b, x, [], which, rng.randint(0, 4), rng, Sarg=np.array([], dtype=dt))
    for it in range(ctx.n(30, 200)):
        check_complex_values_real_system(ctx, cases, rng.randint(1, nmax), rng)
    for it in range(ctx.n(12, 80)):
        check_solver_factories(ctx, state, rng.choice([6, 8, 11, 12, 13]), rng)
    for it in range(ctx.n(30, 200)):
        check_mpc_variants(ctx, state, rng)
    for it in range(ctx.n(40, 250)):
        check_complex_case(ctx, state, rng.randint(2, nmax), rng)
    for it in range(ctx.n(15, 80)):
        check_eigen_pipeline(ctx, state, rng.randint(3, nmax) if it % 3 else rng.randint(10, 14), rng)
    # positions: the generated arithmetic vs the implementation's lines executed verbatim is not observable directly;
    # what is observable is which stored values become zero: all-nonzero data, diag irrelevant
    for it in range(ctx.n(60, 300)):
        n = rng.randint(1, nmax + 4)
        ip = [0]
        for i in range(n):
            ip.append(ip[-1] + (0 if rng.random() < 0.35 else rng.randint(1, 3)))
        D = rng.sample(range(n), rng.randint(0, n))
        _positions_case(ctx, cases, n, ip, D, rng)


def _positions_case(ctx, cases, n, ip, D, rng):
    """observe the zeroed positions through the data array: columns chosen so that no diagonal entry is stored
    inside D-rows is NOT required — the positions are read off Aout.data before setdiag by wrapping setdiag"""
    from skfem.utils import enforce
    nnz = ip[-1]
    # columns: arbitrary distinct columns per row in a wide matrix are not allowed (square) -> use n x n with cols mod n
    ix = []
    for i in range(n):
        k = ip[i + 1] - ip[i]
        ix += rng.sample(range(max(n, 3)), k) if k <= max(n, 3) else list(range(k))
    m = max(n, 3)
    A = sp.csr_matrix((np.arange(1, nnz + 1, dtype=float), np.array(ix, dtype=np.int32), np.array(ip, dtype=np.int32)), shape=(n, m))
    seen = {}

    class Spy(sp.csr_matrix):
        def setdiag(self, values, k=0):
            seen['data'] = self.data.copy()
            raise _Stop()
    S = Spy(A)
    rep = {'fn': 'enforce positions', 'indptr': ip, 'D': D, 'nontrivial': len(D) > 0}
    ctx.count(('positions', ip, D), nontrivial=len(D) > 0)
    try:
        enforce(S, D=np.array(D, dtype=np.int64))
    except _Stop:
        pass
    except Exception as e:  # noqa: BLE001
        has_empty = any(ip[d] == ip[d + 1] for d in D)
        ctx.fail(F6_KEY if has_empty else 'enforce:positions-raise', f'row-zeroing arithmetic raises {e!r}', rep)
        cases['positions'].append((tup(cints(ip), cints(D), cnat(nnz)), 'RaisesZs', rep))
        return
    zeroed = [k for k in range(nnz) if seen['data'][k] == 0.0]
    want = sorted(k for d in set(D) for k in range(ip[d], ip[d + 1]))
    if zeroed != want:
        has_empty = any(ip[d] == ip[d + 1] for d in D)
        ctx.fail(F6_KEY if has_empty else 'enforce:positions-wrong', 'zeroed storage positions are not the union of the constrained '
                 'rows\' ranges', dict(rep, expected=want, got=zeroed))
    pattern = [0 if seen['data'][k] == 0.0 else 1 for k in range(nnz)]
    cases['positions'].append((tup(cints(ip), cints(D), cnat(nnz)), f'(Some {cints(pattern)})', rep))


class _Stop(Exception):
    pass


def _gen_basis(ctx, cases, state):
    """index sets given as DofsView / dict of DofsViews of a real basis"""
    import skfem
    from skfem.utils import _flatten_dofs
    rng = ctx.rng
    cfgs = [(skfem.MeshTri(), skfem.ElementTriP2()), (skfem.MeshTri().refined(1), skfem.ElementTriP1()),
            (skfem.MeshTri(), skfem.ElementVector(skfem.ElementTriP1())), (skfem.MeshTri(), skfem.ElementVector(skfem.ElementTriP2())),
            (skfem.MeshQuad(), skfem.ElementQuad2()), (skfem.MeshTet(), skfem.ElementTetP1()),
            (skfem.MeshLine().refined(2), skfem.ElementLineP2())]
    if not ctx.quick():
        cfgs += [(skfem.MeshTri().refined(1), skfem.ElementTriP2()), (skfem.MeshQuad().refined(1), skfem.ElementQuad1()),
                 (skfem.MeshTri(), skfem.ElementVector(skfem.ElementTriP1()))]
    for m, e in cfgs:
        basis = skfem.Basis(m, e)
        n = basis.N
        if m.dim() == 1:
            parts = {'left': basis.get_dofs(lambda x: x[0] == 0.0), 'right': basis.get_dofs(lambda x: x[0] == 1.0)}
        else:
            parts = {'left': basis.get_dofs(lambda x: x[0] == 0.0), 'bottom': basis.get_dofs(lambda x: x[1] == 0.0),
                     'right': basis.get_dofs(lambda x: x[0] == 1.0)}
        if isinstance(e, skfem.ElementVector):
            # views carrying DIFFERENT name filters (keep / drop / skip): a dict of them denotes the union of the
            # individually filtered sets
            names = sorted(set(e.dofnames))
            parts = {'left': parts['left'].keep(names[0]), 'bottom': parts['bottom'].keep(names[-1]),
                     'right': parts['right'].drop(names[0]),
                     'top': basis.get_dofs(lambda x: x[1] == 1.0, skip=[names[-1]])}
        for rep_i in range(ctx.n(3, 8)):
            csr = rand_csr(rng, n, empty_p=0.2)
            b = [rng.randint(-9, 9) for _ in range(n)]
            x = [rng.randint(-9, 9) for _ in range(n)]
            names = rng.sample(sorted(parts), rng.randint(1, len(parts)))
            if rng.random() < (0.25 if isinstance(e, skfem.ElementVector) else 0.5):
                view = parts[names[0]]
                S = [int(i) for i in view.flatten()]
                Sarg, vl = view, None
            else:
                Sarg = {k: parts[k] for k in names}
                vl = [[int(i) for i in parts[k].flatten()] for k in names]
                S = [int(i) for i in _flatten_dofs(Sarg)]
                if S != sorted(set(sum(vl, []))):
                    ctx.fail('_flatten_dofs:dict', '_flatten_dofs(dict) is not the sorted union of the views',
                             {'views': vl, 'got': S})
            which = rng.choice(['I', 'D'])
            ctx.hist('dof_collection', type(Sarg).__name__)
            check_enforce_case(ctx, cases, state, n, csr, b, x, S, which, 1, rng, Sarg=Sarg, view_lists=vl, tag=type(e).__name__)
            check_condense_case(ctx, cases, state, n, csr, b, x, S, which, rng, Sarg=Sarg, view_lists=vl)


def _oracle_mpc(ctx, state, cases=None):
    """mpc: correspondence records for the model plus the exact oracle.  For the solution x returned by solve(*mpc(...)):
    x[S] = T x[M] + g and the rows U, M of A x = b hold; all defaults (T, g, S, M omitted) are exercised; the expansion
    branches of solve_linear / solve_eigen for a tuple I are checked exactly with stub solvers."""
    from skfem.utils import mpc, solve, solve_linear, solve_eigen
    rng = ctx.rng
    worst = 0.0
    for it in range(ctx.n(40, 200)):
        n = rng.randint(3, 8)
        csr = rand_csr(rng, n, dominant=True, empty_p=0.0)
        A = to_scipy(*csr, n)
        b = [rng.randint(-9, 9) for _ in range(n)]
        k = rng.randint(1, n // 2)
        mode = it % 4
        if mode == 3:
            S, M = [], []                       # no constraint at all: S, M omitted
        else:
            SM = rng.sample(range(n), 2 * k) if (rng.random() < 0.5 or mode == 1) else rng.sample(range(n), k + rng.randint(1, n - k))
            S, M = SM[:k], SM[k:]
        T = [[rng.choice([0, 0, 1, -1, 2]) for _ in M] for _ in S]
        g = [rng.randint(-3, 3) for _ in S]
        kw = {}
        if mode != 3:
            kw = {'S': np.array(S), 'M': np.array(M)}
            if mode == 1:                       # T omitted: identity (|S| = |M|)
                T = [[1 if r == c else 0 for c in range(len(M))] for r in range(len(S))]
            else:
                kw['T'] = sp.csr_matrix(np.array(T, dtype=float).reshape(len(S), len(M)))
            if mode == 2:                       # g omitted: zero
                g = [0] * len(S)
            else:
                kw['g'] = np.array(g, dtype=float)
        U = [i for i in range(n) if i not in S and i not in M]
        bb = np.array(b, dtype=float)
        before = checksum(A, bb)
        rep = {'fn': 'mpc', 'n': n, 'csr': list(csr), 'b': b, 'S': S, 'M': M, 'T': T, 'g': g, 'defaults': {0: 'none', 1: 'T', 2: 'g', 3: 'S,M,T,g'}[mode]}
        B, yv, x0, (perm, fexp) = mpc(A, bb, **kw)
        ctx.count(('mpc', n, csr, b, S, M, T, g, mode), nontrivial=mode != 3)
        ctx.hist('mpc_defaults', rep['defaults'])
        if checksum(A, bb) != before:
            ctx.fail('no_mutation:mpc', 'mpc modified its arguments', rep)
        dB = [[as_int(v) for v in r] for r in B.toarray()]
        if cases is not None:
            Tt = 'NoRows' if 'T' not in kw else f'(Some {c_rows(canon_rows(kw["T"]))})'
            cases['mpc'].append((tup(c_csr(*csr), cints(b), c_onats(S if 'S' in kw else None), c_onats(M if 'M' in kw else None), Tt,
                                     c_ozs(g if 'g' in kw else None)),
                                 f'({clist([cints(r) for r in dB])}, {cints(ints(yv))}, {cints(ints(x0))}, {cnats([int(i) for i in perm])})',
                                 dict(rep, nontrivial=mode != 3)))
        u = frac_solve(dB, ints(yv))
        if [int(i) for i in perm] != U + M + S:
            ctx.fail('mpc:permutation', 'mpc: index bookkeeping (U, M, S) wrong', dict(rep, got=[int(i) for i in perm]))
            continue
        if u is None:
            continue
        uM = u[len(U):]
        xs = [sum(Fraction(T[r][c]) * uM[c] for c in range(len(M))) + g[r] for r in range(len(S))]
        full = [Fraction(0)] * n
        for pos, i in enumerate(U + M + S):
            full[i] += (u + xs)[pos]
        dense = dense_of(*csr, n)
        if not all(sum(Fraction(dense[i][j]) * full[j] for j in range(n)) == b[i] for i in U + M):
            ctx.fail('mpc:solution', 'mpc: exact solution of the reduced system, expanded, violates rows U, M of A x = b', rep)
            continue
        # the float pipeline: solve(*mpc(...)) -> solve_linear's tuple branch
        xf = solve(B, yv, x0, (perm, fexp))
        disc = max(abs(float(xf[i]) - float(full[i])) for i in range(n)) / max(1.0, max(abs(float(v)) for v in full))
        worst = max(worst, disc)
        if not (disc <= 1e-9) or len(xf) != n:
            ctx.fail('mpc:solve', f'solve(*mpc(...)) deviates from the exact constrained solution by {disc:.2e}', dict(rep, got=[float(v) for v in xf]))
        # expansion branches with stub solvers (exact integers)
        z = [rng.randint(-5, 5) for _ in range(len(U) + len(M))]
        zz = np.array(z, dtype=float)
        xl = solve_linear(None, None, np.zeros(n), (perm, fexp), solver=lambda A_, b_, **kw_: zz)
        zM = z[len(U):]
        exp = [0] * n
        for pos, i in enumerate(U + M + S):
            exp[i] += (z + [sum(T[r][c] * zM[c] for c in range(len(M))) + g[r] for r in range(len(S))])[pos]
        if cases is not None:
            Trows = [[(c, T[r][c]) for c in range(len(M)) if T[r][c] != 0] for r in range(len(S))]
            cases['tuple'].append((tup(cints([0] * n), cnats(U + M + S), c_rows(Trows), cints(g), cnats(U), cints(z)), cints(ints(xl)),
                                   dict(rep, z=z, nontrivial=mode != 3)))
        if ints(xl) != exp:
            ctx.fail('solve_linear:tuple-expansion', 'solve_linear with a (indices, expansion) tuple does not scatter the expanded vector',
                     dict(rep, z=z, got=ints(xl), expected=exp))
        X = np.array([[rng.randint(-5, 5) for _ in range(2)] for _ in range(len(U) + len(M))], dtype=float).reshape(len(U) + len(M), 2)
        L, Y = solve_eigen(None, None, np.zeros(n), (perm, fexp), solver=lambda A_, M_, **kw_: (np.zeros(2), X))
        okc = Y.shape == (n, 2)
        for c in range(2 if okc else 0):
            col = [as_int(v) for v in X[:, c]]
            cM = col[len(U):]
            e = [0] * n
            for pos, i in enumerate(U + M + S):
                e[i] += (col + [sum(T[r][cc] * cM[cc] for cc in range(len(M))) + g[r] for r in range(len(S))])[pos]
            okc = okc and ints(Y[:, c]) == e
        if not okc:
            ctx.fail('solve_eigen:tuple-expansion', 'solve_eigen with a (indices, expansion) tuple does not scatter the expanded eigenvectors', rep)
    state['mpc_maxdisc'] = worst


def _solve_dispatch_cases(ctx, cases):
    """the real skfem.utils.solve with stub solvers on generated argument records (vector / sparse / other second argument,
    x and I present or absent in every combination) vs the regenerated gen_solve"""
    from skfem.utils import solve
    rng = ctx.rng
    for it in range(ctx.n(60, 300)):
        n = rng.randint(1, 6)
        kind = rng.choice([0, 0, 1, 1, 2])
        x = [rng.randint(-9, 9) for _ in range(n)] if rng.random() < 0.7 else None
        I = rng.sample(range(n), rng.randint(0, n)) if rng.random() < 0.7 else None
        m = len(I) if (x is not None and I is not None) else rng.randint(0, 4)
        z = [rng.randint(-9, 9) for _ in range(m)]
        X = [[rng.randint(-9, 9) for _ in range(m)] for _ in range(rng.randint(0, 3))]       # eigenvectors (columns of the solver's X)
        A = sp.csr_matrix(np.eye(max(n, 1)))
        b = {0: np.zeros(n), 1: sp.csr_matrix(np.eye(max(n, 1))), 2: [0.0] * n}[kind]
        xx = None if x is None else np.array(x, dtype=float)
        Ia = None if I is None else np.array(I, dtype=np.int64)
        Xm = np.array(X, dtype=float).reshape(len(X), m).T if X else np.zeros((m, 0))
        solver = (lambda A_, b_, **kw: np.array(z, dtype=float)) if kind != 1 else (lambda A_, M_, **kw: (np.zeros(len(X)), Xm))
        rep = {'fn': 'solve dispatch', 'kind': ['vector', 'sparse', 'other'][kind], 'x': x, 'I': I, 'z': z, 'X': X, 'nontrivial': x is not None and I is not None}
        ctx.count(('solve_dispatch', kind, x, I, z, X), nontrivial=rep['nontrivial'])
        try:
            out = solve(A, b, xx, Ia, solver=solver)
        except NotImplementedError:
            out = None
        if out is None:
            got = 'RaisesSolve'
            if kind != 2:
                ctx.fail('solve:dispatch-raises', 'solve raises NotImplementedError for a vector / sparse second argument', rep)
        elif kind == 1:
            Y = out[1]
            got = f'(Some ([], {clist([cints(ints(Y[:, k])) for k in range(Y.shape[1])])}))'
        else:
            got = f'(Some ({cints(ints(out))}, []))'
        cases['solve'].append((tup(cnat(kind), c_ozs(x), c_onats(I), cints(z), clist([cints(c) for c in X])), got, rep))


def replay(ctx, data):
    """re-run one recorded failing input on the implementation (and, through the correspondence, on the model)"""
    warnings.simplefilter('ignore')
    inp = data.get('input', {})
    ctx.log('replaying', data.get('key'))
    ctx.ensure_static()
    cases = {k: [] for k in ('enforce', 'enforce_eig', 'condense', 'condense_eig', 'penalize', 'expand', 'expand_eig', 'positions', 'mpc', 'tuple', 'enforce_g', 'penalize_g', 'solve')}
    state = {'maxdisc': 0.0, 'pen_maxdisc': 0.0, 'eig_maxdisc': 0.0}
    which = 'D' if 'D' in inp else 'I'
    if inp.get('fn') == 'enforce':
        check_enforce_case(ctx, cases, state, inp['n'], (inp['indptr'], inp['indices'], inp['data']), inp['b'], inp['x'],
                           inp[which], which, inp['diag'], ctx.rng)
    elif inp.get('fn') == 'condense':
        check_condense_case(ctx, cases, state, inp['n'], (inp['indptr'], inp['indices'], inp['data']), inp['b'], inp['x'],
                            inp[which], which, ctx.rng)
    elif inp.get('fn', '').startswith('penalize (default epsilon)'):
        check_penalize_limit(ctx, state, inp['n'], (inp['indptr'], inp['indices'], inp['data']), inp['b'], inp['x'], inp['D'], ctx.rng,
                             key=data.get('key'))
        ctx.searched_known = False
        return
    elif inp.get('fn') == 'enforce positions':
        _positions_case(ctx, cases, len(inp['indptr']) - 1, inp['indptr'], inp['D'], ctx.rng)
    else:
        ctx.log('no single-input replay for this record; running the whole check')
        return run(ctx)
    try:
        ctx.write_gen('C05Gen', c05_tr.translate())
        if ctx.compile_dyn(['gen/C05Gen.v']):
            for name, fn, eqb in (('enforce', 'run_enforce', '(option_eqb eq_mo)'), ('condense', 'run_condense', '(option_eqb eq_cond)')):
                if cases[name]:
                    bad = ctx.corr(name, IMPORTS, fn, eqb, cases[name], defs=DEFS)
                    ctx.log(f'model {"agrees with" if bad == [] else "differs from"} the implementation on this input')
    except TranslateError as e:
        ctx.broke('translator', 'c05_tr.translate', e)
    ctx.searched_known = False
