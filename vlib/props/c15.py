"""C15 — no hidden state: history-independent results, operands never mutated.

tie T2 : vlib/c15_translate.py regenerates from /repo the key every cache guard compares and what the guarded computation
         reads (hash_args, MappingIsoparametric.J, ElementLinePp / ElementQuadP tables, ElementGlobal.V), the table of all
         lazily initialised attributes, the dictionary plumbing of the five solver-factory closures, and scans
         skfem/mesh/*.py for stores into mesh arrays.  coq/dyn/C15/*.v prove, per site, that the key determines the
         computation (resp. that the closure never writes its captured dict); Base.C15_Memo turns that into
         history independence for every history over a pool of objects (props/C15.v).
tie T3 : correspondence — real access histories on real objects; for every call, which earlier call's value was handed
         back (by object identity) must equal what the automaton over the regenerated keys predicts; for the closures
         the options that reach the backend (observed by a spy backend) must equal the model's.
search : vlib/c15_oracle.py — random operation sequences over a shared pool of real objects against freshly built equal
         objects, adversarial argument pools (equal size / equal bytes / equal count), operand checksums.
"""
import os
import time

from .. import c15_translate as T
from ..core import TranslateError, scan_forbidden

GEN_ORDER = [   # (file name, translator, level)
    ('C15GenHash', T.tr_hash, 0),
    ('C15GenLinePp', lambda: T.tr_pointcache('linepp'), 0),
    ('C15GenQuadP', lambda: T.tr_pointcache('quadp'), 0),
    ('C15GenGlobal', T.tr_global, 0),
    ('C15GenLazy', T.tr_lazy, 0),
    ('C15GenScan', T.tr_scan, 0),
    ('C15GenJ', T.tr_J, 1),
]
DYN_LEVELS = [
    ['C15_TieHash', 'C15_TieJ', 'C15_TieLinePp', 'C15_TieQuadP', 'C15_TieGlobal', 'C15_TieLazy', 'C15_TieSolvers'],
    ['C15_TiePool'],
]


def compile_parallel(ctx, rels, kind='generated', timeout=300):
    """like Ctx.compile_dyn, but for mutually independent files in parallel; returns {rel: ok}"""
    todo, res = [], {}
    for rel in rels:
        path = os.path.join(ctx.bdir, rel)
        if not os.path.exists(path):
            res[rel] = False
            continue
        bad = scan_forbidden([path])
        if bad:
            ctx.broken.append({'kind': 'proof', 'name': rel, 'detail': 'forbidden construct: ' + '; '.join(bad)})
            res[rel] = False
            continue
        todo.append(rel)
    out = ctx.coqc_many(todo, timeout, jobs=4) if todo else {}
    for rel in rels:
        path = os.path.join(ctx.bdir, rel)
        names = [m.group(2) for m in ctx._thm_re.finditer(open(path).read())] if os.path.exists(path) else []
        if rel not in out:
            for nm in names:
                ctx.obligations.append({'name': f'{rel}:{nm}', 'kind': kind, 'ok': False})
            continue
        ok, so, err, secs = out[rel]
        res[rel] = ok
        failed_at = None
        if not ok:
            failed_at = ctx._failing_theorem(open(path).read(), err)
            dep_missing = 'Cannot find a physical path' in err or 'Unable to locate library' in err or 'Cannot load' in err
            ctx.broken.append({'kind': 'proof', 'name': f'{rel}:{failed_at or ("missing-dependency" if dep_missing else "?")}',
                               'detail': err[-1500:]})
        ctx.log(f'coqc {rel}: {"ok" if ok else "FAILED" + (" at " + str(failed_at) if failed_at else "")} ({secs:.1f}s, {len(names)} lemmas)')
        seen_fail = False
        for nm in names:
            if not ok and (failed_at is None or nm == failed_at):
                seen_fail = True
            ctx.obligations.append({'name': f'{rel}:{nm}', 'kind': kind, 'ok': ok or not seen_fail})
    return res


def regenerate(ctx):
    """run every translator; returns facts per site and the set of generated files"""
    facts, written = {}, {}
    for name, fn, level in GEN_ORDER:
        try:
            txt, f = fn()
            ctx.write_gen(name, txt)
            facts[name] = f
            written[name] = level
        except TranslateError as e:
            ctx.broke('translator', name, e)
    sol = T.tr_solvers()
    for short, (txt, lem, f, err) in sol.items():
        if err is not None:
            ctx.broke('translator', f'C15GenSolver_{short}', err)
            continue
        ctx.write_gen(f'C15GenSolver_{short}', txt)
        ctx.write_gen(f'C15GenSolverPure_{short}', lem)
        facts[f'solver_{short}'] = f
        written[f'C15GenSolver_{short}'] = 0
        written[f'C15GenSolverPure_{short}'] = 1
    return facts, written


def compile_all(ctx, written):
    ok = {}
    for level in (0, 1):
        ok.update(compile_parallel(ctx, [f'gen/{n}.v' for n, l in written.items() if l == level]))
    ctx.copy_dyn()
    for lev in DYN_LEVELS:
        ok.update(compile_parallel(ctx, [f'dyn/{n}.v' for n in lev], kind='tie'))
    return ok


def run(ctx):
    from .. import c15_oracle as O
    ctx.trusted += [
        'object identity stands for object content: the library never re-binds or writes the defining arrays of a mesh after '
        'construction (checked by the AST store scan over skfem/mesh/*.py, two whitelisted sites), nor the constructor-set '
        'attributes of mappings / elements / bases read by cached computations (checked per site by the translators)',
        'NumPy / SciPy internals (ARPACK start vectors, BLAS threading) are outside the model; solver results are compared with '
        'explicit start vectors',
    ]
    ctx.assumptions += [
        "Python's hash() does not collide on the key parts occurring in a history (J cache; named hypothesis of "
        'C15_J_cache_transparent_modulo_hash_collisions)',
        'point arrays handed to ElementLinePp / ElementQuadP are float64 without NaN (== on elements is equality of what the '
        'tables are computed from)',
        'users do not write into arrays they handed to or obtained from the library (the property is about the library)',
    ]
    ctx.cov['rule'] = ('correspondence: access histories (length <= 12) on real objects, origin of every returned value by object '
                       'identity vs the automaton over the regenerated keys; closure histories with a spy backend. search: random '
                       'operation sequences (length <= 12) over a shared pool vs freshly built equal objects, adversarial argument '
                       'pools, operand checksums; non-trivial = a history in which some object is used at least twice; distinct by content')
    ctx.ensure_static()
    t = time.time()
    import threading
    import traceback
    facts, written = regenerate(ctx)
    ctx.extra['translated'] = {k: (v if not isinstance(v, dict) or 'rows' not in v else {'lazy_attributes': len(v['rows'])})
                               for k, v in facts.items() if k != 'C15GenScan'}
    if 'C15GenScan' in facts:
        ctx.extra['store_scan'] = {'functions': facts['C15GenScan']['functions'],
                                   'whitelisted': [list(x) for x in facts['C15GenScan']['whitelisted']],
                                   'offending': [list(x) for x in facts['C15GenScan']['offending']]}
    ok = {}

    def coq_side():
        try:
            ok.update(compile_all(ctx, written))
            ctx.prove()
            ctx.log(f'build+prove {time.time() - t:.1f}s')
        except Exception as e:      # noqa: BLE001
            ctx.broke('harness', type(e).__name__, traceback.format_exc())
    th = threading.Thread(target=coq_side)
    th.start()
    # meanwhile, on the real implementation (no Coq needed): the search (runs always) and the histories of the correspondence
    wit, jobs = {}, []
    try:
        wit = O.search(ctx)
    except Exception as e:      # noqa: BLE001 - a crash of one stage must not hide what the others find
        ctx.broke('harness', type(e).__name__, traceback.format_exc())
    try:
        jobs = O.correspond(ctx, facts)
    except Exception as e:      # noqa: BLE001
        ctx.broke('harness', type(e).__name__, traceback.format_exc())
    th.join()
    for stage in (lambda: O.run_correspondence(ctx, jobs, ok), lambda: O.refute(ctx, wit, ok)):
        try:
            stage()
        except Exception as e:      # noqa: BLE001
            ctx.broke('harness', type(e).__name__, traceback.format_exc())


def replay(ctx, data):
    from .. import c15_oracle as O
    ctx.log('replaying', data.get('key'))
    O.replay(ctx, data)
