"""C07 — DOF lookup returns exactly the DOFs that control the selected entities.

tie T2 : Gen/C07Gen.v — the name offsets of Dofs._dofnames_to_rows (which entry of element.dofnames names a facet / edge /
         interior row) are re-read from dofs.py by a fail-closed ast translator; the argument order of the DofsView
         constructor calls, the DofsView field order, _expand_facets, flatten, keep/drop, normalize_* are shape-checked.
         Gen/C07NameOrder.v states that the regenerated offsets ARE the basis-function order nodal, edge, facet, interior
         (the hypothesis of C07_names_follow_basis_function_order); while a `finding:` for key names:edge-facet-order is
         listed the file holds the refutation instead.
tie T3 : Model.C07_Query on top of the regenerated numbering of C04 is evaluated by vm_compute on real meshes x elements x
         selector forms and must reproduce Basis.get_dofs(...).flatten()/all/keep/drop/|/complement exactly.
proof  : props/C07.v.
oracle : set-based closure / name / complement / boundary-default check on the real Basis objects.
"""
import ast
import os

import numpy as np

from .. import t2
from .. import c11_meshes as M
from ..core import TranslateError, cbool, clist, cnat, cnats, copt, np_seed
from . import c04 as C04

SRC = 'skfem/assembly/dofs.py'
NAME_KEY = 'names:edge-facet-order'
SECOND_ORDER = {'tri2': 'MeshTri2', 'quad2': 'MeshQuad2', 'tet2': 'MeshTet2'}


# ------------------------------------------------------------------------------ translator

def _expect(node, text, what):
    got = t2.src(node)
    if got != text:
        raise TranslateError(f'{what}: expected `{text}`, found `{got}`')


def _tr_satisfying(fn, var, evaluated_on, sets):
    """the option plumbing of Mesh.<x>_satisfying as a Gallina body: the running value of `var`, filtered by the boundary set when
    boundaries_only, returned (also from inside an `if normal is not None:` block).  sets: source text of the boundary set -> Coq name"""
    cur, rets = None, []
    for st in fn.body:
        if isinstance(st, ast.Expr) and isinstance(st.value, ast.Constant):
            continue
        src = t2.src(st)
        if isinstance(st, ast.Assign) and t2.src(st.targets[0]) == 'midp':
            if src != evaluated_on:
                raise TranslateError(f'{fn.name}: midpoints: {src}')
            continue
        if isinstance(st, ast.Assign) and t2.src(st.targets[0]) == var:
            if src not in (f'{var} = np.nonzero(test(midp))[0].astype(np.int32)', evaluated_on):
                raise TranslateError(f'{fn.name}: predicate set: {src}')
            cur = 'pred'
            continue
        if isinstance(st, ast.If) and t2.src(st.test) == 'boundaries_only' and not st.orelse and len(st.body) == 1:
            b = st.body[0]
            hit = [c for k, c in sets.items() if t2.src(b) == f'{var} = np.intersect1d({var}, {k})']
            if cur is None or not hit:
                raise TranslateError(f'{fn.name}: boundaries_only branch: {src}')
            cur = f'(if boundaries_only then inter {cur} {hit[0]} else {cur})'
            continue
        if isinstance(st, ast.If) and t2.src(st.test) == 'normal is not None' and not st.orelse:
            r = st.body[-1]
            if not (isinstance(r, ast.Return) and t2.src(r.value) == f'OrientedBoundary({var}, ori)') or cur is None or \
                    any(isinstance(x, ast.Assign) and t2.src(x.targets[0]) == var for x in st.body):
                raise TranslateError(f'{fn.name}: normal branch: {src[:120]}')
            rets.append(('normal_given', cur))
            continue
        if isinstance(st, ast.Return) and t2.src(st.value) == var and cur is not None:
            rets.append((None, cur))
            break
        raise TranslateError(f'{fn.name}: unsupported statement: {src[:120]}')
    if not rets or rets[-1][0] is not None:
        raise TranslateError(f'{fn.name}: no final return')
    body = rets[-1][1]
    for cond, val in reversed(rets[:-1]):
        body = f'(if {cond} then {val} else {body})'
    return body


def translate_satisfying(mt=None):
    """(facets body, nodes body) of the option plumbing of Mesh.facets_satisfying / nodes_satisfying; checks elements_satisfying"""
    mt = mt or t2.parse('skfem/mesh/mesh.py')
    f = t2.find_def(mt, 'facets_satisfying', 'Mesh')
    if [a.arg for a in f.args.args] != ['self', 'test', 'boundaries_only', 'normal'] or [t2.src(d) for d in f.args.defaults] != ['False', 'None']:
        raise TranslateError('facets_satisfying signature')
    fs = _tr_satisfying(f, 'facets', 'midp = self.p[:, self.facets].mean(axis=1)', {'self.boundary_facets()': 'bfacets', 'self.boundary_nodes()': 'bnodes'})
    f = t2.find_def(mt, 'nodes_satisfying', 'Mesh')
    if [a.arg for a in f.args.args] != ['self', 'test', 'boundaries_only'] or [t2.src(d) for d in f.args.defaults] != ['False']:
        raise TranslateError('nodes_satisfying signature')
    ns = _tr_satisfying(f, 'nodes', 'nodes = np.nonzero(test(self.p[:, :self.nvertices]))[0].astype(np.int32)',
                        {'self.boundary_facets()': 'bfacets', 'self.boundary_nodes()': 'bnodes'})
    f = t2.find_def(mt, 'elements_satisfying', 'Mesh')
    body = [t2.src(x) for x in f.body if not (isinstance(x, ast.Expr) and isinstance(x.value, ast.Constant))]
    if body != ['midp = self.p[:, self.t].mean(axis=1)', 'return np.nonzero(test(midp))[0].astype(np.int32)']:
        raise TranslateError('elements_satisfying body: ' + repr(body))
    return fs, ns


SATISFYING_DEFS = '''Definition gen_facets_satisfying (pred bfacets bnodes : list nat) (boundaries_only normal_given : bool) : list nat := {fs}.
Definition gen_nodes_satisfying (pred bfacets bnodes : list nat) (boundaries_only : bool) : list nat := {ns}.
Definition gen_elements_satisfying (pred : list nat) : list nat := pred.
'''


def translate_wrappers():
    """Gallina definitions of the pure-plumbing wrappers: *_satisfying option handling, with_boundaries / with_subdomains dictionary
    merge, DofsView.__or__ / __add__"""
    mt = t2.parse('skfem/mesh/mesh.py')
    dt = t2.parse(SRC)
    fs, ns = translate_satisfying(mt)
    # dictionary merges: the order of the ** parts
    merges = {}
    for nm, attr, new in (('with_boundaries', '_boundaries', 'boundaries'), ('with_subdomains', '_subdomains', 'subdomains')):
        r = t2.only([x for x in t2.find_def(mt, nm, 'Mesh').body if isinstance(x, ast.Return)], nm + ' return')
        c = r.value
        kws = {k.arg: k.value for k in c.keywords} if isinstance(c, ast.Call) and t2.src(c.func) == 'replace' else {}
        dct = kws.get(attr)
        if not (isinstance(dct, ast.Dict) and all(k is None for k in dct.keys) and len(dct.values) == 2 and set(kws) == {attr}
                and [t2.src(a) for a in c.args] == ['self']):
            raise TranslateError(f'{nm}: expected replace(self, {attr}={{**old, **new}})')
        parts = []
        for v in dct.values:
            sv = t2.src(v)
            if sv == f'{{}} if self.{attr} is None else self.{attr}':
                parts.append('old')
            elif isinstance(v, ast.DictComp) and t2.src(v.generators[0].iter) == f'{new}.items()' and t2.src(v.key) == 'name':
                parts.append('new')
            else:
                raise TranslateError(f'{nm}: dictionary part {sv[:100]}')
        if sorted(parts) != ['new', 'old']:
            raise TranslateError(f'{nm}: parts {parts}')
        merges[nm] = parts
    # DofsView.__or__ / __add__
    cls = [n for n in ast.walk(dt) if isinstance(n, ast.ClassDef) and n.name == 'DofsView'][0]
    orf = t2.find_def(cls, '__or__')
    r = t2.only([x for x in orf.body if isinstance(x, ast.Return)], '__or__ return')
    c = r.value
    if not (isinstance(c, ast.Call) and t2.src(c.func) == 'replace' and [t2.src(a) for a in c.args] == ['self']):
        raise TranslateError('DofsView.__or__: ' + t2.src(r)[:100])
    fields = {}
    allf = ['nodal_ix', 'facet_ix', 'edge_ix', 'interior_ix', 'nodal_rows', 'facet_rows', 'edge_rows', 'interior_rows']
    for k in c.keywords:
        v = k.value
        ops = []
        for a in (v.args if isinstance(v, ast.Call) and t2.src(v.func) == 'np.union1d' and not v.keywords else []):
            if isinstance(a, ast.Attribute) and isinstance(a.value, ast.Name) and a.value.id in ('self', 'other') and a.attr in allf:
                ops.append((a.attr, 'a' if a.value.id == 'self' else 'b'))
        if len(ops) != 2 or len(v.args) != 2:
            raise TranslateError('DofsView.__or__ field ' + str(k.arg) + ': ' + t2.src(v))
        fields[k.arg] = ops
    if set(fields) - set(allf):
        raise TranslateError('DofsView.__or__ sets unknown fields ' + repr(sorted(fields)))
    cap = lambda x: 'V_' + x
    rec = '; '.join(f'{cap(x)} := ' + (f'union1d ({cap(fields[x][0][0])} {fields[x][0][1]}) ({cap(fields[x][1][0])} {fields[x][1][1]})' if x in fields else f'{cap(x)} a') for x in allf)
    addf = t2.find_def(cls, '__add__')
    if [t2.src(x) for x in addf.body] != ['return self.__or__(other)']:
        raise TranslateError('DofsView.__add__: ' + repr([t2.src(x) for x in addf.body]))
    mg = lambda parts: ' ++ '.join(reversed(parts))          # {**A, **B}: B is read first (later definition wins)
    return f'''
(* ---- wrappers (pure plumbing), regenerated from the source *)
{SATISFYING_DEFS.format(fs=fs, ns=ns)}Definition gen_with_boundaries (old new : list (nat * list nat)) : list (nat * list nat) := {mg(merges['with_boundaries'])}.
Definition gen_with_subdomains (old new : list (nat * list nat)) : list (nat * list nat) := {mg(merges['with_subdomains'])}.
Definition gen_view_or (a b : view) : view := {{| {rec} |}}.
Definition gen_view_add (a b : view) : view := gen_view_or a b.
'''


def translate():
    tree = t2.parse(SRC)
    fn = t2.find_def(tree, '_dofnames_to_rows', 'Dofs')
    env = {'n_nodal': 'n_nodal', 'n_facet': 'n_facet', 'n_edge': 'n_edge', 'n_interior': 'n_interior', 'i': 'i'}
    # n_X = self.X_dofs.shape[0]
    for s in fn.body:
        if isinstance(s, ast.Assign) and t2.src(s.targets[0]) in ('n_nodal', 'n_facet', 'n_edge', 'n_interior'):
            nm = t2.src(s.targets[0])[2:]
            _expect(s.value, f'self.{nm}_dofs.shape[0]', 'block size ' + nm)
    offs = {}
    for s in fn.body:
        if not isinstance(s, ast.For):
            continue
        rng = t2.src(t2.is_range_of(s.iter))
        kd = rng[2:]
        if rng not in env or kd in offs or t2.src(s.target) != 'i' or len(s.body) != 1 or not isinstance(s.body[0], ast.If):
            raise TranslateError('_dofnames_to_rows loop: ' + t2.src(s)[:80])
        iff = s.body[0]
        _expect(t2.only(iff.body, 'append'), f'{kd}_rows.append(i)', f'{kd} loop body')
        c = iff.test
        if not (isinstance(c, ast.Call) and t2.src(c.func) == 'check' and len(c.args) == 2 and t2.src(c.args[1]) == 'dofnames'
                and isinstance(c.args[0], ast.Subscript) and t2.src(c.args[0].value) == 'self.element.dofnames') or iff.orelse:
            raise TranslateError(f'{kd} loop test: ' + t2.src(c))
        idx = t2.Expr(env, 'nat').tr(c.args[0].slice)
        offs[kd] = idx
    if sorted(offs) != ['edge', 'facet', 'interior', 'nodal']:
        raise TranslateError('_dofnames_to_rows loops: ' + repr(sorted(offs)))
    ret = t2.only([s for s in fn.body if isinstance(s, ast.Return)], 'return')
    want = '(' + ', '.join(f'np.array({k}_rows) if len({k}_rows) > 0 else slice(0, 0)' for k in ('nodal', 'facet', 'edge', 'interior')) + ')'
    _expect(ret.value, want, '_dofnames_to_rows return')
    # the DofsView field order and the positional calls
    cls = [n for n in ast.walk(tree) if isinstance(n, ast.ClassDef) and n.name == 'DofsView'][0]
    fields = [t2.src(s.target) for s in cls.body if isinstance(s, ast.AnnAssign)]
    if fields != ['obj', 'nodal_ix', 'facet_ix', 'edge_ix', 'interior_ix', 'nodal_rows', 'facet_rows', 'edge_rows',
                  'interior_rows', 'doflocs']:
        raise TranslateError('DofsView fields: ' + repr(fields))
    empty = 'np.empty((0,), dtype=np.int32)'
    calls = {'get_vertex_dofs': f'DofsView(self, nodes, {empty}, {empty}, {empty}, r1, r2, r3, r4, doflocs)',
             'get_element_dofs': 'DofsView(self, nodal_ix, facet_ix, edge_ix, interior_ix, r1, r2, r3, r4, doflocs)',
             'get_facet_dofs': f'DofsView(self, nodal_ix, facet_ix, edge_ix, {empty}, r1, r2, r3, r4, doflocs)'}
    for name, text in calls.items():
        f = t2.find_def(tree, name, 'Dofs')
        r = t2.only([s for s in f.body if isinstance(s, ast.Return)], name + ' return')
        _expect(r.value, text, name)
        a = t2.only([s for s in f.body if isinstance(s, ast.Assign) and t2.src(s.targets[0]) == '(r1, r2, r3, r4)'], name + ' rows')
        _expect(a.value, 'self._dofnames_to_rows(skip_dofnames, skip=True)', name + ' rows')
    f = t2.find_def(tree, 'get_element_dofs', 'Dofs')
    got = {t2.src(s.targets[0]): t2.src(s.value) for s in f.body if isinstance(s, ast.Assign) and t2.src(s.targets[0]).endswith('_ix')}
    want = {'nodal_ix': f'{empty} if self.element.nodal_dofs == 0 else np.unique(self.topo.t[:, elements])',
            'edge_ix': f'{empty} if self.element.edge_dofs == 0 else np.unique(self.topo.t2e[:, elements])',
            'facet_ix': f'{empty} if self.element.facet_dofs == 0 else np.unique(self.topo.t2f[:, elements])',
            'interior_ix': 'elements'}
    if got != want:
        raise TranslateError('get_element_dofs index arrays: ' + repr({k: v for k, v in got.items() if want.get(k) != v}))
    f = t2.find_def(tree, 'get_facet_dofs', 'Dofs')
    got = {t2.src(s.targets[0]): t2.src(s.value) for s in f.body if isinstance(s, ast.Assign) and t2.src(s.targets[0]).endswith('_ix')}
    want = {'nodal_ix': f'{empty} if self.element.nodal_dofs == 0 else nodal_ix',
            'edge_ix': f'{empty} if self.element.edge_dofs == 0 else edge_ix',
            'facet_ix': f'{empty} if self.element.facet_dofs == 0 else facets'}
    if got != want:
        raise TranslateError('get_facet_dofs index arrays: ' + repr(got))
    iff = t2.only([s for s in f.body if isinstance(s, ast.If) and 'expand' in t2.src(s)], 'get_facet_dofs expand')
    _expect(iff.test, 'self.element.nodal_dofs > 0 or self.element.edge_dofs > 0', 'get_facet_dofs expand guard')
    _expect(t2.only(iff.body, 'expand'), 'nodal_ix, edge_ix = self.topo._expand_facets(facets)', 'get_facet_dofs expand')
    # keep / drop
    for nm, sk in (('keep', 'self._dofnames_to_rows(dofnames)'), ('drop', 'self._dofnames_to_rows(dofnames, skip=True)')):
        f = t2.find_def(tree, nm, 'DofsView')
        a = t2.only([s for s in f.body if isinstance(s, ast.Assign)], nm + ' nrows')
        _expect(a.value, f'self._intersect_tuples((self.nodal_rows, self.facet_rows, self.edge_rows, self.interior_rows), {sk})', nm)
        r = t2.only([s for s in f.body if isinstance(s, ast.Return)], nm + ' return')
        _expect(r.value, 'replace(self, nodal_rows=nrows[0], facet_rows=nrows[1], edge_rows=nrows[2], interior_rows=nrows[3])', nm)
    # _by_name and the four DofsView properties (per-name dictionaries)
    f = t2.find_def(tree, '_by_name', 'Dofs')
    body = [t2.src(x) for x in f.body if not (isinstance(x, ast.Expr) and isinstance(x.value, ast.Constant))]
    want = ['n_dofs = dofs.shape[0]', 'n_ents = dofs.shape[1] if ix is None else len(ix)',
            'if rows is None:\n    rows = list(range(n_dofs))',
            'ents = {self.element.dofnames[rows[i] + off]: np.zeros((0, n_ents), dtype=np.int32) for i in range(n_dofs)}',
            'for i in range(n_dofs):\n    new_row = dofs[i] if ix is None else dofs[i, ix]\n    '
            'ents[self.element.dofnames[rows[i] + off]] = np.vstack((ents[self.element.dofnames[rows[i] + off]], new_row))',
            'return {k: ents[k].flatten() for k in ents}']
    if body != want:
        raise TranslateError('Dofs._by_name body: ' + repr([g for g, w in zip(body + [''] * 9, want + [''] * 9) if g != w][:2]))
    shp = {'self.nodal_dofs.shape[0]': 'n_nodal', 'self.facet_dofs.shape[0]': 'n_facet', 'self.edge_dofs.shape[0]': 'n_edge'}
    bn = {}
    for kd in ('nodal', 'facet', 'edge', 'interior'):
        pf = t2.find_def(cls, kd)
        r = t2.only([x for x in pf.body if isinstance(x, ast.Return)], f'DofsView.{kd} return')
        c = r.value
        if not (isinstance(c, ast.Call) and t2.src(c.func) == 'self._by_name' and len(c.args) == 1
                and t2.src(c.args[0]) == f'self.{kd}_dofs[self.{kd}_rows]'):
            raise TranslateError(f'DofsView.{kd}: ' + t2.src(r))
        kws = {k.arg: k.value for k in c.keywords}
        if set(kws) - {'off', 'ix', 'rows'} or t2.src(kws.get('ix')) != f'self.{kd}_ix' or t2.src(kws.get('rows')) != f'self.{kd}_rows':
            raise TranslateError(f'DofsView.{kd} keywords: ' + t2.src(r))
        bn[kd] = '0' if 'off' not in kws else t2.Expr({}, 'nat', sub=lambda ex, n: shp[t2.src(n)] if t2.src(n) in shp else (_ for _ in ()).throw(TranslateError('offset term ' + t2.src(n)))).tr(kws['off'])
    if bn['nodal'] != '0':
        raise TranslateError('DofsView.nodal has an offset')
    # with_boundaries / with_subdomains: {**old, **new} (the later definition of a name wins)
    mtree = t2.parse('skfem/mesh/mesh.py')
    wb = t2.only([x for x in t2.find_def(mtree, 'with_boundaries', 'Mesh').body if isinstance(x, ast.Return)], 'with_boundaries return')
    _expect(wb.value, 'replace(self, _boundaries={**({} if self._boundaries is None else self._boundaries), '
            '**{name: self.facets_satisfying(test_or_set, boundaries_only) if callable(test_or_set) else test_or_set '
            'for name, test_or_set in boundaries.items()}})', 'Mesh.with_boundaries')
    ws = t2.only([x for x in t2.find_def(mtree, 'with_subdomains', 'Mesh').body if isinstance(x, ast.Return)], 'with_subdomains return')
    _expect(ws.value, 'replace(self, _subdomains={**({} if self._subdomains is None else self._subdomains), '
            '**{name: self.elements_satisfying(test) if callable(test) else test for name, test in subdomains.items()}})',
            'Mesh.with_subdomains')
    # normalize_facets / normalize_elements / normalize_nodes: collection branch = guard for the empty collection, then
    # np.unique(np.concatenate([recursive calls]))
    mt = t2.parse('skfem/mesh/mesh.py')
    for fn, arg, types in (('normalize_facets', 'facets', '(tuple, list, set)'), ('normalize_elements', 'elements', '(tuple, list, set)'),
                           ('normalize_nodes', 'nodes', '(list, set)')):
        f = t2.find_def(mt, fn, 'Mesh')
        br = [n for n in ast.walk(f) if isinstance(n, ast.If) and t2.src(n.test) == f'isinstance({arg}, {types})']
        body = [t2.src(x) for x in t2.only(br, fn + ' collection branch').body]
        want = [f'if len({arg}) == 0:\n    return np.array([], dtype=np.int32)',
                f'return np.unique(np.concatenate([self.{fn}({arg[0]}) for {arg[0]} in {arg}]))']
        if body != want:
            raise TranslateError(f'{fn} collection branch: ' + repr(body)[:300])
    # _expand_facets
    f = t2.find_def(mt, '_expand_facets', 'Mesh')
    body = [t2.src(s) for s in f.body if not (isinstance(s, ast.Expr) and isinstance(s.value, ast.Constant))]
    want = ['vertices = np.unique(self.facets[:, ix].flatten())',
            'if self.dim() == 3 and self.bndelem is not None:\n    edges = np.unique(self.f2e[:, ix])\nelse:\n    edges = np.array([], dtype=np.int32)',
            'return (vertices, edges)']
    if body != want:
        raise TranslateError('_expand_facets: ' + repr(body))
    return f'''(* GENERATED by vlib/props/c07.py from {SRC} (_dofnames_to_rows) — do not edit *)
From Coq Require Import List Arith.
Require Import Model.C07_Query.
(* the entry of element.dofnames that names row i of the nodal / facet / edge / interior block *)
Definition gen_name_index_nodal (n_nodal n_facet n_edge n_interior i : nat) : nat := {offs['nodal']}.
Definition gen_name_index_facet (n_nodal n_facet n_edge n_interior i : nat) : nat := {offs['facet']}.
Definition gen_name_index_edge (n_nodal n_facet n_edge n_interior i : nat) : nat := {offs['edge']}.
Definition gen_name_index_interior (n_nodal n_facet n_edge n_interior i : nat) : nat := {offs['interior']}.
Definition gen_byname_offsets (n_nodal n_facet n_edge : nat) : offsets := ({bn['facet']}, {bn['edge']}, {bn['interior']}).
Definition gen_offsets (n_nodal n_facet n_edge : nat) : offsets :=
  (gen_name_index_facet n_nodal n_facet n_edge 0 0, gen_name_index_edge n_nodal n_facet n_edge 0 0,
   gen_name_index_interior n_nodal n_facet n_edge 0 0).
''' + translate_wrappers()


NAME_ORDER_POS = '''(* GENERATED: the name offsets read from the source are the basis-function order nodal, edge, facet, interior *)
From Coq Require Import List Arith Lia.
Require Import Model.C07_Query Gen.C07Gen.
Lemma gen_name_indices_are_row_plus_offset : forall a b c d i,
  gen_name_index_nodal a b c d i = i /\\
  gen_name_index_facet a b c d i = i + fst (fst (gen_offsets a b c)) /\\
  gen_name_index_edge a b c d i = i + snd (fst (gen_offsets a b c)) /\\
  gen_name_index_interior a b c d i = i + snd (gen_offsets a b c).
Proof. intros. unfold gen_offsets, gen_name_index_nodal, gen_name_index_facet, gen_name_index_edge, gen_name_index_interior. simpl. lia. Qed.
Lemma gen_offsets_bfun_order : forall n_nodal n_facet n_edge,
  gen_offsets n_nodal n_facet n_edge = (n_nodal + n_edge, n_nodal, n_nodal + n_edge + n_facet).
Proof.
  intros. unfold gen_offsets.
  assert (E1 : gen_name_index_facet n_nodal n_facet n_edge 0 0 = n_nodal + n_edge) by (unfold gen_name_index_facet; lia).
  assert (E2 : gen_name_index_edge n_nodal n_facet n_edge 0 0 = n_nodal) by (unfold gen_name_index_edge; lia).
  assert (E3 : gen_name_index_interior n_nodal n_facet n_edge 0 0 = n_nodal + n_edge + n_facet) by (unfold gen_name_index_interior; lia).
  rewrite E1, E2, E3. reflexivity.
Qed.
Lemma gen_byname_offsets_bfun_order : forall n_nodal n_facet n_edge,
  gen_byname_offsets n_nodal n_facet n_edge = (n_nodal + n_edge, n_nodal, n_nodal + n_edge + n_facet).
Proof. intros. unfold gen_byname_offsets. apply f_equal2; [apply f_equal2|]; lia. Qed.
'''

NAME_ORDER_REFUTED = '''(* GENERATED (known finding names:edge-facet-order): the offsets read from the source are NOT the basis-function order *)
From Coq Require Import List Arith Lia.
Require Import Model.C07_Query Gen.C07Gen.
Lemma gen_name_indices_are_row_plus_offset : forall a b c d i,
  gen_name_index_nodal a b c d i = i /\\
  gen_name_index_facet a b c d i = i + fst (fst (gen_offsets a b c)) /\\
  gen_name_index_edge a b c d i = i + snd (fst (gen_offsets a b c)) /\\
  gen_name_index_interior a b c d i = i + snd (gen_offsets a b c).
Proof. intros. unfold gen_offsets, gen_name_index_nodal, gen_name_index_facet, gen_name_index_edge, gen_name_index_interior. simpl. lia. Qed.
Lemma gen_offsets_bfun_order_refuted : exists n_nodal n_facet n_edge,
  gen_offsets n_nodal n_facet n_edge <> (n_nodal + n_edge, n_nodal, n_nodal + n_edge + n_facet).
Proof. exists 0, 1, 1. vm_compute. discriminate. Qed.
'''


# ------------------------------------------------------------------------------ selectors (python object + Coq term)

class Sel:
    """a selector as the python argument and as the Coq term of type sel"""

    def __init__(self, py, coq, ids):
        self.py, self.coq, self.ids = py, coq, ids       # ids: expected index SET (None = raises)


def crows(a):
    return C04.crows(a)


def ccols(a):
    a = np.asarray(a)
    return clist([cnats(a[:, j].tolist()) for j in range(a.shape[1])]) if a.size else '(@nil (list nat))'


def cmask(mask):
    return '(fun i => nth i ' + clist([cbool(bool(b)) for b in mask]) + ' false)'


def rand_selector(rng, n, tags, pred_masks, allow, depth=0):
    """random selector over n entities.  tags: {name: (id, array)}; pred_masks: [(callable, mask)];
    allow: set of forms among int, arr, default, all, pred, tag, coll"""
    forms = [f for f in ('arr', 'arr', 'int', 'pred', 'tag', 'coll', 'default', 'all') if f in allow
             and not (f == 'coll' and depth >= 2) and not (f == 'tag' and not tags) and not (f == 'pred' and not pred_masks)]
    f = forms[int(rng.integers(len(forms)))]
    if f == 'int':
        i = int(rng.integers(n))
        return Sel(i, f'(SInt {cnat(i)})', {i})
    if f == 'arr':
        k = int(rng.integers(0, min(n, 6) + 1))
        a = rng.integers(0, n, size=k)           # any order, duplicates
        return Sel(np.array(a, dtype=np.int32), f'(SArr {cnats(a.tolist())})', set(int(x) for x in a))
    if f == 'default':
        return Sel(None, 'SDefault', 'default')
    if f == 'all':
        return Sel(True, 'SAll', set(range(n)))
    if f == 'pred':
        fn, mask = pred_masks[int(rng.integers(len(pred_masks)))]
        return Sel(fn, f'(SPred {cmask(mask)})', set(np.nonzero(mask)[0].tolist()))
    if f == 'tag':
        name = sorted(tags)[int(rng.integers(len(tags)))]
        tid, arr = tags[name]
        return Sel(name, f'(STag {cnat(tid)})', set(int(x) for x in arr))
    parts = [rand_selector(rng, n, tags, pred_masks, allow - {'default', 'all'}, depth + 1) for _ in range(int(rng.integers(0, 4)))]
    kind = int(rng.integers(3))
    if kind == 2 and all(isinstance(p.py, (int, str)) and not isinstance(p.py, bool) for p in parts):
        py = set(p.py for p in parts)
        parts = [p for p in parts if p.py in py]
        seen, uniq = set(), []
        for p in parts:
            if p.py not in seen:
                seen.add(p.py)
                uniq.append(p)
        parts = uniq
        py = set(p.py for p in parts)
    elif kind == 1:
        py = tuple(p.py for p in parts)
    else:
        py = [p.py for p in parts]
    ids = set()
    for p in parts:
        ids |= p.ids
    return Sel(py, '(SColl ' + clist([p.coq for p in parts]) + ')', ids)


# ------------------------------------------------------------------------------ contexts

class Context:
    """one (mesh with tags, element, basis) and everything the model needs about it"""

    def __init__(self, rng, kind, name, fac, maxcells, pt=None):
        from skfem.assembly import Basis
        if kind in SECOND_ORDER:          # library-built second-order meshes: more points than vertices
            import skfem
            m = getattr(skfem, SECOND_ORDER[kind])().refined(1)
            info = {'style': 'second-order'}
        else:
            p, t, info = M.gen_raw(rng, kind, maxcells=maxcells) if pt is None else (pt[0], pt[1], {'style': 'replay'})
            m = M.build(kind, p, t)
        self.kind, self.name, self.info = kind, name, info
        nf, nt, nv = m.facets.shape[1], m.t.shape[1], int(m.nvertices)      # the nodes are the vertices
        cf = [float(np.sort(m.p[d])[len(m.p[d]) // 2]) + 0.123 for d in range(m.p.shape[0])]
        midf = m.p[:, m.facets].mean(axis=1)
        midt = m.p[:, m.t].mean(axis=1)
        self.predF = [((lambda x, d=d, c=c: x[d] < c), midf[d] < c) for d, c in enumerate(cf)]
        self.predE = [((lambda x, d=d, c=c: x[d] < c), midt[d] < c) for d, c in enumerate(cf)]
        self.predN = [((lambda x, d=d, c=c: x[d] < c), m.p[d, :nv] < c) for d, c in enumerate(cf)]
        bfac = np.nonzero(m.f2t[1] == -1)[0]

        def rarr(n, k, uniq=False):
            a = rng.integers(0, n, size=int(rng.integers(1, k)))
            return (np.unique(a) if uniq else a).astype(np.int32)
        # histories of definitions: names are defined, REDEFINED (by an array or by a predicate), other names added in between;
        # each step is (python dict for with_*, the index sets it denotes)
        pF, mF = self.predF[int(rng.integers(len(self.predF)))]
        pF_set = np.intersect1d(np.nonzero(mF)[0], bfac).astype(np.int32)        # predicates: boundary facets only (boundaries_only=True)
        pE, mE = self.predE[int(rng.integers(len(self.predE)))]
        histF = [({'ba': rarr(nf, 4, True), 'bb': rarr(nf, 5)}, None),
                 ({'ba': rarr(nf, 4), 'bc': rarr(nf, 3)}, None),                 # 'ba' redefined, 'bc' new, 'bb' kept
                 ({'bb': pF}, {'bb': pF_set}),                                  # 'bb' redefined by a predicate
                 ({'bc': rarr(nf, 4, True)}, None)]                             # 'bc' redefined again
        histE = [({'sa': rarr(nt, 3, True), 'sb': rarr(nt, 4)}, None),
                 ({'sb': pE}, {'sb': np.nonzero(mE)[0].astype(np.int32)}),
                 ({'sa': rarr(nt, 3), 'sc': rarr(nt, 3)}, None)]
        self.defaults = False
        self.defaults_error = None
        try:                                     # default tags ('left', 'right', ...) one of which is then overridden
            md = m.with_defaults()
            if md.boundaries:
                first = sorted(md.boundaries)[0]
                histF = [({k: np.asarray(v).astype(np.int32) for k, v in md.boundaries.items()}, None),
                         ({first: rarr(nf, 4, True)}, None)] + histF
                m0 = md
                self.defaults = True
        except Exception as ex:                  # reported by the oracle (retag:with_defaults)
            self.defaults_error = f'{type(ex).__name__}: {ex}'
        m_before = m
        for i, (d, _) in enumerate(histF):
            if i == 0 and self.defaults:
                m = m0                           # the first step IS with_defaults()
            else:
                m = m.with_boundaries(d)
        for d, _ in histE:
            m = m.with_subdomains(d)
        self.m = m
        self.m_before = m_before
        names_f = sorted({k for d, _ in histF for k in d})
        names_e = sorted({k for d, _ in histE for k in d})
        idf = {k: i for i, k in enumerate(names_f)}
        ide = {k: i for i, k in enumerate(names_e)}
        self.histF = [{idf[k]: np.asarray((den or d)[k] if not callable(d[k]) else den[k]) for k in d} for d, den in histF]
        self.histE = [{ide[k]: np.asarray((den or d)[k] if not callable(d[k]) else den[k]) for k in d} for d, den in histE]
        finalF, finalE = {}, {}
        for d in self.histF:
            finalF.update(d)
        for d in self.histE:
            finalE.update(d)
        self.tagsF = {k: (idf[k], finalF[idf[k]]) for k in names_f}              # what every name must denote: its LAST definition
        self.tagsE = {k: (ide[k], finalE[ide[k]]) for k in names_e}
        self.last_pred = {'F': ('bb', pF), 'E': ('sb', pE)}
        self.elem = fac()
        self.basis = Basis(m, self.elem, intorder=2)
        e = self.elem
        self.counts = (int(e.nodal_dofs), int(e.edge_dofs), int(e.facet_dofs), int(e.interior_dofs))
        self.dim = C04.guard_dim(e)
        self.names = list(e.dofnames)
        self.name_ids = {}
        for nm in self.names:
            self.name_ids.setdefault(nm, len(self.name_ids))
        self.n = {'F': nf, 'E': nt, 'N': nv}

    def name_id(self, nm):
        return self.name_ids.get(nm, 900 + (hash(nm) % 7))     # unknown names get an id that names nothing

    def coq(self):
        m, e = self.m, self.elem
        nd, ed, fd, idd = self.counts
        nv, ne, nf, nt, t, t2e, t2f = C04.topo_tables(m, self.dim, ed)
        dim3 = m.dim() == 3 and m.bndelem is not None
        f2e = np.asarray(m.f2e) if (dim3 and ed > 0) else np.zeros((0, 0), dtype=int)
        tags = lambda hist: clist([clist([f'({cnat(i)}, {cnats(np.asarray(v).tolist())})' for i, v in sorted(d.items())]) for d in hist])
        return (f'(({cnat(self.dim)}, {cnat(nd)}, {cnat(ed)}, {cnat(fd)}, {cnat(idd)}), ({cnat(nv)}, {cnat(ne)}, {cnat(nf)}, {cnat(nt)}), '
                f'({crows(t)}, {crows(t2e)}, {crows(t2f)}), ({ccols(m.facets)}, {crows(f2e)}, {cbool(dim3 and ed > 0)}), '
                f'({cnats(m.boundary_facets().tolist())}, {cnats([self.name_ids[x] for x in self.names])}, {tags(self.histF)}, {tags(self.histE)}))')


CORR_DEFS = '''
Inductive post := PFlat | PAll (names : list nat) | PKeep (names : list nat) | PDrop (names : list nat)
  | PByName (kd : kind) (mode : nat) (names : list nat).   (* .nodal/.facet/.edge/.interior of the view (mode 1: after keep, 2: after drop) *)
Definition enc_dict (d : list (nat * list nat)) : list nat := flat_map (fun nl => fst nl :: length (snd nl) :: snd nl) d.
Inductive query :=
| QF (s : sel) (skip : list nat) (p : post)
| QE (s : sel) (skip : list nat) (p : post)
| QN (s : sel) (skip : list nat) (p : post)
| QOrF (a b : sel) (skip : list nat)
| QComplF (s : sel)
| QComplMany (ss : list sel).     (* complement_dofs(view1, view2, ...) and the dict form *)
Definition ctxt := ((nat * nat * nat * nat * nat) * (nat * nat * nat * nat) * (list (list nat) * list (list nat) * list (list nat)) *
                    (list (list nat) * list (list nat) * bool) *
                    (list nat * list nat * list (list (nat * list nat)) * list (list (nat * list nat))))%type.
Definition lookup (tb : list (nat * list nat)) (k : nat) : option (list nat) :=
  match find (fun kv => Nat.eqb (fst kv) k) tb with Some kv => Some (snd kv) | None => None end.
Definition run (c : ctxt * list query) : list (option (list nat)) :=
  let '(((dim, nd, ed, fd, id), (nv, ne, nf, nt), (t, t2e, t2f), (facets, f2e, dim3), (bfac, dofnames, tagsF, tagsE)), qs) := c in
  let D := gen_dofs_init dim nd ed fd id 0 nv ne nf nt t t2e t2f in
  let offs := gen_offsets (length (D_nodal D)) (length (D_facet D)) (length (D_edge D)) in
  let boffs := gen_byname_offsets (length (D_nodal D)) (length (D_facet D)) (length (D_edge D)) in
  let fin (v : view) (p : post) : list nat :=
    match p with
    | PFlat => flatten D v
    | PAll names => all_named D dofnames offs v names
    | PKeep names => flatten D (keep D dofnames offs v names)
    | PDrop names => flatten D (drop D dofnames offs v names)
    | PByName kd mode names =>
        let w := match mode with 1 => keep D dofnames offs v names | 2 => drop D dofnames offs v names | _ => v end in
        enc_dict (view_by_name D w dofnames boffs kd)
    end in
  let nF := normalize nf (Some bfac) false (tag_lookup (fold_left gen_with_boundaries tagsF [])) in
  let nE := normalize nt None true (tag_lookup (fold_left gen_with_subdomains tagsE [])) in
  let nN := normalize nv None false (fun _ => None) in
  map (fun q =>
    match q with
    | QF s skip p => option_map (fun F => fin (get_facet_dofs D dofnames offs nd ed fd facets f2e dim3 F skip) p) (nF s)
    | QE s skip p => option_map (fun E => fin (get_element_dofs D dofnames offs nd ed fd t t2e t2f E skip) p) (nE s)
    | QN s skip p => option_map (fun N => fin (get_vertex_dofs D dofnames offs N skip) p) (nN s)
    | QOrF a b skip =>
        match nF a, nF b with
        | Some A, Some B => Some (flatten D (gen_view_add (get_facet_dofs D dofnames offs nd ed fd facets f2e dim3 A skip)
                                                     (get_facet_dofs D dofnames offs nd ed fd facets f2e dim3 B skip)))
        | _, _ => None
        end
    | QComplMany ss =>
        (fix go (l : list sel) (acc : list (list nat)) : option (list nat) :=
           match l with
           | [] => Some (complement_many (D_N D) acc)
           | s :: r => match nF s with
                       | Some F => go r (acc ++ [flatten D (get_facet_dofs D dofnames offs nd ed fd facets f2e dim3 F [])])
                       | None => None
                       end
           end) ss []
    | QComplF s => option_map (fun F => complement (D_N D) (flatten D (get_facet_dofs D dofnames offs nd ed fd facets f2e dim3 F []))) (nF s)
    end) qs.
Definition res_eqb := list_eqb (option_eqb nats_eqb).
'''


def _name_sets(rng, ctxo):
    names = sorted(set(ctxo.names))
    if rng.random() < 0.15:
        return []                     # the empty name list: keep / all select nothing, drop / skip remove nothing
    k = int(rng.integers(1, len(names) + 1))
    pick = [names[int(j)] for j in rng.choice(len(names), size=k, replace=False)]
    if rng.random() < 0.2:
        pick.append('no_such_name')
    return pick


def make_queries(rng, c, nq):
    """[(coq_query, python_thunk, description, expected_set_or_None)]"""
    b = c.basis
    out = []
    for _ in range(nq):
        kind = ['F', 'F', 'F', 'E', 'N', 'or', 'compl', 'complmany'][int(rng.integers(8))]
        skip = _name_sets(rng, c) if rng.random() < 0.3 else []
        cskip = cnats([c.name_id(x) for x in skip])
        pk = int(rng.integers(6))
        nm = _name_sets(rng, c)
        if _ == 0:                      # one deterministic dictionary query per context: drop the FIRST name
            kind, pk, nm, skip, cskip = 'F' if c.counts[0] + c.counts[2] > 0 else 'E', 5, [c.names[0]], [], cnats([])
        cnm = cnats([c.name_id(x) for x in nm])
        bkd = ['Nodal', 'Facet', 'Edge', 'Interior'][int(rng.integers(4))]
        if _ == 0:
            bkd = 'Nodal' if c.counts[0] > 1 else ('Facet' if c.counts[2] > 1 else ('Interior' if c.counts[3] > 1 else 'Nodal'))
            kind = 'E' if bkd == 'Interior' else kind
        bmode = int(rng.integers(3)) if pk == 4 else 2
        post_c = ['PFlat', f'(PAll {cnm})', f'(PKeep {cnm})', f'(PDrop {cnm})', f'(PByName {bkd} {bmode} {cnm})',
                  f'(PByName {bkd} 2 {cnm})'][pk]

        def post_py(v, pk=pk, nm=nm, bkd=bkd, bmode=bmode):
            if pk >= 4:
                w = [v, v.keep(nm), v.drop(nm)][bmode]
                d = getattr(w, bkd.lower())
                out = []
                for k, a in d.items():
                    a = np.asarray(a).tolist()
                    out += [c.name_id(k), len(a)] + [int(x) for x in a]
                return out
            return [lambda: v.flatten(), lambda: v.all(nm), lambda: v.keep(nm).flatten(), lambda: v.drop(nm).flatten()][pk]()
        kw = {'skip': skip} if skip else {}
        if kind == 'F':
            s = rand_selector(rng, c.n['F'], c.tagsF, c.predF, {'int', 'arr', 'default', 'pred', 'tag', 'coll'})
            out.append((f'(QF {s.coq} {cskip} {post_c})', (lambda s=s, kw=kw, post_py=post_py: post_py(b.get_dofs(s.py, **kw))),
                        ('F', repr(s.py)[:80], skip, pk, nm, bkd if pk >= 4 else '', bmode if pk >= 4 else ''), {'on': 'F', 'ids': [s.ids], 'skip': skip, 'pk': pk, 'nm': nm, 'bkd': bkd, 'bmode': bmode}))
        elif kind == 'E':
            s = rand_selector(rng, c.n['E'], c.tagsE, c.predE, {'int', 'arr', 'all', 'pred', 'tag', 'coll'})
            out.append((f'(QE {s.coq} {cskip} {post_c})', (lambda s=s, kw=kw, post_py=post_py: post_py(b.get_dofs(elements=s.py, **kw))),
                        ('E', repr(s.py)[:80], skip, pk, nm, bkd if pk >= 4 else '', bmode if pk >= 4 else ''), {'on': 'E', 'ids': [s.ids], 'skip': skip, 'pk': pk, 'nm': nm, 'bkd': bkd, 'bmode': bmode}))
        elif kind == 'N':
            s = rand_selector(rng, c.n['N'], {}, c.predN, {'int', 'arr', 'pred', 'coll'})
            def detuple(x):                      # a tuple means "the point with these coordinates" for nodes
                return [detuple(y) for y in x] if isinstance(x, (tuple, list)) else x
            s.py = detuple(s.py)
            out.append((f'(QN {s.coq} {cskip} {post_c})', (lambda s=s, kw=kw, post_py=post_py: post_py(b.get_dofs(nodes=s.py, **kw))),
                        ('N', repr(s.py)[:80], skip, pk, nm, bkd if pk >= 4 else '', bmode if pk >= 4 else ''), {'on': 'N', 'ids': [s.ids], 'skip': skip, 'pk': pk, 'nm': nm, 'bkd': bkd, 'bmode': bmode}))
        elif kind == 'or':
            a = rand_selector(rng, c.n['F'], c.tagsF, c.predF, {'int', 'arr', 'default', 'pred', 'tag'})
            d = rand_selector(rng, c.n['F'], c.tagsF, c.predF, {'int', 'arr', 'pred', 'tag'})
            out.append((f'(QOrF {a.coq} {d.coq} {cskip})',
                        (lambda a=a, d=d, kw=kw: (b.get_dofs(a.py, **kw) | b.get_dofs(d.py, **kw)).flatten()),
                        ('or', repr(a.py)[:40], repr(d.py)[:40], skip), {'on': 'F', 'ids': [a.ids, d.ids], 'skip': skip, 'pk': 0, 'nm': []}))
        elif kind == 'complmany':
            ss = [rand_selector(rng, c.n['F'], c.tagsF, c.predF, {'int', 'arr', 'default', 'pred', 'tag'}) for _ in range(int(rng.integers(2, 4)))]
            as_dict = bool(rng.integers(2))
            out.append(('(QComplMany ' + clist([x.coq for x in ss]) + ')',
                        (lambda ss=ss, as_dict=as_dict: b.complement_dofs({f'k{i}': b.get_dofs(x.py) for i, x in enumerate(ss)}) if as_dict
                         else b.complement_dofs(*[b.get_dofs(x.py) for x in ss])),
                        ('complmany', 'dict' if as_dict else 'args', [repr(x.py)[:30] for x in ss]),
                        {'on': 'F', 'ids': [x.ids for x in ss], 'skip': [], 'pk': 0, 'nm': [], 'compl': True}))
        else:
            s = rand_selector(rng, c.n['F'], c.tagsF, c.predF, {'int', 'arr', 'default', 'pred', 'tag', 'coll'})
            out.append((f'(QComplF {s.coq})', (lambda s=s: b.complement_dofs(b.get_dofs(s.py))), ('compl', repr(s.py)[:80]),
                        {'on': 'F', 'ids': [s.ids], 'skip': [], 'pk': 0, 'nm': [], 'compl': True}))
    return out


# ------------------------------------------------------------------------------ oracle (set based)

def bfun_names(c):
    """name of every global DOF according to the basis-function order nodal, edge, facet, interior of element.dofnames"""
    nd, ed, fd, idd = c.counts
    D = c.basis.dofs
    names = {}
    blocks = [(np.asarray(D.nodal_dofs), 0), (np.asarray(D.edge_dofs), nd), (np.asarray(D.facet_dofs), nd + (ed if np.asarray(D.edge_dofs).size else 0)),
              (np.asarray(D.interior_dofs), nd + (ed if np.asarray(D.edge_dofs).size else 0) + fd)]
    for blk, off in blocks:
        for k in range(blk.shape[0] if blk.size else 0):
            for d in blk[k]:
                names[int(d)] = c.names[off + k]
    return names


def closure_facets(c, F):
    """the DOFs attached to the facets F, their vertices and (3-D) their edges — computed from vertex sets"""
    m, D = c.m, c.basis.dofs
    fac = np.asarray(m.facets)
    out = set()
    F = sorted(set(int(f) for f in F))
    if np.asarray(D.facet_dofs).size:
        out |= set(np.asarray(D.facet_dofs)[:, F].flatten().tolist())
    verts = sorted({int(v) for f in F for v in fac[:, f]})
    if np.asarray(D.nodal_dofs).size:
        out |= set(np.asarray(D.nodal_dofs)[:, verts].flatten().tolist())
    if np.asarray(D.edge_dofs).size:
        edg = np.asarray(m.edges)
        t, t2e, t2f = np.asarray(m.t), np.asarray(m.t2e), np.asarray(m.t2f)
        eslots = [list(x) for x in m.elem.refdom.edges]
        es = set()
        for f in F:
            fv = set(fac[:, f].tolist())
            e = int(m.f2t[0, f])
            for s, ix in enumerate(eslots):
                if set(t[ix, e].tolist()) <= fv:
                    es.add(int(t2e[s, e]))
        out |= set(np.asarray(D.edge_dofs)[:, sorted(es)].flatten().tolist())
    return out


def expected_query(c, spec, names):
    """the DOF set the property statement demands for one query (independent of the model and of the selector code)"""
    b, m = c.basis, c.m
    ids = set()
    for part in spec['ids']:
        ids |= set(int(f) for f in range(m.facets.shape[1]) if m.f2t[1, f] == -1) if isinstance(part, str) else set(part)
    if spec['on'] == 'F':
        base = closure_facets(c, ids)
    elif spec['on'] == 'E':
        base = set(np.asarray(b.element_dofs)[:, sorted(ids)].flatten().tolist())
    else:
        nd_ = np.asarray(b.nodal_dofs)
        base = set(nd_[:, sorted(ids)].flatten().tolist()) if nd_.size else set()
    if spec['pk'] >= 4:
        # per-name dictionary of one kind: {name id: sorted DOFs of the selected entities that carry that name}
        nd, ed, fd, idd = c.counts
        D = b.dofs
        blk = {'Nodal': D.nodal_dofs, 'Edge': D.edge_dofs, 'Facet': D.facet_dofs, 'Interior': D.interior_dofs}[spec['bkd']]
        blk = np.asarray(blk)
        edn = ed if np.asarray(D.edge_dofs).size else 0
        off = {'Nodal': 0, 'Edge': nd, 'Facet': nd + edn, 'Interior': nd + edn + fd}[spec['bkd']]
        out = {}
        for k in range(blk.shape[0] if blk.size else 0):
            nm = c.names[off + k]
            if nm in spec['skip'] or (spec['bmode'] == 1 and nm not in spec['nm']) or (spec['bmode'] == 2 and nm in spec['nm']):
                continue
            out.setdefault(c.name_id(nm), set()).update(int(d) for d in blk[k] if int(d) in base)
        return {k: sorted(v) for k, v in out.items()}
    base = {d for d in base if names[d] not in spec['skip']}
    if spec['pk'] in (1, 2):
        base = {d for d in base if names[d] in spec['nm']}
    elif spec['pk'] == 3:
        base = {d for d in base if names[d] not in spec['nm']}
    if spec.get('compl'):
        base = set(range(b.N)) - base
    return sorted(base)


API_C07 = {
    'covered_before': ['AbstractBasis.get_dofs (facets / elements / nodes / skip, dictionary form)', 'AbstractBasis.complement_dofs (one, several, dict)',
                       'Dofs.get_facet_dofs / get_element_dofs / get_vertex_dofs / _dofnames_to_rows / _by_name', 'DofsView.flatten / all / keep / drop / __or__ / '
                       'nodal / facet / edge / interior / __array__', 'Mesh._expand_facets', 'Mesh.normalize_facets / normalize_elements / normalize_nodes (all forms, '
                       'empty collections, ints)', 'Mesh.with_boundaries / with_subdomains / with_defaults (histories; default tags on graded tensor meshes)', 'ElementVector.dofnames vs component/row layout (multi-DOF-per-entity bases)', 'Mesh.facets_satisfying / nodes_satisfying / '
                       'elements_satisfying (boundaries_only, normal)', 'MeshTri2 / MeshQuad2 / MeshTet2 contexts'],
    'covered_now': ['DofsView.__len__ / __add__ / sort / __str__', 'FacetBasis.get_dofs and CellBasis.with_elements(...).get_dofs (same answers as the full cell basis)',
                    'Mesh.normalize_nodes point form (tuple of coordinates)', 'get_dofs with an OrientedBoundary tag / facets_around result as selector',
                    'AbstractBasis.get_dofs on a basis created by with_element'],
    'out_of_scope': {'Dofs.decompose / l2g / loc': 'PETSc (not installed)', 'DofsView.doflocs-based plotting helpers': 'visualisation',
                     'AbstractBasis.interpolate / project / split*': 'function evaluation / block structure (C01, C19)'}}


def oracle_api(ctx, c, rng):
    """thin wrappers around the lookup: the same query through another door gives the same DOFs"""
    from skfem.assembly import FacetBasis
    b, m = c.basis, c.m
    data = {'kind': c.kind, 'element': c.name, 'p': m.p.tolist(), 't': m.t.tolist()}
    nfx = m.facets.shape[1]
    F = np.unique(rng.integers(0, nfx, size=3)).astype(np.int32)
    want = b.get_dofs(F).flatten().tolist()
    ctx.count(('api', c.kind, c.name, m.t.tolist()), nontrivial=True)

    def bad(what, got):
        ctx.fail(f'api:{what}', f'{c.name} on {type(m).__name__}: {what} gives {str(got)[:80]}, get_dofs({F.tolist()}).flatten() gives {str(want)[:60]}',
                 dict(data, facets=F.tolist(), call=what))
    v = b.get_dofs(F)
    if len(v) != len(want) or (v + v).flatten().tolist() != want or sorted(np.asarray(v.sort()).tolist()) != want or not isinstance(str(v), str):
        bad('DofsView.__len__/__add__/sort', (len(v), (v + v).flatten().tolist()))
    try:
        fb = FacetBasis(m, c.elem, intorder=2)
        got = fb.get_dofs(F).flatten().tolist()
        if got != want:
            bad('FacetBasis.get_dofs', got)
    except (NotImplementedError, ValueError, AttributeError):
        pass
    sub = b.with_elements(np.array([0], dtype=np.int32))
    got = sub.get_dofs(F).flatten().tolist()
    if got != want:
        bad('with_elements(...).get_dofs', got)
    got = b.with_element(c.elem).get_dofs(F).flatten().tolist()
    if got != want:
        bad('with_element(...).get_dofs', got)
    # an oriented boundary (facets_around) as tag and as selector
    E = np.array([0], dtype=np.int32)
    ob = m.facets_around(E)
    mo = m.with_boundaries({'around': ob})
    from skfem.assembly import Basis
    bo = Basis(mo, c.elem, intorder=2)
    w2 = b.get_dofs(np.asarray(ob, dtype=np.int32)).flatten().tolist()
    for what, got in (('get_dofs(OrientedBoundary)', b.get_dofs(ob).flatten().tolist()), ("get_dofs('around') (oriented tag)", bo.get_dofs('around').flatten().tolist())):
        if got != w2:
            ctx.fail('api:oriented-boundary-selector', f'{c.name} on {type(m).__name__}: {what} gives {len(got)} DOFs, the plain index array of the same facets {len(w2)}',
                     dict(data, call=what))
    # nodes given as a point (tuple of coordinates)
    if b.nodal_dofs.size:
        v0 = int(rng.integers(int(m.nvertices)))
        pt = tuple(float(x) for x in m.p[:, v0])
        got = b.get_dofs(nodes=pt).flatten().tolist()
        w3 = b.get_dofs(nodes=np.array([v0], dtype=np.int32)).flatten().tolist()
        if got != w3:
            ctx.fail('api:nodes-point-form', f'{c.name} on {type(m).__name__}: get_dofs(nodes={pt}) gives {got}, the vertex {v0} at that point carries {w3}',
                     dict(data, point=list(pt), vertex=v0))


def oracle_context(ctx, c, rng):
    b, m = c.basis, c.m
    names = bfun_names(c)
    data = {'kind': c.kind, 'element': c.name, 'p': m.p.tolist(), 't': m.t.tolist()}
    # boundary default
    got = set(b.get_dofs().flatten().tolist())
    bf = [f for f in range(m.facets.shape[1]) if m.f2t[1, f] == -1]
    want = closure_facets(c, bf)
    ctx.count(('default', c.kind, c.name, m.t.tolist()), nontrivial=True)
    if got != want:
        ctx.fail(f'elem={c.name}:{c.kind}:boundary-default', f'get_dofs() on {type(m).__name__}/{c.name} is not the closure of the single-neighbour facets '
                 f'(missing {sorted(want - got)[:6]}, extra {sorted(got - want)[:6]})', data)
    # random facet sets: closure, complement, names
    nf = m.facets.shape[1]
    for _ in range(3):
        F = rng.integers(0, nf, size=int(rng.integers(1, 5)))
        v = b.get_dofs(np.array(F, dtype=np.int32))
        got = v.flatten().tolist()
        want = closure_facets(c, F)
        ctx.count(('closure', c.kind, c.name, F.tolist(), m.t.tolist()), nontrivial=True)
        if got != sorted(want):
            ctx.fail(f'elem={c.name}:{c.kind}:facet-closure', f'get_dofs({F.tolist()}) on {type(m).__name__}/{c.name}: missing {sorted(want - set(got))[:6]}, '
                     f'extra {sorted(set(got) - want)[:6]}', dict(data, facets=F.tolist()))
        comp = b.complement_dofs(v).tolist()
        if comp != sorted(set(range(b.N)) - set(got)):
            ctx.fail(f'elem={c.name}:{c.kind}:complement', 'complement_dofs is not the set complement', dict(data, facets=F.tolist()))
        for nm in sorted(set(c.names)):
            byname = v.all([nm]).tolist()
            wantn = sorted(d for d in got if names[d] == nm)
            dropped = v.drop([nm]).flatten().tolist()
            skipped = b.get_dofs(np.array(F, dtype=np.int32), skip=[nm]).flatten().tolist()
            wantd = sorted(d for d in got if names[d] != nm)
            if byname != wantn or dropped != wantd or skipped != wantd:
                both = c.counts[1] > 0 and c.counts[2] > 0 and np.asarray(b.edge_dofs).size > 0
                ctx.fail(NAME_KEY if both else f'elem={c.name}:{c.kind}:names',
                         f'{c.name} on {type(m).__name__}: get_dofs({F.tolist()}).all([{nm!r}]) returns {len(byname)} DOFs of which '
                         f'{len(set(byname) - set(wantn))} are not named {nm!r} by element.dofnames in basis-function order '
                         f'(nodal, edge, facet, interior); keep/drop/skip filter by the wrong names',
                         dict(data, facets=F.tolist(), name=nm, dofnames=c.names))
    # the empty name list: the intersection with the empty set of names is empty; dropping / skipping no name changes nothing
    v0 = b.get_dofs()
    full = v0.flatten().tolist()
    ctx.count(('empty-names', c.kind, c.name, m.t.tolist()), nontrivial=bool(full))
    for what, got, want in (('keep([]).flatten()', v0.keep([]).flatten().tolist(), []), ('all([])', v0.all([]).tolist(), []),
                            ('drop([]).flatten()', v0.drop([]).flatten().tolist(), full),
                            ('get_dofs(skip=[]).flatten()', b.get_dofs(skip=[]).flatten().tolist(), full)):
        if got != want:
            ctx.fail('names:empty-list', f'{c.name} on {type(m).__name__}: get_dofs().{what} returns {len(got)} DOFs, expected {len(want)} '
                     '(an empty list of names selects no name)', dict(data, call=what))
    # per-name dictionaries of a restricted view: drop one name, every kind
    both = c.counts[1] > 0 and c.counts[2] > 0 and np.asarray(b.edge_dofs).size > 0
    for nm in sorted(set(c.names)):
        w = b.get_dofs().drop([nm])
        for kd in ('Nodal', 'Edge', 'Facet', 'Interior'):
            got = {c.name_id(k): sorted(set(np.asarray(a).tolist())) for k, a in getattr(w, kd.lower()).items()}
            want = expected_query(c, {'on': 'F', 'ids': ['default'], 'skip': [], 'pk': 5, 'nm': [nm], 'bkd': kd, 'bmode': 2}, names)
            ctx.count(('by-name', c.kind, c.name, nm, kd, m.t.tolist()), nontrivial=bool(want))
            if got != want:
                ctx.fail(NAME_KEY if (both and kd in ('Edge', 'Facet')) else f'elem={c.name}:{c.kind}:by-name',
                         f'{c.name} on {type(m).__name__}: get_dofs().drop([{nm!r}]).{kd.lower()} = {sorted(got.items())[:4]} (name ids '
                         f'{c.name_ids}) but the DOFs carrying each surviving name are {sorted(want.items())[:4]}',
                         dict(data, dropped=nm, kind_of_dofs=kd, dofnames=c.names))
    # re-tagging: after a history of (re)definitions every name denotes its LAST definition: name == index array == predicate
    for kw, tags in (('facets', c.tagsF), ('elements', c.tagsE)):
        for nm, (tid, arr) in sorted(tags.items()):
            ctx.count(('retag', c.kind, c.name, nm, m.t.tolist()), nontrivial=True)
            try:
                by_name = b.get_dofs(**{kw: nm}).flatten().tolist()
            except Exception as ex:
                by_name = f'{type(ex).__name__}: {ex}'
            by_arr = b.get_dofs(**{kw: np.asarray(arr, dtype=np.int32)}).flatten().tolist()
            stored = (m.boundaries if kw == 'facets' else m.subdomains).get(nm)
            if by_name != by_arr or stored is None or sorted(set(np.asarray(stored).tolist())) != sorted(set(np.asarray(arr).tolist())):
                ctx.fail(f'retag:{kw}', f'{type(m).__name__}: the tag {nm!r} was (re)defined last as {np.asarray(arr).tolist()} but the mesh stores '
                         f'{None if stored is None else np.asarray(stored).tolist()}; get_dofs({kw}={nm!r}) and get_dofs({kw}=that array) '
                         f'differ: the name, the index array and the predicate must denote the same entities',
                         dict(data, tag=nm, last_definition=np.asarray(arr).tolist()))
    nmF, pF = c.last_pred['F']
    bfacets = [f for f in range(m.facets.shape[1]) if m.f2t[1, f] == -1]
    by_pred = b.get_dofs(np.intersect1d(m.facets_satisfying(pF), bfacets).astype(np.int32)).flatten().tolist()
    if b.get_dofs(nmF).flatten().tolist() != by_pred:
        ctx.fail('retag:facets', f'{type(m).__name__}: tag {nmF!r} last defined by a predicate (boundary facets only) does not select the '
                 'facets the predicate selects', dict(data, tag=nmF))
    nmE, pE = c.last_pred['E']
    if b.get_dofs(elements=nmE).flatten().tolist() != b.get_dofs(elements=pE).flatten().tolist():
        ctx.fail('retag:elements', f'{type(m).__name__}: tag {nmE!r} last defined by a predicate does not select the cells the predicate selects',
                 dict(data, tag=nmE))
    if c.m_before.boundaries is not None or c.m_before.subdomains is not None:
        ctx.fail('retag:operand', 'with_boundaries / with_subdomains modified the mesh they were called on', data)
    if c.defaults_error:
        ctx.fail('retag:with_defaults', f'{type(m).__name__}.with_defaults() raises {c.defaults_error}: the default tags (left, right, ...) '
                 'cannot be used as selectors', data)
    # nodes: an int, ints inside a list / set, an index array and a predicate naming the same vertices agree
    nvx = int(m.nvertices)
    vs = sorted(set(int(x) for x in rng.integers(0, nvx, size=3)))
    want_n = b.get_dofs(nodes=np.array(vs, dtype=np.int32)).flatten().tolist()
    forms = [('list of ints', list(vs)), ('set of ints', set(vs)), ('nested', [vs[0], np.array(vs[1:], dtype=np.int32)])] + \
        ([('int', vs[0])] if len(vs) == 1 else [])
    one = b.get_dofs(nodes=np.array(vs[:1], dtype=np.int32)).flatten().tolist()
    forms.append(('int', vs[0]))
    for what, val in forms:
        ctx.count(('node-forms', c.kind, c.name, what), nontrivial=True)
        try:
            got = b.get_dofs(nodes=val).flatten().tolist()
        except Exception as ex:
            got = f'{type(ex).__name__}: {ex}'
        if got != (one if what == 'int' else want_n):
            ctx.fail('selector:node-forms', f'get_dofs(nodes={val!r}) on {type(m).__name__}/{c.name} gives {got!r:.90}, the index array of the '
                     f'same vertices gives {(one if what == "int" else want_n)!r:.60}', dict(data, nodes=repr(val)))
    pn, mask = c.predN[0]
    want_p = b.get_dofs(nodes=np.nonzero(mask)[0].astype(np.int32)).flatten().tolist()
    try:
        got_p = b.get_dofs(nodes=pn).flatten().tolist()
    except Exception as ex:
        got_p = f'{type(ex).__name__}: {ex}'
    ctx.count(('node-pred', c.kind, c.name, m.t.tolist()), nontrivial=True)
    if got_p != want_p:
        ctx.fail('selector:node-predicate', f'get_dofs(nodes=predicate) on {type(m).__name__}/{c.name} ({m.p.shape[1]} points, {nvx} vertices) '
                 f'gives {got_p!r:.90} but the vertices satisfying the predicate carry {want_p!r:.60}', data)
    # complement of several sets (positional and dict form) = complement of the union
    nfx = m.facets.shape[1]
    v1, v2, v3 = (b.get_dofs(np.array([int(rng.integers(nfx))], dtype=np.int32)) for _ in range(3))
    union = set(v1.flatten().tolist()) | set(v2.flatten().tolist()) | set(v3.flatten().tolist())
    want_c = sorted(set(range(b.N)) - union)
    ctx.count(('complement-many', c.kind, c.name, m.t.tolist()), nontrivial=True)
    for what, got in (('complement_dofs(a, b, c)', b.complement_dofs(v1, v2, v3).tolist()),
                      ('complement_dofs(a.flatten(), b.flatten(), c.flatten())', b.complement_dofs(v1.flatten(), v2.flatten(), v3.flatten()).tolist()),
                      ("complement_dofs({'x': a, 'y': b, 'z': c})", b.complement_dofs({'x': v1, 'y': v2, 'z': v3}).tolist())):
        if got != want_c:
            ctx.fail('complement:several-sets', f'{c.name} on {type(m).__name__}: {what} returns {len(got)} DOFs, the complement of the union has '
                     f'{len(want_c)} (N = {b.N})', dict(data, call=what))
    # predicates with boundaries_only: the predicate set intersected with the boundary set
    pf, maskf = c.predF[0]
    pn, maskn = c.predN[0]
    bfac_ = [f for f in range(nfx) if m.f2t[1, f] == -1]
    bnod_ = sorted({int(v) for f in bfac_ for v in np.asarray(m.facets)[:, f]})
    for what, got, want in (
            ('facets_satisfying(pred, boundaries_only=True)', m.facets_satisfying(pf, boundaries_only=True), np.intersect1d(np.nonzero(maskf)[0], bfac_)),
            ('facets_satisfying(pred)', m.facets_satisfying(pf), np.nonzero(maskf)[0]),
            ('nodes_satisfying(pred, boundaries_only=True)', m.nodes_satisfying(pn, boundaries_only=True), np.intersect1d(np.nonzero(maskn)[0], bnod_)),
            ('nodes_satisfying(pred)', m.nodes_satisfying(pn), np.nonzero(maskn)[0])):
        kw = 'nodes' if what.startswith('nodes') else 'facets'
        g1 = b.get_dofs(**{kw: np.asarray(got, dtype=np.int32)}).flatten().tolist()
        g2 = b.get_dofs(**{kw: np.asarray(want, dtype=np.int32)}).flatten().tolist()
        if np.asarray(got).tolist() != np.asarray(want).tolist() or g1 != g2:
            ctx.fail('selector:boundaries_only', f'{type(m).__name__}.{what} = {np.asarray(got).tolist()[:10]} but the predicate set '
                     f'(intersected with the boundary set) is {np.asarray(want).tolist()[:10]}; get_dofs of the two differ', dict(data, call=what))
    # facets_satisfying with normal= (oriented boundary): same facet set as without it, boundaries_only still honoured
    if m.p.shape[0] > 1:
        nrm = np.zeros(m.p.shape[0])
        nrm[0] = 1.0
        for bo in (True, False):
            want_f = np.intersect1d(np.nonzero(maskf)[0], bfac_) if bo else np.nonzero(maskf)[0]
            try:
                ob = m.facets_satisfying(pf, boundaries_only=bo, normal=nrm)
            except Exception:
                continue        # no normals for this cell type / degenerate geometry
            ctx.count(('satisfying-normal', c.kind, c.name, bo, m.t.tolist()), nontrivial=True)
            okori = hasattr(ob, 'ori') and len(np.asarray(ob.ori)) == len(np.asarray(ob)) and set(np.asarray(ob.ori).tolist()) <= {0, 1}
            g1 = b.get_dofs(np.asarray(ob)).flatten().tolist()
            g2 = b.get_dofs(np.asarray(want_f, dtype=np.int32)).flatten().tolist()
            if np.asarray(ob).tolist() != np.asarray(want_f).tolist() or not okori or g1 != g2:
                ctx.fail('selector:boundaries_only', f'{type(m).__name__}.facets_satisfying(pred, boundaries_only={bo}, normal=e_x) gives '
                         f'{len(np.asarray(ob))} facets, the predicate set{" intersected with the boundary set" if bo else ""} has {len(want_f)}; '
                         f'get_dofs on it {len(g1)} DOFs instead of {len(g2)}' + ('' if okori else '; no 0/1 orientation per facet'),
                         dict(data, call=f'facets_satisfying(pred, boundaries_only={bo}, normal=e_x)'))
    # the (deprecated) dictionary form of `facets` with skip= and name filters must agree with the other selector forms
    import warnings
    arrF = np.unique(rng.integers(0, nfx, size=3)).astype(np.int32)
    for nm in sorted(set(c.names)):
        with warnings.catch_warnings():
            warnings.simplefilter('ignore')
            try:
                dd = b.get_dofs({'a': arrF, 'p': pf}, skip=[nm])
            except Exception as ex:
                dd = f'{type(ex).__name__}: {ex}'
        ctx.count(('dict-form', c.kind, c.name, nm, m.t.tolist()), nontrivial=True)
        wa = b.get_dofs(arrF, skip=[nm]).flatten().tolist()
        wp = b.get_dofs(np.nonzero(maskf)[0].astype(np.int32), skip=[nm]).flatten().tolist()
        ok = isinstance(dd, dict) and sorted(dd) == ['a', 'p'] and dd['a'].flatten().tolist() == wa and dd['p'].flatten().tolist() == wp \
            and dd['a'].keep([nm]).flatten().tolist() == [] and dd['a'].all().tolist() == wa
        if not ok:
            ga = dd['a'].flatten().tolist() if isinstance(dd, dict) and 'a' in dd else dd
            ctx.fail('selector:dict-form', f"{c.name} on {type(m).__name__}: get_dofs({{'a': {arrF.tolist()}, 'p': pred}}, skip=[{nm!r}])['a'] has "
                     f'{len(ga) if isinstance(ga, list) else ga} DOFs, get_dofs({arrF.tolist()}, skip=[{nm!r}]) has {len(wa)}: the dictionary form '
                     'must agree with the index / predicate forms', dict(data, facets=arrF.tolist(), skip=nm))
            break
    # the empty list / tuple / set denotes the empty set
    for kw, val in (('facets', []), ('facets', ()), ('facets', set()), ('elements', []), ('elements', ()), ('nodes', [])):
        ctx.count(('empty', c.kind, c.name, kw, type(val).__name__), nontrivial=False)
        try:
            got = b.get_dofs(**{kw: val}).flatten().tolist()
        except Exception as ex:
            got = f'{type(ex).__name__}: {ex}'
        if got != []:
            ctx.fail('selector:empty-collection', f'get_dofs({kw}={val!r}) on {type(m).__name__}/{c.name} gives {got!r:.80}; the empty '
                     f'collection denotes the empty set of entities, the query must return no DOFs', dict(data, selector=repr(val), arg=kw))
    # elements / nodes
    nt = m.t.shape[1]
    E = rng.integers(0, nt, size=int(rng.integers(1, 4)))
    got = b.get_dofs(elements=np.array(E, dtype=np.int32)).flatten().tolist()
    want = sorted(set(np.asarray(b.element_dofs)[:, sorted(set(E.tolist()))].flatten().tolist()))
    ctx.count(('elements', c.kind, c.name, E.tolist(), m.t.tolist()), nontrivial=True)
    if got != want:
        ctx.fail(f'elem={c.name}:{c.kind}:element-query', f'get_dofs(elements={E.tolist()}) is not the set of DOFs of those cells', dict(data, elements=E.tolist()))
    N = rng.integers(0, int(m.nvertices), size=int(rng.integers(1, 4)))
    got = b.get_dofs(nodes=np.array(N, dtype=np.int32)).flatten().tolist()
    nd_ = np.asarray(b.nodal_dofs)
    want = sorted(set(nd_[:, sorted(set(N.tolist()))].flatten().tolist())) if nd_.size else []
    if got != want:
        ctx.fail(f'elem={c.name}:{c.kind}:vertex-query', f'get_dofs(nodes={N.tolist()}) is not the set of vertex DOFs of those vertices', dict(data, nodes=N.tolist()))


# ------------------------------------------------------------------------------ the check

def _elements_for(kind, quick, rng):
    from .. import c04_elems as EL
    els = EL.all_elements(kind)
    must = {'line': ['ElementLineP2', 'ElementLineHermite'], 'tri': ['ElementTriP2', 'ElementTriArgyris', 'ElementTriP3', 'ElementTriRT1'],
            'quad': ['ElementQuad2'], 'tet': ['ElementTetP2', 'ElementTetCCR', 'ElementTetN1*ElementTetP1', 'ElementTetN1'],
            'hex': ['ElementHex2', 'ElementVector(ElementHex2)'], 'wedge': ['ElementWedge1']}[kind]
    d = dict(els)
    out = [(n, d[n]) for n in must if n in d]
    rest = [x for x in els if x[0] not in must]
    k = 2 if quick else len(rest)
    out += [rest[int(j)] for j in rng.choice(len(rest), size=min(k, len(rest)), replace=False)]
    return out


def _edge_facet_composites():
    import skfem.element as E
    return [('tet', 'ElementTetN1*ElementTetRT1', lambda: E.ElementTetN1() * E.ElementTetRT1()),
            ('tet', 'ElementTetP2*ElementTetRT1', lambda: E.ElementTetP2() * E.ElementTetRT1()),
            ('hex', 'ElementHexS2*ElementHexRT1', lambda: E.ElementHexS2() * E.ElementHexRT1())]


def run(ctx):
    ctx.cov['rule'] = ('real Basis.get_dofs on random tagged meshes (C11 generators) x elements with every combination of nodal/edge/facet/'
                       'interior DOFs in 1-D/2-D/3-D x selectors (int, index arrays in any order with duplicates, predicates on midpoints, tag '
                       'names, nested lists/tuples/sets, None, True) x skip/keep/drop/all/|/complement; non-trivial = non-empty result')
    ctx.trusted += ['NumPy unique/concatenate/fancy indexing/union1d/intersect1d/setdiff1d (modelled, corresponded)',
                    'evaluation of predicates on float midpoints (runtime part; the harness evaluates the same predicate on the same midpoints)']
    ctx.assumptions += ['name filters: the theorem is conditional on the name offsets being the basis-function order; that condition is a '
                        'separate generated obligation (Gen/C07NameOrder.v)']
    ctx.assumptions += ['default tags (with_defaults): checked on tensor meshes graded the SAME way along every axis (isotropic cells at the corners, '
                        'size ratio up to 1000:1), where tolerance min(params())/100 is right.  NOTE (observation, not checked): params() is the LONGEST edge per '
                        'cell, so on strongly anisotropic boundary-layer meshes (cells thinner than 1/100 of their length at a side) the unchanged code '
                        'already tags interior facets next to that side; such meshes are deliberately not generated']
    ctx.ensure_static()
    known = NAME_KEY in ctx.known.findings.get('C07', {})
    gen_ok = True
    try:
        ctx.write_gen('C04Gen', C04.translate())
        ctx.write_gen('C07Gen', translate())
    except TranslateError as e:
        ctx.broke('translator', 'c07.translate(dofs.py, mesh.py)', e)
        gen_ok = False
    if gen_ok:
        ctx.write_gen('C07NameOrder', NAME_ORDER_REFUTED if known else NAME_ORDER_POS)
        ctx.compile_dyn(['gen/C04Gen.v', 'gen/C07Gen.v'])
        nbroken = len(ctx.broken)
        ok = ctx.compile_dyn(['gen/C07NameOrder.v'])
        if not ok and known:
            # the refutation no longer compiles: the listed defect is gone (stale finding) — not a failure
            del ctx.broken[nbroken:]
            for o in ctx.obligations:
                if 'C07NameOrder' in o['name']:
                    o['ok'] = True
            ctx.log('NOTE: known finding', NAME_KEY, 'is stale: the name offsets are the basis-function order now')
        import shutil, os
        src = os.path.join(os.path.dirname(os.path.dirname(os.path.dirname(os.path.abspath(__file__)))), 'coq', 'dyn', 'C04', 'C04Tie.v')
        shutil.copy(src, os.path.join(ctx.bdir, 'dyn', 'C04Tie.v'))
        ctx.compile_dyn(['dyn/C04Tie.v'] + ctx.copy_dyn())
        ctx.prove()
    if gen_ok and not ctx.quick():
        trace_instances(ctx)
    rng = np_seed(ctx, 7)
    cases = []
    nctx = 0
    sat_meshes = []
    contexts = []
    for kind in M.KINDS:
        for name, fac in _elements_for(kind, ctx.quick(), rng):
            contexts.append((kind, name, fac))
    contexts += _edge_facet_composites()
    import skfem.element as _E
    contexts += [('tri2', 'ElementTriP2', _E.ElementTriP2), ('quad2', 'ElementQuad2', _E.ElementQuad2), ('tet2', 'ElementTetP2', _E.ElementTetP2)]
    for kind, name, fac in contexts:
        for rep in range(ctx.n(1, 2)):
            try:
                c = Context(rng, kind, name, fac, maxcells=ctx.n(8, 14) if kind in ('tet', 'hex', 'wedge') else ctx.n(12, 20))
            except Exception as ex:
                ctx.fail(f'elem={name}:basis-exception', f'Basis on {kind}/{name} raises {type(ex).__name__}: {ex}', {'kind': kind, 'element': name})
                continue
            nctx += 1
            if len(sat_meshes) < 40 and not any(k == kind and mm.t.shape == c.m.t.shape for k, mm in sat_meshes):
                sat_meshes.append((kind, c.m))
            ctx.hist('kind', kind)
            ctx.hist('counts(nd,ed,fd,id)', c.counts)
            qs = make_queries(rng, c, ctx.n(10, 16))
            outs = []
            dnames = bfun_names(c)
            both = c.counts[1] > 0 and c.counts[2] > 0 and np.asarray(c.basis.edge_dofs).size > 0
            for cq, thunk, desc, spec in qs:
                try:
                    r = [int(x) for x in np.asarray(thunk()).tolist()]
                    outs.append(copt(cnats(r)))
                    ctx.count(('query', kind, name, desc, c.m.t.tolist()), nontrivial=len(r) > 0)
                    ctx.hist('query', desc[0])
                    want = expected_query(c, spec, dnames)
                    if spec['pk'] >= 4:          # decode [name, len, values...] and compare per name as sets
                        got, i = {}, 0
                        while i < len(r):
                            got[r[i]] = sorted(set(r[i + 2:i + 2 + r[i + 1]]))
                            i += 2 + r[i + 1]
                        r_cmp = got
                    else:
                        r_cmp = r
                    if r_cmp != want:
                        r, want = (sorted(r_cmp.items()), sorted(want.items())) if spec['pk'] >= 4 else (r, want)
                        named = bool(spec['skip']) or spec['pk'] != 0
                        edge_facet = spec['pk'] < 4 or spec['bkd'] in ('Edge', 'Facet')
                        ctx.fail(NAME_KEY if (both and named and edge_facet) else f'elem={name}:{kind}:query',
                                 f'{name} on {type(c.m).__name__}: query {desc} returns {r[:12]}... but the DOFs of the selected entities '
                                 f'(closure by vertex sets, names in basis-function order) are {want[:12]}...',
                                 {'kind': kind, 'element': name, 'p': c.m.p.tolist(), 't': c.m.t.tolist(), 'query': repr(desc),
                                  'got': r, 'want': want})
                except Exception as ex:      # an accepted selector form must not raise
                    outs.append('None')
                    ctx.fail('selector:empty-collection' if 'need at least one array' in str(ex) else f'elem={name}:{kind}:query-exception',
                             f'get_dofs raises {type(ex).__name__}: {ex} for {desc}',
                             {'kind': kind, 'element': name, 'p': c.m.p.tolist(), 't': c.m.t.tolist(), 'query': repr(desc)})
            cases.append((f'({c.coq()}, {clist([q[0] for q in qs])})', clist(outs), (kind, name, [q[2] for q in qs], c.m.t.tolist())))
            if len(ctx.cov['samples']) < 4:
                ctx.sample({'mesh': kind, 'element': name, 'query': repr(qs[0][2]), 'result_of_impl': outs[0]})
            try:
                oracle_context(ctx, c, rng)
                oracle_api(ctx, c, rng)
            except Exception as ex:
                import traceback
                ctx.fail(f'elem={name}:{kind}:oracle-exception', f'{type(ex).__name__}: {ex}', {'kind': kind, 'element': name, 'tb': traceback.format_exc()[-600:]})
    for fn, key in ((oracle_vector_names, 'names:vector-oracle-exception'), (oracle_default_tags, 'retag:default-tags-oracle-exception')):
        try:
            fn(ctx, rng)
        except Exception as ex:
            import traceback
            ctx.fail(key, f'{type(ex).__name__}: {ex}', {'tb': traceback.format_exc()[-800:]})
    ctx.extra['api_coverage'] = API_C07
    if gen_ok:
        corr_wrappers(ctx, rng, sat_meshes)
    ctx.log(f'{nctx} contexts, {sum(len(c[2][2]) for c in cases)} queries')
    if gen_ok:
        bad = ctx.corr('get_dofs', 'Require Import Base.C11_Unique Model.C04_Dofs Model.C07_Query Gen.C04Gen Gen.C07Gen.\n'
                       'From Coq Require Import List Arith Bool.', 'run', 'res_eqb', cases,
                       per_file=min(400, -(-len(cases) // 4)), defs=CORR_DEFS)
        for i in bad or []:
            ctx.log('disagreeing context:', cases[i][2][0], cases[i][2][1])


SAT_DEFS = '''
Definition run_sat (c : list nat * list nat * list nat * list nat * list nat * (bool * bool)) :=
  let '(predF, predN, predE, bfacets, bnodes, (bo, ng)) := c in
  [gen_facets_satisfying predF bfacets bnodes bo ng; gen_nodes_satisfying predN bfacets bnodes bo; gen_elements_satisfying predE].
'''


def corr_wrappers(ctx, rng, meshes):
    """the translated option plumbing of Mesh.facets_satisfying / nodes_satisfying / elements_satisfying against the real methods:
    the predicate sets are computed here from the midpoints, the boundary sets are the mesh's own"""
    cases = []
    cb = lambda b: 'true' if b else 'false'
    for kind, m in meshes:
        for rep in range(3):
            d = m.p.shape[0]
            ax = int(rng.integers(d))
            lo, hi = float(m.p[ax].min()), float(m.p[ax].max())
            cut = lo + (hi - lo) * float(rng.choice([0.3, 0.5, 0.7, 1.1]))
            sgn = int(rng.choice([-1, 1]))
            test = lambda x, ax=ax, cut=cut, sgn=sgn: sgn * (x[ax] - cut) < 0
            bo = bool(rng.integers(2))
            ng = bool(rng.integers(2)) and d > 1
            nrm = np.eye(d)[int(rng.integers(d))] if ng else None
            predF = np.nonzero(test(m.p[:, m.facets].mean(axis=1)))[0]
            predN = np.nonzero(test(m.p[:, :m.nvertices]))[0]
            predE = np.nonzero(test(m.p[:, m.t].mean(axis=1)))[0]
            try:
                gotF = np.asarray(m.facets_satisfying(test, boundaries_only=bo, normal=nrm)) if ng else \
                    np.asarray(m.facets_satisfying(test, boundaries_only=bo))
                gotN = np.asarray(m.nodes_satisfying(test, boundaries_only=bo))
                gotE = np.asarray(m.elements_satisfying(test))
            except Exception as ex:
                if ng:
                    continue                     # degenerate normals on tiny meshes: not this property
                ctx.fail(f'{kind}:satisfying-exception', f'*_satisfying raises {type(ex).__name__}: {ex}', {'kind': kind, 't': m.t.tolist()})
                continue
            nl = lambda a: cnats([int(x) for x in np.asarray(a).ravel().tolist()])
            inp = f'({nl(predF)}, {nl(predN)}, {nl(predE)}, {nl(m.boundary_facets())}, {nl(m.boundary_nodes())}, ({cb(bo)}, {cb(ng)}))'
            cases.append((inp, clist([nl(gotF), nl(gotN), nl(gotE)]), (kind, bo, ng, m.t.tolist())))
            ctx.hist('satisfying(boundaries_only,normal)', (bo, ng))
    bad = ctx.corr('satisfying', 'Require Import Model.C07_Query Gen.C07Gen.\nFrom Coq Require Import List Arith Bool.', 'run_sat', 'natss_eqb',
                   cases, defs=SAT_DEFS)
    for i in bad or []:
        kind, bo, ng, t = cases[i][2]
        ctx.log('disagreeing *_satisfying case:', kind, 'boundaries_only', bo, 'normal given', ng)


def _local_names(elem, has_edges):
    """names of the local basis functions in their order (nodal per vertex, edge, facet, interior) from element.dofnames"""
    rd = elem.refdom
    nd, ed, fd, idd = elem.nodal_dofs, elem.edge_dofs, elem.facet_dofs, elem.interior_dofs
    dn = list(elem.dofnames)
    out = []
    out += [dn[k] for _ in range(rd.nnodes) for k in range(nd)]
    off = nd
    if has_edges:
        out += [dn[off + k] for _ in range(rd.nedges) for k in range(ed)]
        off += ed
    out += [dn[off + k] for _ in range(rd.nfacets) for k in range(fd)]
    off += fd
    out += [dn[off + k] for k in range(idd)]
    return out


def oracle_vector_names(ctx, rng):
    """ElementVector over base elements with SEVERAL DOFs per entity kind: the DOF named <name>^k must be the k-th component of the
    base function called <name> — read off the basis functions themselves (which component is non-zero, which scalar base function
    it equals), not off any table of names; then the queries by name (all / keep / drop / skip) are checked against that."""
    import skfem
    import skfem.element as E
    from skfem import Basis
    bases = [('line', 'ElementLineHermite', lambda: E.ElementLineHermite(), 2), ('line', 'ElementLinePp(3)', lambda: E.ElementLinePp(3), 2),
             ('tri', 'ElementTriP3', lambda: E.ElementTriP3(), None), ('tri', 'ElementTriP4', lambda: E.ElementTriP4(), None),
             ('quad', 'ElementQuadP(3)', lambda: E.ElementQuadP(3), None), ('tri', 'ElementTriP2', lambda: E.ElementTriP2(), 3),
             ('tri', 'ElementTriHermite', lambda: E.ElementTriHermite(), None), ('tet', 'ElementTetP2', lambda: E.ElementTetP2(), None)]
    for kind, bname, mk, n in bases:
        try:
            base = mk()
            ev = E.ElementVector(base, n) if n else E.ElementVector(base)
        except Exception:
            continue                                         # class not exported by this version
        m = M.gen_mesh(rng, kind, maxcells=6 if kind == 'tet' else 8)[0]
        try:
            vb = Basis(m, ev, intorder=4)
            sb = Basis(m, base, intorder=4)
        except Exception as ex:
            ctx.fail(f'elem=ElementVector({bname}):basis-exception', f'{type(ex).__name__}: {ex}', {'kind': kind, 'element': bname})
            continue
        dim = ev.dim
        has_edges = m.dim() == 3
        sn, vn = _local_names(base, has_edges), _local_names(ev, has_edges)
        data = {'kind': kind, 'element': f'ElementVector({bname}, {dim})', 'p': m.p.tolist(), 't': m.t.tolist()}
        ctx.count(('vector-names', kind, bname, m.t.tolist()), nontrivial=max(base.nodal_dofs, base.edge_dofs, base.facet_dofs, base.interior_dofs) > 1)
        truth = {}                                           # global DOF -> name it must carry
        bad = None
        svals = [np.asarray(sb.basis[j][0].value) for j in range(len(sb.basis))]
        for i in range(len(vb.basis)):
            val = np.asarray(vb.basis[i][0].value)           # (dim, nel, nqp)
            comps = [k for k in range(dim) if np.abs(val[k]).max() > 1e-12]
            js = [j for j in range(len(svals)) if comps and np.allclose(val[comps[0]], svals[j], atol=1e-10)]
            if len(comps) != 1 or len(js) != 1:
                bad = bad or (i, f'local function {i} has non-zero components {comps} and equals the scalar base functions {js}')
                continue
            want = f'{sn[js[0]]}^{comps[0] + 1}'
            for e in range(m.t.shape[1]):
                truth[int(vb.element_dofs[i, e])] = want
            if vn[i] != want and bad is None:
                bad = (i, f'local basis function {i} is component {comps[0] + 1} of the base function "{sn[js[0]]}" but is named "{vn[i]}"')
        if bad:
            ctx.fail('names:vector-component', f'ElementVector({bname}, {dim}) on {type(m).__name__}: {bad[1]}; queries by DOF name select '
                     'functions of another component / another base DOF', dict(data, local=bad[0], dofnames=list(ev.dofnames)))
            continue
        # the queries by name against the truth
        allE = np.arange(m.t.shape[1])
        bf = m.boundary_facets()
        F = bf[:max(1, len(bf) // 2)]
        for nm in sorted(set(truth.values())):
            T = {d for d, x in truth.items() if x == nm}
            view = vb.get_dofs(facets=F)
            flat = set(int(x) for x in view.flatten())
            chk = [('get_dofs(elements=all).all', vb.get_dofs(elements=allE).all([nm]), T),
                   ('get_dofs(facets=F).all', view.all([nm]), flat & T),
                   ('get_dofs(facets=F).keep(..).flatten', view.keep([nm]).flatten(), flat & T),
                   ('get_dofs(facets=F).drop(..).flatten', view.drop([nm]).flatten(), flat - T),
                   ('get_dofs(facets=F, skip=..).flatten', vb.get_dofs(facets=F, skip=[nm]).flatten(), flat - T)]
            for what, got, want in chk:
                got = sorted(int(x) for x in np.asarray(got).ravel())
                if got != sorted(want):
                    ctx.fail('names:vector-component', f'ElementVector({bname}, {dim}) on {type(m).__name__}: {what} with name "{nm}" gives {got[:10]}... '
                             f'but the DOFs whose basis function is that component of that base function are {sorted(want)[:10]}...',
                             dict(data, name=nm, call=what, facets=np.asarray(F).tolist(), got=got, want=sorted(want)))
                    break


def _graded(rng, n, ratio):
    """1-D grid on [0, L]: cell sizes grow geometrically from both ends towards the middle (or from one end), ratio up to `ratio`"""
    q = ratio ** (1.0 / max(1, n - 1))
    h = np.array([q ** k for k in range(n)])
    mode = int(rng.integers(3))
    if mode == 0:
        hs = h
    elif mode == 1:
        hs = h[::-1]
    else:
        hs = np.concatenate([h, h[::-1]])
    x = np.concatenate([[0.0], np.cumsum(hs)])
    return x / x[-1] * float(rng.choice([1.0, 2.5])) + float(rng.choice([0.0, -1.0]))


def oracle_default_tags(ctx, rng):
    """with_defaults() on meshes graded in ALL directions (isotropic cells at the corners, size ratio up to 1000:1): the tags left /
    right / bottom / top / front / back are exactly the boundary facets on that side of the bounding box (coordinate predicate), and
    get_dofs by tag name, by the stored index array and by the predicate agree"""
    import skfem
    import skfem.element as E
    from skfem import Basis
    for kind in ('tri', 'quad', 'hex', 'tet', 'line'):
        for rep in range(2):
            ratio = float(rng.choice([30.0, 300.0, 1000.0]))
            n = int(rng.integers(6, 9)) if kind in ('hex', 'tet') else int(rng.integers(8, 14))
            g = _graded(rng, n, ratio)                   # the SAME grading along every axis: cells on the diagonal are isotropic
            if kind in ('hex', 'tet') and len(g) > 9:
                g = _graded_trim(g)
            if not _check_default_tags(ctx, kind, g, ratio):
                return


def _check_default_tags(ctx, kind, g, ratio):
    import skfem
    import skfem.element as E
    from skfem import Basis
    names = [('left', 'right'), ('bottom', 'top'), ('front', 'back')]
    g = np.asarray(g, dtype=float)
    if True:
        if True:
            try:
                if kind == 'line':
                    m, el = skfem.MeshLine(g), E.ElementLineP2()
                elif kind == 'tri':
                    m, el = skfem.MeshTri.init_tensor(g, g), E.ElementTriP2()
                elif kind == 'quad':
                    m, el = skfem.MeshQuad.init_tensor(g, g), E.ElementQuad2()
                elif kind == 'hex':
                    m, el = skfem.MeshHex.init_tensor(g, g, g), E.ElementHex1()
                else:
                    m, el = skfem.MeshTet.init_tensor(g, g, g), E.ElementTetP1()
            except Exception:
                return True
            data = {'kind': kind, 'grid': g.tolist(), 'ratio': ratio}
            try:
                md = m.with_defaults()
            except Exception as ex:
                ctx.fail('retag:with_defaults', f'{type(m).__name__}.with_defaults() raises {type(ex).__name__}: {ex} on a graded tensor mesh', data)
                return True
            ctx.count(('default-tags', kind, g.tolist()), nontrivial=True)
            ctx.hist('default-tags grading', int(ratio))
            b = Basis(md, el)
            mid = md.p[:, md.facets].mean(axis=1)
            bfs = md.boundary_facets()
            for d in range(md.p.shape[0]):
                lo, hi = float(md.p[d].min()), float(md.p[d].max())
                for nm, side in zip(names[d], (lo, hi)):
                    want = np.array([f for f in bfs if abs(mid[d, f] - side) <= 1e-12 * max(1.0, abs(side))], dtype=np.int64)
                    got = np.sort(np.asarray((md.boundaries or {}).get(nm, np.array([], dtype=np.int64))).astype(np.int64))
                    if got.tolist() != want.tolist():
                        inter = [int(f) for f in got if f not in set(bfs.tolist())]
                        ctx.fail('retag:default-tags', f'{type(md).__name__}.with_defaults() on a mesh graded {int(ratio)}:1 towards its sides: tag "{nm}" holds '
                                 f'{len(got)} facets, the boundary facets with x[{d}] == {side} are {len(want)} ({len(inter)} tagged facets are interior facets); '
                                 'the tag, the index array and the coordinate predicate no longer denote the same facets',
                                 dict(data, tag=nm, got=got.tolist()[:40], want=want.tolist()[:40]))
                        return False
                    byname = np.asarray(b.get_dofs(nm).flatten()).tolist()
                    bypred = np.asarray(b.get_dofs(lambda x, d=d, side=side: np.abs(x[d] - side) <= 1e-12 * max(1.0, abs(side))).flatten()).tolist()
                    byarr = np.asarray(b.get_dofs(want.astype(np.int32)).flatten()).tolist()
                    if not (byname == bypred == byarr):
                        ctx.fail('retag:default-tags', f'{type(md).__name__} graded {int(ratio)}:1: get_dofs("{nm}") gives {len(byname)} DOFs, by predicate '
                                 f'{len(bypred)}, by index array {len(byarr)}', dict(data, tag=nm))
                        return False
    return True


def _graded_trim(g):
    return g[:9] if len(g) > 9 else g


def _try_all(ctx, head, defs):
    """cheap pre-check that every class passes tclass_ok (one file); False -> find the failing ones class by class"""
    ctx.write_gen('C07_TC_all', head + ''.join(defs.values()))
    return ctx.coqc('gen/C07_TC_all.v', 600)[0]


def trace_instances(ctx):
    """thorough tier: discharge the abstract hypothesis of C07_trace_support on group F's generated element list.
    Regenerates C09's polynomials and C03's trace certificates (their generators are used as libraries), compiles them in
    this build directory, and proves per class  tclass_ok = true  (C03's attached local indices are rows of attached
    (kind, slot)s of the C04 layout), then the theorem over all classes."""
    from .. import c03_gen, c03_oracle, c09_gen
    from ..c09_build import compile_generated
    from . import c03 as C03
    known = set(ctx.known.findings.get('C03', {}))
    try:
        chunks9, _, info9, translated = C03._quiet(c09_gen.generate)
        claims = C03._quiet(c03_oracle.claims)
        conforming = [k for k, v in claims.items() if v[1].split('|')[0] in C03.CONFORMING_KINDS]
        chunks3, summ3, info3 = c03_gen.generate(translated, conforming, known_keys=known)
    except TranslateError as e:
        ctx.broke('translator', 'c09_gen / c03_gen (used as libraries by C07)', e)
        return
    need = set(info3['sources'])
    nob = len(ctx.obligations)
    ok9, _ = compile_generated(ctx, {k: v for k, v in chunks9.items() if k in need}, info9, tag='C09')
    ok3, _ = compile_generated(ctx, chunks3, info3, tag='C03') if ok9 else (False, None)
    del ctx.obligations[nob:]            # those lemmas are C09's / C03's obligations, not C07's
    if not ok3:
        ctx.broke('proof', 'C07 trace instances', 'the C09 / C03 generated files did not compile')
        return
    ctx.write_gen('C03_Traces', summ3)
    ok, out, err, _ = ctx.coqc('gen/C03_Traces.v', 400)
    if not ok:
        ctx.broke('proof', 'gen/C03_Traces.v', err[-500:])
        return
    groups = sorted(chunks3)
    head = ('(* GENERATED by vlib/props/c07.py — do not edit *)\nFrom Coq Require Import List Arith QArith Ring_theory.\nImport ListNotations.\n'
            'Require Import Model.C03_Trace Proofs.C03_TraceProofs Model.C04_Dofs Proofs.C04_DofsProofs Model.C07_Query '
            'Proofs.C07_QueryProofs Proofs.C07_TraceProofs Proofs.C07_TraceC03Proofs.\n'
            + ''.join(f'Require Import Gen.{g}.\n' for g in groups) + 'Require Import Gen.C03_Traces.\nLocal Open Scope nat_scope.\n')
    defs = {}
    for n in info3['names']['traced']:
        e = translated[n[:-4] if n.endswith('_eff') and n not in translated else n].elem
        rd = e.refdom
        d = int(rd.dim())
        fac = [[int(x) for x in r] for r in rd.facets]
        edg = [[int(x) for x in r] for r in (rd.edges or [])] if d == 3 else []
        lst = lambda m: clist([cnats(r) for r in m]) if m else '(@nil (list nat))'
        defs[n] = (f'Definition {n}_c : tclass := mkTclass {n}_t {d} {int(e.nodal_dofs)} {int(e.edge_dofs)} {int(e.facet_dofs)} '
                   f'{int(e.interior_dofs)} {int(rd.nnodes)} {lst(fac)} {lst(edg)}.\n'
                   f'Lemma {n}_c_ok : tclass_ok {n}_c = true.\nProof. vm_compute. reflexivity. Qed.\n')
    # all classes in one file first; only if that fails, class by class to name the ones that do not fit
    THM = '''
(* for EACH of these element classes (polynomials regenerated from the real lbasis, trace identities decided by C03's checker),
   every commutative ring over Q, every well-formed topology and every facet selection F: every trace component, at every point
   of a local facet of a cell whose attached entities lie in the closure of F, of  sum_d w(d) phi_d  is the same for all
   coefficient vectors that agree on the DOFs get_facet_dofs(F) returns *)
Theorem C07_trace_support_every_traced_class : forall c, In c trace_classes ->
  forall (R : Type) (rO rI : R) (radd rmul rsub : R -> R -> R) (ropp : R -> R) (req : R -> R -> Prop) (phi : Q -> R),
    Equivalence req -> ring_eq_ext radd rmul ropp req -> ring_theory rO rI radd rmul rsub ropp req ->
    ring_morph rO rI radd rmul rsub ropp req 0%Q 1%Q Qplus Qmult Qminus Qopp Qeq_bool phi ->
  forall nv ne nf nt t t2e t2f,
    wf (tc_dim c) (tc_fd c) nv ne nf nt t t2e t2f ->
    length t = tc_nn c -> length t2e = length (tc_edges c) -> length t2f = length (tc_facets c) ->
  forall dofnames offs facets f2e dim3 F,
    (forall f, In f F -> f < nf) -> (forall f v, In f F -> In v (nth f facets []) -> v < nv) ->
    (forall row f, In row f2e -> In f F -> nth f row 0 < ne) ->
  forall e sidx, e < nt -> sidx < length (tc_facets c) ->
    (forall kd s', att_of (tc_facets c) (tc_edges c) sidx kd s' = true -> s' < nslots t t2e t2f kd ->
       facet_selected facets f2e dim3 F kd (slot_ent t t2e t2f kd s' e)) ->
  forall (ci : nat) (sp : nat -> R) (w w' : nat -> R),
    let D := dofs_init (tc_dim c) (tc_nd c) (tc_ed c) (tc_fd c) (tc_id c) 0 nv ne nf nt t t2e t2f in
    (forall d, In d (flatten D (get_facet_dofs D dofnames offs (tc_nd c) (tc_ed c) (tc_fd c) facets f2e dim3 F [])) -> w d = w' d) ->
    req (trace03 R rO rI radd rmul phi (tc_t c) (tc_dim c) (tc_nd c) (tc_ed c) (tc_fd c) (tc_id c) nv ne nf nt t t2e t2f
                 (nth sidx (t_slots (tc_t c)) dslot) ci sp e w)
        (trace03 R rO rI radd rmul phi (tc_t c) (tc_dim c) (tc_nd c) (tc_ed c) (tc_fd c) (tc_id c) nv ne nf nt t t2e t2f
                 (nth sidx (t_slots (tc_t c)) dslot) ci sp e w').
Proof.
  intros c Hc. destruct (proj1 (Forall_forall _ _) trace_classes_ok c Hc) as [H1 H2]. exact (trace_support_class c H1 H2).
Qed.
Print Assumptions C07_trace_support_every_traced_class.
'''

    def shard_text(k, names):
        body = ''.join(defs[n] for n in names)
        body += f'Definition trace_classes_{k} : list tclass := ' + clist([f'{n}_c' for n in names]) + '.\n'
        body += (f'Lemma trace_classes_{k}_ok : Forall (fun c => tclass_ok c = true /\\ telem_traces_ok (tc_t c) = true) trace_classes_{k}.\nProof.\n'
                 f'  unfold trace_classes_{k}.\n' + ''.join(f'  apply Forall_cons; [split; [exact {n}_c_ok | exact {n}_traces]|].\n' for n in names)
                 + '  apply Forall_nil.\nQed.\n')
        return head + body + (THM.replace('C07_trace_support_every_traced_class', f'C07_trace_support_every_traced_class_{k}')
                              .replace('In c trace_classes ->', f'In c trace_classes_{k} ->')
                              .replace('trace_classes_ok c Hc', f'trace_classes_{k}_ok c Hc'))

    def run_shards(names):
        shards = [names[k::4] for k in range(4) if names[k::4]]
        rels = []
        for k, ns in enumerate(shards):
            ctx.write_gen(f'C07_TraceInst_{k}', shard_text(k, ns))
            rels.append(f'gen/C07_TraceInst_{k}.v')
        res = ctx.coqc_many(rels, timeout=600, jobs=4)
        return shards, rels, res

    good = list(defs)
    shards, rels, res = run_shards(good)
    if not all(res[r][0] for r in rels):
        # some class does not fit: find them one by one, then prove the theorem for the rest
        for n in defs:
            ctx.write_gen(f'C07_TC_{n}', head + defs[n])
        res1 = ctx.coqc_many([f'gen/C07_TC_{n}.v' for n in defs], timeout=300, jobs=4)
        good = [n for n in defs if res1[f'gen/C07_TC_{n}.v'][0]]
        shards, rels, res = run_shards(good)
    skipped = [n for n in defs if n not in good]
    ctx.extra['trace_support_classes'] = good
    ctx.extra['trace_support_classes_not_instantiated'] = skipped
    ctx.log(f'trace_support instantiated for {len(good)} of {len(defs)} traced classes (in {len(rels)} shards); not: {skipped}')
    for ns, rel in zip(shards, rels):
        ok, out, err, secs = res[rel]
        ctx.log(f'coqc {rel}: {"ok" if ok else "FAILED"} ({secs:.1f}s, {len(ns)} classes)')
        k = rel.split('_')[-1][:-2]
        for nm in [f'{n}_c_ok' for n in ns] + [f'trace_classes_{k}_ok', f'C07_trace_support_every_traced_class_{k}']:
            ctx.obligations.append({'name': f'{rel}:{nm}', 'kind': 'generated', 'ok': ok})
        if ok:
            ax = ctx._parse_assumptions(out)
            ctx.assumptions_seen[f'C07_trace_support_every_traced_class_{k}'] = (ax[-1] if ax and ax[-1] else ['<closed under the global context>'])
        else:
            ctx.broke('proof', rel, err[-800:])


def replay(ctx, data):
    """re-run the set-based oracle (closure, names, complement, default) on the recorded mesh and element"""
    from .. import c04_elems as EL
    inp = data['input']
    if data.get('key') == 'retag:default-tags' and 'grid' in inp:
        _check_default_tags(ctx, inp['kind'], inp['grid'], inp.get('ratio', 0))
        return
    if data.get('key') == 'names:vector-component':
        for k in range(3):
            oracle_vector_names(ctx, np_seed(ctx, 7 + k))
        return
    if 'p' not in inp:
        return run(ctx)
    import skfem.element as _E
    table = dict(EL.all_elements(inp['kind'])) if inp['kind'] not in SECOND_ORDER else \
        {'ElementTriP2': _E.ElementTriP2, 'ElementQuad2': _E.ElementQuad2, 'ElementTetP2': _E.ElementTetP2}
    table.update({n: f for k, n, f in _edge_facet_composites()})
    rng = np_seed(ctx, 7)
    c = Context(rng, inp['kind'], inp['element'], table[inp['element']], 0,
                pt=(np.array(inp['p'], dtype=float), np.array(inp['t'])))
    oracle_context(ctx, c, rng)
    dnames = bfun_names(c)
    for f in range(c.m.facets.shape[1]):
        for nm in sorted(set(c.names)):
            got = c.basis.get_dofs(np.array([f], dtype=np.int32)).all([nm]).tolist()
            want = [d for d in sorted(closure_facets(c, [f])) if dnames[d] == nm]
            if got != want:
                ctx.fail(data['key'], f"get_dofs([{f}]).all([{nm!r}]) = {got}, DOFs of that name on the facet's closure: {want}", inp)
    ctx.log('replay', data.get('key'), '->', [f['key'] for f in ctx.failures] or 'no failure on this tree')
