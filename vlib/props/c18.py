"""C18 — mesh surgery keeps geometry valid and carries tags to the same entities.

tie T2 : Gen/C18Gen.v is regenerated from skfem/mesh/mesh.py (_reix, restrict, remove_elements, remove_unused_nodes),
         mesh_quad_1.py (to_meshtri: child templates of both styles, subdomain offsets), mesh_hex_1.py /
         mesh_wedge_1.py (to_meshtet templates) and refdom.py (RefHex / RefWedge coordinates) by the fail-closed
         translator vlib/c18_translate.py; dyn/C18_Tie.v proves the regenerated definitions equal to
         Model.C18_Surgery and the determinant identities / finite facts about the regenerated templates.
tie T3 : the real _reix, restrict (new tags AND the facet table of the restricted mesh), to_meshtri, to_meshtet,
         extrusion on random small meshes vs the model evaluated by vm_compute (exact integers).
proof  : props/C18.v.
oracle : vlib/c18_oracle.py — random chains of operations on random tagged integer-coordinate meshes, exact
         Fraction geometry (validity, measure, cell / facet point sets of tags, index maps, merged vertices).
"""
import traceback

import numpy as np

from .. import c18_oracle as O
from .. import c18_translate as T
from ..c17_meshes import mesh_from_json, mesh_json, rand_mesh1, rand_tags
from ..core import TranslateError, clist, cnat, cnats, cz, np_seed


def cmat_nat(a):
    return clist([cnats(r) for r in np.asarray(a).tolist()])


def cbools(l):
    return clist(['true' if bool(x) else 'false' for x in np.asarray(l).tolist()])


def czs(l):
    return clist([cz(int(x)) for x in l])


# ------------------------------------------------------------------------------ correspondence

def correspondence(ctx, gen_ok):
    import skfem
    rng = np_seed(ctx, 18)
    reix_cases, tag_cases, fac_cases, split_cases, ext_cases, join_cases, carry_cases, remap_cases, vmap_cases, opt_cases = [], [], [], [], [], [], [], [], [], []
    # (a) _reix on arbitrary index matrices
    base = skfem.MeshTri1()
    for k in range(ctx.n(40, 200)):
        nr, nc = int(rng.integers(1, 5)), int(rng.integers(1, 7))
        hi = int(rng.integers(1, 14))
        ix = rng.integers(0, hi + 1, size=(nr, nc))
        p = rng.integers(-9, 10, size=(2, hi + 1)).astype(float)
        m = skfem.MeshTri1(p, np.array([[0], [min(1, hi)], [min(2, hi)]]), validate=False) if hi >= 2 else None
        if m is None:
            continue
        pp, tt, uu = m._reix(ix)
        inp = f'({clist([czs(c) for c in p.T.astype(int).tolist()])}, {cmat_nat(ix)})'
        out = f'({clist([czs(c) for c in pp.T.astype(int).tolist()])}, {cmat_nat(tt)}, {cnats(uu)})'
        reix_cases.append((inp, out, ('reix', nr, nc, len(uu))))
    # (a2) second-order meshes: restrict renumbers all nodes of the kept elements; the vertex map is reduced to the vertices
    for k in range(ctx.n(8, 40)):
        name2 = ['MeshTri2', 'MeshQuad2', 'MeshTet2', 'MeshHex2'][k % 4]
        base2 = rand_mesh1({'MeshTri2': 'MeshTri1', 'MeshQuad2': 'MeshQuad1', 'MeshTet2': 'MeshTet1', 'MeshHex2': 'MeshHex1'}[name2],
                           rng, size=[2, 2] if k % 4 < 2 else [2, 2, 2], integer=True, holes=False)
        m2 = getattr(skfem, name2).from_mesh(base2)
        el = np.sort(rng.choice(m2.t.shape[1], size=int(rng.integers(1, m2.t.shape[1] + 1)), replace=False)).astype(np.int32)
        ed = m2.dofs.element_dofs
        pp, tt, uu = m2._reix(ed[:, el])
        M2, vmap = m2.restrict(el, return_mapping=True)
        p2 = clist([czs(c) for c in np.round(2 * m2.p.T).astype(int).tolist()])
        pp2 = clist([czs(c) for c in np.round(2 * pp.T).astype(int).tolist()])
        reix_cases.append((f'({p2}, {cmat_nat(ed[:, el])})', f'({pp2}, {cmat_nat(tt)}, {cnats(uu)})', ('reix2', name2, len(el), len(uu))))
        vmap_cases.append((f'({cnat(m2.t.shape[0])}, {cmat_nat(ed)}, {cnats(el)})', cnats(vmap), ('vmap', name2, len(el))))
    # (b, c) restrict: new tags and the facet table of the restricted mesh
    for k in range(ctx.n(40, 300)):
        name = ['MeshTri1', 'MeshQuad1', 'MeshTet1', 'MeshHex1'][k % 4]
        size = [2, 3] if k % 4 < 2 else [2, 2, 2]
        if k % 8 < 2:
            size = [3, 3]
        m = rand_mesh1(name, rng, size=size, integer=True)
        sub, bnd = rand_tags(m, rng, oriented=False)
        m = m.with_subdomains(sub).with_boundaries(bnd)
        nt, nf = m.t.shape[1], m.facets.shape[1]
        kk = int(rng.integers(1, nt + 1))
        el = rng.choice(nt, size=kk, replace=False).astype(np.int32)
        if rng.random() < 0.5:
            el = np.sort(el)
        for sb in (False, True):
            for ss in (False, True):
                Mo = m.restrict(el, skip_boundaries=sb, skip_subdomains=ss)
                opt_cases.append((f'({cbools([sb, ss])})', cbools([Mo.boundaries is not None, Mo.subdomains is not None]),
                                  ('options', sb, ss)))
        M = m.restrict(el)
        for nm, s in sub.items():
            tag_cases.append((f'(inl ({cnat(nt)}, {cnats(el)}, {cnats(s)}))', czs(np.asarray(M.subdomains[nm])),
                              ('sub', name, kk, len(s))))
        for nm, b in bnd.items():
            tag_cases.append((f'(inr ({cnat(nf)}, {cmat_nat(m.t2f)}, {cnats(el)}, {cnats(np.asarray(b))}))',
                              czs(np.asarray(M.boundaries[nm])), ('bnd', name, kk, len(b))))
        fac_cases.append((f'({cmat_nat(m.dofs.element_dofs)}, {cmat_nat(m.t2f)}, {cmat_nat(m.facets.T)}, {cnats(el)})',
                          f'({cmat_nat(M.t)}, {cmat_nat(M.facets.T)})', ('facets', name, kk, nt)))
        if k < 2:
            ctx.sample({'kind': 'restrict correspondence', 'class': name, 'elements': el.tolist(),
                        'old_tag': {n: np.asarray(b).tolist() for n, b in bnd.items()},
                        'new_tag_of_impl': {n: np.asarray(b).tolist() for n, b in M.boundaries.items()}})
    # (d) splits
    for k in range(ctx.n(18, 80)):
        q = rand_mesh1('MeshQuad1', rng, size=[2, int(rng.integers(2, 4))], integer=True)
        s = np.sort(rng.choice(q.t.shape[1], size=int(rng.integers(0, q.t.shape[1] + 1)), replace=False)).astype(np.int32)
        q = q.with_subdomains({'s': s})
        if k % 3 == 0:                                   # unused trailing points
            from dataclasses import replace as _replace
            q = _replace(q, doflocs=np.hstack((q.p, 50.0 + rng.integers(0, 9, size=(2, int(rng.integers(1, 4)))))))
        for style, tag in ((None, 0), ('x', 1)):
            M = q.to_meshtri(style=style)
            split_cases.append((f'(inl ({cnat(tag)}, ({cnat(q.p.shape[1])}, {cnat(int(q.t.max()) + 1)}), {cmat_nat(q.t)}, {cnats(s)}))',
                                f'({cmat_nat(M.t)}, {cnats(np.asarray(M.subdomains["s"]))})',
                                ('to_meshtri', style, q.t.shape[1])))
        h = rand_mesh1('MeshHex1', rng, size=[2, 2, int(rng.integers(2, 4))], integer=True)
        split_cases.append((f'(inr ({cnat(0)}, {cmat_nat(h.t)}))', f'({cmat_nat(h.to_meshtet().t)}, [])',
                            ('hex_to_meshtet', None, h.t.shape[1])))
        tr = rand_mesh1('MeshTri1', rng, size=[2, int(rng.integers(2, 4))], integer=True, holes=False)
        if k % 2:                                        # unused trailing points: the layers are shifted by p.shape[1]
            from dataclasses import replace as _rep
            tr = _rep(tr, doflocs=np.hstack((tr.p, 70.0 + rng.integers(0, 9, size=(2, int(rng.integers(1, 3)))))))
        line, lcells = O.rand_line(rng)
        w = tr * line
        lev, isc = line._intervals()
        ext_cases.append((f'({cnat(tr.p.shape[1])}, {cnats(line.p[0].astype(int))}, {cnats(line.t[0])}, {cnats(line.t[1])}, {cmat_nat(tr.t)})',
                          f'({cnats(lev.astype(int))}, {cbools(isc)}, {cmat_nat(w.t)})', ('extrude', len(lcells), tr.t.shape[1])))
        split_cases.append((f'(inr ({cnat(1)}, {cmat_nat(w.t)}))', f'({cmat_nat(w.to_meshtet().t)}, [])',
                            ('wedge_to_meshtet', None, w.t.shape[1])))
    # (e) join, remove_duplicate_nodes, facet carry-over of to_meshtri
    def zcols(p):
        return clist([czs(c) for c in np.asarray(p).T.astype(int).tolist()])
    for k in range(ctx.n(24, 100)):
        name = ['MeshTri1', 'MeshQuad1', 'MeshTet1', 'MeshHex1'][k % 4]
        m1 = rand_mesh1(name, rng, size=[2, 3] if k % 4 < 2 else [2, 2, 2], integer=True)
        ax = int(rng.integers(0, m1.p.shape[0]))
        dv = [0.0] * m1.p.shape[0]
        dv[ax] = float(m1.p[ax].max() - m1.p[ax].min())
        m2 = m1.translated(dv) if k % 3 else m1.mirrored(tuple(float(d == ax) for d in range(m1.p.shape[0])),
                                                         tuple(float(m1.p[ax].max()) if d == ax else 0.0
                                                               for d in range(m1.p.shape[0])))
        M = m1 + m2
        srt = 1 if name == 'MeshTri1' else 0
        join_cases.append((f'(inl ({cnat(srt)}, {zcols(m1.p)}, {zcols(m2.p)}, {cmat_nat(m1.t)}, {cmat_nat(m2.t)}))',
                           f'({zcols(M.p)}, {cmat_nat(M.t)})', ('join', name, int(M.p.shape[1]), int(m1.p.shape[1]))))
        pd, td = O.with_duplicates(m1, rng)
        md = type(m1)(pd, td)
        Md = md.remove_duplicate_nodes()
        join_cases.append((f'(inr ({cnat(srt)}, {zcols(md.p)}, {cmat_nat(md.t)}))', f'({zcols(Md.p)}, {cmat_nat(Md.t)})',
                           ('dedupe', name, int(Md.p.shape[1]), int(md.p.shape[1]))))
    # (f) remove_duplicate_nodes: remapping of plain and oriented named boundaries
    def cmat_z(a):
        return clist([czs(r) for r in np.asarray(a).tolist()])
    for k in range(ctx.n(16, 80)):
        name = ['MeshTri1', 'MeshQuad1', 'MeshTet1', 'MeshHex1'][k % 4]
        m1 = rand_mesh1(name, rng, size=[2, 3] if k % 4 < 2 else [2, 2, 2], integer=True)
        pd, td = O.with_duplicates(m1, rng)
        md = type(m1)(pd, td)
        _, bnd = rand_tags(md, rng, oriented=True)
        md = md.with_boundaries(bnd)
        M = md.remove_duplicate_nodes()
        tbl = (f'{cnat(md.t2f.shape[0])}, {zcols(md.p)}, {cmat_nat(md.t)}, {cmat_nat(md.facets.T)}, {cmat_z(md.f2t)}, '
               f'{cmat_nat(M.facets.T)}, {cmat_nat(M.t2f)}, {czs(M.f2t[1])}')
        for nm, b in bnd.items():
            o = getattr(b, 'ori', None)
            g = M.boundaries[nm]
            go = getattr(g, 'ori', None)
            remap_cases.append((f'({tbl}, {cnats(np.asarray(b))}, {"None" if o is None else "Some " + cbools(o)})',
                                f'({cnats(np.asarray(g))}, {"None" if go is None else "Some " + cbools(go)})',
                                ('remap', name, len(b), o is not None)))
    # (g) m0 @ [m1, m2, m3]: a list of meshes of different types over one merged point table
    mm_cases = []
    for k in range(ctx.n(8, 30)):
        ms = [rand_mesh1(nm, rng, size=[2, 2], integer=True, holes=False) for nm in
              (['MeshTri1', 'MeshQuad1', 'MeshTri1', 'MeshQuad1'] if k % 2 else ['MeshQuad1', 'MeshTri1', 'MeshQuad1'])]
        ms = [m.translated((float(2 * i * (k % 3)), 0.0)) for i, m in enumerate(ms)]
        out = ms[0] @ ms[1:]
        j = int(rng.integers(0, len(ms)))
        srt = 1 if type(ms[j]).__name__ == 'MeshTri1' else 0
        mm_cases.append((f'({cnat(srt)}, {clist([zcols(m.p) for m in ms])}, {cnat(j)}, {cmat_nat(ms[j].t)})',
                         f'({zcols(out[j].p)}, {cmat_nat(out[j].t)})', ('matmul', len(ms), j)))
    from skfem.generic_utils import OrientedBoundary
    for k in range(ctx.n(16, 60)):
        q = rand_mesh1('MeshQuad1', rng, size=[2, int(rng.integers(2, 4))], integer=True)
        nf = q.facets.shape[1]
        b = rng.choice(nf, size=int(rng.integers(0, nf + 1)), replace=False).astype(np.int32)
        if len(b) and k % 2:
            b = np.concatenate([b, b[:2]])                      # repeated entries
        ori = rng.integers(0, 2, size=len(b))
        ori[q.f2t[1, b] == -1] = 0
        q = q.with_boundaries({'b': b, 'o': OrientedBoundary(b, ori)})
        for style in (None, 'x'):
            M = q.to_meshtri(style=style)
            tbl = f'{cnat(M.p.shape[1])}, {cmat_nat(q.facets.T)}, {cmat_nat(M.facets.T)}'
            carry_cases.append((f'(inl ({tbl}, {cnats(b)}))', f'({cnats(np.asarray(M.boundaries["b"]))}, [])',
                                ('carry', style, len(b))))
            go = M.boundaries['o']
            carry_cases.append((f'(inr ({tbl}, {cnat(q.t.shape[1])}, {cmat_z(q.f2t)}, {cnats(M.f2t[0])}, {cnats(b)}, {cbools(ori)}))',
                                f'({cnats(np.asarray(go))}, {cbools(go.ori)})', ('carry-oriented', style, len(b))))
    if not gen_ok:
        return
    imp = 'Require Import Model.C18_Surgery Gen.C18Gen.\nFrom Coq Require Import List Arith Bool ZArith.'
    defs = '''
Definition zmat_eqb := list_eqb zs_eqb.
Definition reix_out_eqb (a b : list (list Z) * mat nat * list nat) : bool :=
  zmat_eqb (fst (fst a)) (fst (fst b)) && natss_eqb (snd (fst a)) (snd (fst b)) && nats_eqb (snd a) (snd b).
Definition reix_all (c : list (list Z) * mat nat) : list (list Z) * mat nat * list nat :=
  let '(p, ix) := c in (gen_reix_p [] p ix, gen_reix_t ix, gen_reix_uniq ix).
Definition retag (c : (nat * list nat * list nat) + (nat * mat nat * list nat * list nat)) : list Z :=
  match c with
  | inl (nt, el, s) => gen_restrict_subdomain nt el s
  | inr (nf, t2f, el, b) => gen_restrict_boundary nf t2f el b
  end.
Definition restricted (c : mat nat * mat nat * mat nat * list nat) : mat nat * mat nat :=
  let '(t, t2f, F, el) := c in
  let ix := gen_restrict_ix 0 t el in
  (gen_reix_t ix, relabel_facets F (kept_facets t2f el) (gen_reix_table ix)).
Definition split (c : (nat * (nat * nat) * mat nat * list nat) + (nat * mat nat)) : mat nat * list nat :=
  match c with
  | inl (0, nv, t, s) => (sort_cols (2 * length (nth 0 t [])) (split_rows t gen_quad_split),
                          split_subdomain (length (nth 0 t [])) (length gen_quad_sub_offsets) s)
  | inl (_, nv, t, s) => let nt := length (nth 0 t []) in
                         (sort_cols (4 * nt) (split_rows t gen_quad_split_x ++ [centre_row (gen_quad_x_base (fst nv) (snd nv)) nt 4]),
                          split_subdomain nt (length gen_quad_sub_offsets_x) s)
  | inr (0, t) => (split_rows t gen_hex_split, [])
  | inr (_, t) => (split_rows t gen_wedge_split, [])
  end.
Definition opts (c : list bool) : list bool :=
  let sb := nth 0 c false in let ss := nth 1 c false in
  [gen_restrict_keeps_boundaries sb ss; gen_restrict_keeps_subdomains sb ss].
Definition vmap (c : nat * mat nat * list nat) : list nat :=
  let '(M, edofs, el) := c in gen_restrict_vertex_map M (gen_restrict_ix 0 edofs el).
Definition extr (c : nat * list nat * list nat * list nat * mat nat) : list nat * list bool * mat nat :=
  let '(nv, pz, t0, t1, t) := c in
  (gen_line_levels pz t0 t1, gen_line_iscell pz t0 t1, gen_extrude_t nv (gen_line_iscell pz t0 t1) t).
Definition extr_eqb (a b : list nat * list bool * mat nat) : bool :=
  nats_eqb (fst (fst a)) (fst (fst b)) && list_eqb Bool.eqb (snd (fst a)) (snd (fst b)) && natss_eqb (snd a) (snd b).
Definition keys_eqb := list_eqb zs_eqb.
Definition maybe_sort (srt : nat) (t : mat nat) : mat nat :=
  match srt with 0 => t | _ => sort_cols (length (nth 0 t [])) t end.
Definition joined (c : (nat * list key * list key * mat nat * mat nat) + (nat * list key * mat nat)) : list key * mat nat :=
  match c with
  | inl (srt, p1, p2, t1, t2) => (gen_join_p p1 p2, maybe_sort srt (gen_join_t p1 p2 t1 t2))
  | inr (srt, p, t) => (gen_dedupe_p p, maybe_sort srt (gen_dedupe_t p t))
  end.
Definition remapped (c : nat * list key * mat nat * mat nat * mat Z * mat nat * mat nat * list Z * list nat * option (list bool))
  : list nat * option (list bool) :=
  let '(ns, p, t, F, f2t, F', t2f', f2t1', ixs, ori) := c in
  let newp := gen_remap_newp (length p) t (gen_dedupe_t p t) in
  let nf := gen_remap_newf sort_nat ns newp F F' t2f' (map Z.to_nat (nth 0 f2t [])) in
  gen_remap_tag nf f2t f2t1' ixs ori.
Definition matmul (c : nat * list (list key) * nat * mat nat) : list key * mat nat :=
  let '(srt, ps, j, t) := c in
  (gen_dedupe_p (concat ps),
   maybe_sort srt (gen_dedupe_t (concat ps) (map (map (fun v => v + gen_matmul_offset (map (@length key) ps) j)) t))).
Definition carry (c : (nat * mat nat * mat nat * list nat) +
                      (nat * mat nat * mat nat * nat * mat Z * list nat * list nat * list bool)) : list nat * list bool :=
  match c with
  | inl (nv, OF, NF, b) => (gen_carry_boundary nv OF NF b, [])
  | inr (nv, OF, NF, nt, f2t, f2t0', b, ori) => gen_carry_oriented nv nt OF NF f2t f2t0' b ori
  end.
'''
    jobs = [
        lambda: ctx.corr('reix', imp, 'reix_all', 'reix_out_eqb', reix_cases, defs=defs, nontrivial=lambda r: r[3] >= 2),
        lambda: ctx.corr('restrict_tags', imp, 'retag', 'zs_eqb', tag_cases, defs=defs, nontrivial=lambda r: r[3] >= 1),
        lambda: ctx.corr('restricted_t_and_facets', imp, 'restricted', '(pair_eqb natss_eqb natss_eqb)', fac_cases,
                         defs=defs, nontrivial=lambda r: 2 <= r[2]),
        lambda: ctx.corr('splits', imp, 'split', '(pair_eqb natss_eqb nats_eqb)', split_cases, defs=defs,
                         nontrivial=lambda r: r[2] >= 2),
        lambda: ctx.corr('restrict_options', imp, 'opts', '(list_eqb Bool.eqb)', opt_cases, defs=defs, nontrivial=lambda r: r[1] or r[2]),
        lambda: ctx.corr('restrict_vertex_map', imp, 'vmap', 'nats_eqb', vmap_cases, defs=defs, nontrivial=lambda r: r[2] >= 2),
        lambda: ctx.corr('extrude', imp, 'extr', 'extr_eqb', ext_cases, defs=defs, nontrivial=lambda r: r[1] >= 2),
        lambda: ctx.corr('join_and_dedupe', imp, 'joined', '(pair_eqb keys_eqb natss_eqb)', join_cases, defs=defs,
                         nontrivial=lambda r: r[2] < 2 * r[3] if r[0] == 'join' else r[2] < r[3]),
        lambda: ctx.corr('remove_duplicate_nodes_boundaries', imp, 'remapped',
                         '(pair_eqb nats_eqb (option_eqb (list_eqb Bool.eqb)))', remap_cases, defs=defs,
                         nontrivial=lambda r: r[2] >= 2),
        lambda: ctx.corr('matmul_list', imp, 'matmul', '(pair_eqb keys_eqb natss_eqb)', mm_cases, defs=defs,
                         nontrivial=lambda r: r[2] >= 2),
        lambda: ctx.corr('to_meshtri_boundaries', imp, 'carry', '(pair_eqb nats_eqb (list_eqb Bool.eqb))', carry_cases, defs=defs,
                         nontrivial=lambda r: r[2] >= 2),
    ]
    from concurrent.futures import ThreadPoolExecutor
    with ThreadPoolExecutor(4) as ex:                  # the coqc runs are independent processes
        list(ex.map(lambda j: j(), jobs))


# ------------------------------------------------------------------------------ oracle

def run_op(ctx, op, m, rng):
    """apply one operation with its checks; returns the result mesh (None when the chain must stop)"""
    name = type(m).__name__ if not isinstance(m, list) else 'list'
    state = rng.bit_generator.state
    try:
        M, info = op(m, rng)
    except O.Fail as e:
        key = f'{e.what}:{name}'
        ctx.fail(key, f'{op.__name__[3:]} on a {name}: {e.what} ({e.detail})',
                 {'mesh': _mj(m), 'op': op.__name__, 'rng_state': _state_json(state), 'detail': str(e.detail)})
        return None
    except Exception as e:                                # noqa: BLE001 — an exception IS a failing input
        tb = traceback.format_exc()
        key = f'exception:{op.__name__[3:]}:{name}:{type(e).__name__}'
        ctx.fail(key, f'{op.__name__[3:]} on a {name} raises {type(e).__name__}: {e}',
                 {'mesh': _mj(m), 'op': op.__name__, 'rng_state': _state_json(state), 'traceback': tb[-1500:],
                  'boundary_dtypes': {} if isinstance(m, list) else
                  {k: str(np.asarray(b).dtype) for k, b in (m.boundaries or {}).items()}})
        return None
    ctx.count((op.__name__, _mj(m), info), nontrivial=True)
    ctx.hist('operation', op.__name__[3:])
    return M


def _mj(m):
    return [mesh_json(x) for x in m] if isinstance(m, list) else mesh_json(m)


def _state_json(st):
    return {'bit_generator': st['bit_generator'], 'state': {k: int(v) for k, v in st['state'].items()},
            'has_uint32': int(st['has_uint32']), 'uinteger': int(st['uinteger'])}


def oracle(ctx):
    rng = np_seed(ctx, 81)
    nchains = ctx.n(400, 8000)
    for it in range(nchains):
        name = ['MeshTri1', 'MeshQuad1', 'MeshTet1', 'MeshHex1'][it % 4]
        m = O.tagged_mesh(name, rng)
        ctx.hist('start_class', name)
        for step in range(int(rng.integers(1, 5))):
            ops = O.OPS.get(type(m).__name__)
            if not ops:
                break
            op = ops[int(rng.integers(0, len(ops)))]
            M = run_op(ctx, op, m, rng)
            if M is None:
                break
            if M.subdomains is None and M.boundaries is None and type(M).__name__ in O.OPS \
                    and type(M).__name__ != 'MeshWedge1':
                sub, bnd = rand_tags(M, rng, oriented=False)
                M = M.with_subdomains(sub).with_boundaries(bnd)
            m = M
        ctx.hist('chain_length', step + 1)
    regressions(ctx, rng)
    # an empty named boundary through to_meshtri and on into restrict (a composition the random chains hit rarely)
    import skfem
    q = skfem.MeshQuad1().refined(1).with_boundaries({'none': np.array([], dtype=np.int32), 'left': lambda x: x[0] == 0})
    M = run_op(ctx, O.op_to_meshtri, q, rng)
    if M is not None:
        run_op(ctx, O.op_restrict, M, rng)


def regressions(ctx, rng):
    """inputs of repaired defects that random chains reach rarely"""
    import skfem
    # public call forms that forward to the core (coverage audit)
    run_op(ctx, O.op_constructors, O.tagged_mesh('MeshTri1', rng), rng)
    for it in range(ctx.n(4, 16)):
        mm = O.tagged_mesh(['MeshTri1', 'MeshQuad1', 'MeshTet1', 'MeshHex1'][it % 4], rng, holes=False)
        run_op(ctx, O.op_selector_forms, mm, rng)
        run_op(ctx, O.op_trace, mm, rng)                     # unsorted / repeated explicit facet arrays
        run_op(ctx, O.op_rmatmul_trace, mm, rng)
        run_op(ctx, O.op_line_surgery, mm, rng)
    # keys of the facet lookup of to_meshtri beyond 2^31 (one mesh with 48400 points; about 0.5 s)
    run_op(ctx, O.op_to_meshtri_large, O.tagged_mesh('MeshQuad1', rng), rng)
    for it in range(ctx.n(6, 30)):
        # m0 @ [m1, m2, m3]
        ms = [O.tagged_mesh(nm, rng, holes=False, size=[2, 2]) for nm in ('MeshTri1', 'MeshQuad1', 'MeshTri1', 'MeshQuad1')]
        run_op(ctx, O.op_matmul_list, ms, rng)
        # integer / NumPy scalar factors
        m = O.tagged_mesh(['MeshTri1', 'MeshQuad1', 'MeshTet1', 'MeshHex1'][it % 4], rng)
        run_op(ctx, O.op_scaled_scalar, m, rng)
        # unused trailing points through to_meshtri('x')
        q = O.tagged_mesh('MeshQuad1', rng)
        run_op(ctx, O.op_to_meshtri_unused, q, rng)
        # second-order meshes through restrict / remove_unused_nodes
        b = O.tagged_mesh(['MeshTri1', 'MeshQuad1', 'MeshTet1', 'MeshHex1'][it % 4], rng, holes=False,
                          size=[2, 3] if it % 4 < 2 else [2, 2, 2])
        run_op(ctx, O.op_second_order, b, rng)
        # + and @ with a left operand that has unused trailing points
        run_op(ctx, O.op_join_unused_left, O.tagged_mesh(['MeshTri1', 'MeshQuad1', 'MeshTet1', 'MeshHex1'][it % 4], rng, holes=False), rng)
        # second-order + / remove_duplicate_nodes; products of line meshes
        run_op(ctx, O.op_join_second_order, O.tagged_mesh(['MeshTri1', 'MeshQuad1', 'MeshTet1', 'MeshHex1'][it % 4], rng,
                                                          holes=False, size=[2, 2] if it % 4 < 2 else [2, 2, 2]), rng)
        run_op(ctx, O.op_line_product, O.tagged_mesh('MeshTri1', rng, holes=False), rng)
        # extrusion of a mesh with unused trailing points
        run_op(ctx, O.op_extrude_unused, O.tagged_mesh('MeshTri1', rng, holes=False), rng)


# ------------------------------------------------------------------------------ the check

def run(ctx):
    ctx.trusted += ['NumPy semantics of unique, fancy-index assignment, intersect1d/setdiff1d, hstack/vstack (modelled; '
                    'corresponded on every run)',
                    'exact Fraction geometry of the oracle (vlib/c18_geom.py)']
    ctx.assumptions += ['restrict_boundaries_order takes as hypothesis that facet tables are strictly increasing in '
                        'lexicographic order and hold exactly the facets of the cells (what Mesh.build_entities builds via '
                        'np.unique(axis=1); property C11) — the predicted facet table is compared with the real one of every '
                        'restricted mesh of the correspondence run',
                        'element lists passed to restrict are duplicate-free and in range',
                        'measure theorems for hexahedra / prisms cover affine images of the reference cell; mirrored is '
                        'stated for the exact reflection with the normal as given (the code normalises it in floating point)',
                        'join (+, @) and remove_duplicate_nodes have no theorem: oracle only']
    ctx.cov['rule'] = ('correspondence: arbitrary random index matrices for _reix; random tensor meshes (tri/quad/tet/hex, random '
                       'relabelling, cell order, removed cells) x random cell subsets in random order x random tags for restrict; '
                       'random quad/hex/prism meshes for the splits; oracle: random chains (1-4 operations) over restrict, '
                       'remove_elements, scaled/translated/mirrored/morphed, join (+, @), to_meshtri (both styles), to_meshtet, '
                       'extrusion, remove_unused_nodes, remove_duplicate_nodes, oriented on integer-coordinate meshes with exact '
                       'Fraction geometry; non-trivial = at least two cells; distinct by content hash')
    ctx.ensure_static()
    txt, errors = T.translate()
    for name, err in errors:
        ctx.broke('translator', 'c18_translate: ' + name, err)
    ctx.write_gen('C18Gen', txt)
    gen_ok = not errors
    ctx.compile_dyn(['gen/C18Gen.v'] + ctx.copy_dyn())
    ctx.prove()
    from ..c17_cov import Recorder
    rec = Recorder()
    rec.__enter__()
    try:
        correspondence(ctx, gen_ok)
    except Exception as e:      # noqa: BLE001 — the implementation raised while the cases were generated: the oracle
        import traceback        # below looks for the concrete input; the tie is reported as broken in any case
        ctx.broke('correspondence', f'case generation raised {type(e).__name__}', traceback.format_exc())
    try:
        oracle(ctx)
    finally:
        rec.__exit__()
    ctx.extra['api_coverage'] = rec.table(API_NOTES)


API_NOTES = {
             'draw': 'visualisation: out of scope',
             'plot': 'visualisation: out of scope',
             'element_finder': 'point location: property C14',
             'mapping': 'reference mapping: property C10',
             'p2e': 'incidence table: property C11',
             'p2f': 'incidence table: property C11',
             'p2t': 'incidence table: property C11',
             'e2t': 'incidence table: property C11',
             'f2e': 'derived connectivity: property C11',
             'boundary_edges': 'derived connectivity: property C11',
             'interior_edges': 'derived connectivity: property C11',
             'boundary_nodes': 'derived connectivity: property C11',
             'interior_nodes': 'derived connectivity: property C11',
             'edges_satisfying': 'selector on edges: property C07/C11',
             'nodes_satisfying': 'selector on nodes: property C07',
             'normalize_nodes': 'selector on nodes: property C07',
             'param': 'mesh parameter: not part of the statement',
             'params': 'mesh parameter: not part of the statement',
             'hash_args': 'cache key: property C15',
             'deprecated': 'decorator: out of scope',
             'smoothed': 'moves interior vertices, not one of the operations of the statement',
             'brefdom': 'accessor',
             'periodic': 'MeshDG constructor: periodic meshes are not among the classes of the statement',
             'init_tensor': 'constructor (used to build the test meshes)',
             'strip_extra_coordinates': 'exercised by the 2-D vtk/vtu round trips',
             'is_valid': 'validation helper (the oracle validates independently)',
             '__iter__': 'p, t = mesh: accessor',
             'load': 'MeshDG.load / save raise NotImplementedError by design',
             'save': 'MeshDG.load / save raise NotImplementedError by design'}

API_NOTES.update({n: 'save / load: exercised by the check of property C17' for n in ['from_file', 'to_file', 'from_meshio', 'to_meshio', 'from_dict', 'to_dict', 'load', 'save', 'load_npz', 'save_npz', 'strip_extra_coordinates', 'refdom']})


def replay(ctx, data):
    ctx.log('replaying', data.get('key'))
    inp = data['input']
    m = [mesh_from_json(x) for x in inp['mesh']] if isinstance(inp['mesh'], list) else mesh_from_json(inp['mesh'])
    if inp.get('boundary_dtypes') and not isinstance(m, list) and m.boundaries is not None:
        from dataclasses import replace
        m = replace(m, _boundaries={k: np.asarray(v).astype(inp['boundary_dtypes'].get(k, 'int32'))
                                    for k, v in m.boundaries.items()})
    rng = np.random.default_rng(0)
    st = inp['rng_state']
    rng.bit_generator.state = {'bit_generator': st['bit_generator'], 'state': st['state'],
                               'has_uint32': st['has_uint32'], 'uinteger': st['uinteger']}
    run_op(ctx, getattr(O, inp['op']), m, rng)
