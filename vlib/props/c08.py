"""C08 — quadrature rules deliver their advertised degree on every reference cell.

tie T1 : the complete behaviour of skfem.quadrature.get_quadrature(refdom, n), n in [-2, N(cell)], is
         obtained by CALLING it; every binary64 is written as its exact dyadic value (Gen/C08_Data_*.v).
proof  : per rule, Coq decides over Z (common denominators, power tables) that every monomial of the
         advertised degree is integrated to within 2^-45 (internally sharper), that the nodes lie in the
         closed cell; soundness of the decision w.r.t. the statement over Q is proved once
         (Proofs.C08_RulesProofs).  Quadrilateral / hexahedron / prism rules are shown to be the tensor
         product of the segment / triangle rules up to rounding of the weights and inherit exactness from
         the unbounded theorem tensor_rule_exact_eps (Proofs.C08_TensorProofs).  Gen/C08_All.v assembles the
         behaviour table and proves it entry by entry; props/C08.v states the property.
oracle : the same statement in exact integer arithmetic in Python on the rule the code returned; it is the
         failing-input search and predicts which obligations are refuted (those become ``refuted_*`` lemmas).
"""
import os
from fractions import Fraction

import numpy as np

from .. import c08_dump as D
from .. import c08_gen as G
from .. import c08_oracle as O
from ..core import scan_forbidden

TOL45 = Fraction(1, 2 ** 45)
DELTAV = Fraction(1, 2 ** 50)
GRID = 2 ** 52          # internal tolerances are multiples of 2^-52


def ceil_grid(x):
    """smallest multiple of 2^-52 that is >= x (and > 0)"""
    k = -((-Fraction(x) * GRID) // 1)
    return Fraction(max(int(k), 1), GRID)


def qlit(fr):
    return f'({fr.numerator} # {fr.denominator})'
MAX_DIRECT_SECONDS = 150.0


# ------------------------------------------------------------------------------ helpers

def compile_parallel(ctx, rels, timeout=600):
    """like Ctx.compile_dyn but for independent files, in parallel"""
    okall = True
    todo = []
    for rel in rels:
        bad = scan_forbidden([os.path.join(ctx.bdir, rel)])
        if bad:
            ctx.broken.append({'kind': 'proof', 'name': rel, 'detail': 'forbidden construct: ' + '; '.join(bad)})
            okall = False
        else:
            todo.append(rel)
    res = ctx.coqc_many(todo, timeout)
    failed = []
    for rel in todo:
        ok, out, err, secs = res[rel]
        txt = open(os.path.join(ctx.bdir, rel)).read()
        names = [m.group(2) for m in ctx._thm_re.finditer(txt)]
        failed_at = None
        if not ok:
            okall = False
            failed_at = ctx._failing_theorem(txt, err)
            ctx.broken.append({'kind': 'proof', 'name': f'{rel}:{failed_at or "?"}', 'detail': err[-1500:]})
            failed.append((rel, failed_at))
            ctx.log(f'coqc {rel}: FAILED at {failed_at} ({secs:.1f}s)')
        seen = False
        for nm in names:
            if not ok and (failed_at is None or nm == failed_at):
                seen = True
            ctx.obligations.append({'name': f'{rel}:{nm}', 'kind': 'generated', 'ok': ok or not seen})
    tt = sorted((res[r][3] for r in todo), reverse=True)
    ctx.log(f'coqc {len(todo)} files in parallel: {"ok" if okall else "FAILED"} (slowest {tt[0] if tt else 0:.1f}s, sum {sum(tt):.0f}s)')
    return okall, failed


def tie_shapes(ctx):
    """T1 tie of Model.C08_Rules.cshape with refdom.py: the vertices of each reference cell are exactly
    the vertices of the product of unit simplices the model integrates over"""
    import itertools
    for cell in D.CELLS:
        shape = D.SHAPE[cell]
        fac = [[tuple([0] * d)] + [tuple(1 if j == i else 0 for j in range(d)) for i in range(d)] for d in shape]
        want = sorted(sum(c, ()) for c in itertools.product(*fac))
        p = np.asarray(D.refdom(cell).p, dtype=float)
        if cell == 'RefPoint':
            ok = p.size == 1 and float(p.flat[0]) == 0.0
            got = p.tolist()
        else:
            got = sorted(tuple(float(v) for v in col) for col in p.T)
            ok = p.shape[0] == sum(shape) and got == [tuple(float(v) for v in w) for w in want]
        if not ok:
            ctx.broke('translator', f'refdom.{cell}.p', f'vertices {got} are not those of the product of unit simplices {shape}')


def tensor_close(dC, d1, d2):
    """Python mirror of Model.C08_Rules.tensor_check on the exact values"""
    T = [(p1 + p2, w1 * w2) for p1, w1 in d1.nodes for p2, w2 in d2.nodes]
    if len(T) != len(dC.nodes):
        return False, None
    tot = Fraction(0)
    for (pc, wc), (pt, wt) in zip(dC.nodes, T):
        if pc != pt:
            return False, None
        tot += abs(wc - wt)
    return tot <= DELTAV, tot


# ------------------------------------------------------------------------------ the check

def run(ctx):
    ctx.trusted += ['thorough tier: coqchk re-checks all modules except the generated Gen.C08_Chk_* (pure VM computations, which the '
                    'independent checker can only replay by lazy reduction); those are checked by the coqc kernel only',
                    'the closed form a!b!c!/(a+b+c+d)! (Dirichlet) for the integral of a monomial over the unit d-simplex '
                    'and Fubini for product cells are taken as the definition of the exact integral (Model.C08_Rules.exactQ)',
                    'Python Fraction(float) / float.hex as the exact value of a binary64 (dump of the rules)',
                    'numpy.polynomial.legendre.leggauss is executed, not modelled: segment rules are verified for the '
                    'orders actually dumped (bound stated in the theorem)']
    ctx.assumptions += ['orders are checked for n in [-2, N(cell)] (N stated in Gen.C08_All.nmax and in the evidence); '
                        'tabulated cells raise beyond their last table, which the oracle samples up to n = 10^6',
                        'exactness means |sum_q w_q x_q^a - integral| <= 2^-45 (the rules are binary64 numbers)']
    ctx.cov['rule'] = ('every (reference cell, order) pair with order in [-2, N(cell)]: exhaustive; every monomial of the advertised '
                       'degree (total degree per simplex factor) is evaluated exactly in Coq; the Python oracle repeats it in '
                       'exact integers (exhaustively when #monomials*#nodes <= 4e5, else extreme + sampled monomials); '
                       'non-trivial = the call returned a rule (not Raises) and the monomial has positive degree')
    ctx.ensure_static()
    tie_shapes(ctx)

    # ---- 1. T1: dump the behaviour of the real function
    dumps = D.dump_all(ctx.tier)
    nm = D.nmax(ctx.tier)
    kx = D.common_kx(dumps)
    ints = {}
    for key, d in dumps.items():
        if d.kind == 'rule' and len(d.nodes) <= D.MAX_POINTS:
            ints[key] = D.as_ints(d, kx)
    ctx.extra['orders_checked'] = {c: [D.NMIN, nm[c]] for c in D.CELLS}
    ctx.extra['raising_orders'] = {c: [n for (cc, n), d in sorted(dumps.items()) if cc == c and d.kind == 'raises'] for c in D.CELLS}
    ctx.extra['node_scale_bits'] = kx

    # ---- 2. oracle on every dumped rule
    status = {}      # key -> 'raises' | 'ok' | 'bad' | 'invalid' | 'oversize'
    audits = {}
    worst_all = {}
    evalcache = {}   # (cell, rule content) -> evaluation at the largest order that returned this rule
    for key, d in sorted(dumps.items(), key=lambda kv: (kv[0][0], -kv[0][1])):
        cell, n = key
        ctx.hist('behaviour:' + cell, d.kind if d.kind != 'rule' else f'rule({len(d.nodes)} nodes)')
        if d.kind == 'raises':
            status[key] = 'raises'
            if d.exc != 'NotImplementedError':
                ctx.hist('exception', d.exc)
            ctx.count(('raises', cell, n), nontrivial=False)
            continue
        if d.kind == 'invalid':
            status[key] = 'invalid'
            ctx.fail(d.key, f'get_quadrature({cell}, {n}) returned a malformed rule: {d.why}', {'cell': cell, 'order': n, 'why': d.why})
            continue
        _alias_fail(ctx, d)
        nadv = max(n, 0)
        ck = (cell, tuple(d.nodes))
        if ck not in evalcache:        # orders are visited from the largest down
            if key in ints:
                nodes_int, kw = ints[key]
                evalcache[ck] = O.evaluate(d, nodes_int, kx, kw, nadv, rng=ctx.rng, budget=ctx.n(400000, 600000))
            else:
                kxx = max(x.denominator.bit_length() - 1 for p, _ in d.nodes for x in p)
                nodes_int, kw = D.as_ints(d, kxx)
                evalcache[ck] = O.evaluate(d, nodes_int, kxx, kw, nadv, rng=None, budget=1)
        a = O.verdict(cell, nadv, *evalcache[ck])
        audits[key] = a
        for es, z, df in evalcache[ck][0]:
            if O.deg_ok(D.SHAPE[cell], nadv, es):
                ctx.count((cell, n, es), nontrivial=sum(es) > 0)
        worst_all[cell] = max(worst_all.get(cell, 0.0), float(a['worst']))
        if a['ok']:
            status[key] = 'ok' if key in ints else 'oversize'
        else:
            status[key] = 'bad'
            _report(ctx, d, a, nadv)
    ctx.extra['max_defect_observed_per_cell'] = worst_all
    ctx.extra['tolerance'] = 2.0 ** -45
    for key in [k for k, s in status.items() if s == 'oversize']:
        ctx.broke('translator', f'rule {key[0]} order {key[1]}', f'{len(dumps[key].nodes)} nodes: too large to be written out; cannot be verified')
    nbad = sum(1 for s in status.values() if s in ('bad', 'invalid'))
    # rules the oracle rejects are written out only when small (for the refutation lemma)
    for key in [k for k, st in status.items() if st == 'bad' and k in ints and len(ints[k][0]) > 2000]:
        del ints[key]
    ctx.log(f'dumped {len(dumps)} calls: {sum(1 for s in status.values() if s == "raises")} raise, '
            f'{sum(1 for s in status.values() if s == "ok")} rules pass the oracle, {nbad} fail')
    for (cell, n), d in sorted(dumps.items()):
        if d.kind == 'rule' and len(ctx.cov['samples']) < 4 and n in (3, 7):
            a = audits[(cell, n)]
            ctx.sample({'call': f'get_quadrature({cell}, {n})', 'nodes': len(d.nodes), 'first_node': [x.numerator / x.denominator for x in d.nodes[0][0]],
                        'first_weight_exact': f'{d.nodes[0][1].numerator}/2^{d.nodes[0][1].denominator.bit_length() - 1}',
                        'max_defect': float(a['worst']), 'at_monomial': a['worst_mono'], 'monomials': a['evaluated']})

    # ---- 3. plan and write the Coq files
    known = ctx.known.findings.get('C08', {})
    plan = _plan(ctx, dumps, ints, status, known, audits)
    files = _write(ctx, dumps, ints, status, plan, kx, nm, audits)

    # ---- 4. compile: data -> checks (parallel) -> assembly -> property file; meanwhile (5) the correspondence of the
    #         integer sums computed by the Coq model on the generated data with the oracle's integers and (6) more of the
    #         implementation (dispatch on elements, orders far outside the tables) run in a second thread
    from concurrent.futures import ThreadPoolExecutor
    ok, _ = compile_parallel(ctx, files['data'])
    ctx.extra['excluded_known_findings'] = plan['excluded']
    ctx.extra['refuted_in_coq'] = plan['refuted']
    ctx.extra['routes'] = plan['route_count']
    ctx.extra['largest_established_bound_per_cell'] = {c: float(max([t for (cc, _), t in plan['tol'].items() if cc == c] or [0])) for c in D.CELLS}

    def side():
        if ok:
            _correspond(ctx, dumps, ints, audits, status, files['module_of'])
        _oracle_extra(ctx, dumps)
    _patch_coqchk(ctx, ['Gen.' + os.path.basename(r)[:-2] for r in files['checks']])
    with ThreadPoolExecutor(1) as ex:
        fut = ex.submit(side)
        ok2 = ok
        if ok2:
            ok2, failed = compile_parallel(ctx, files['checks'], timeout=900)
            for rel, lemma in failed:
                ctx.log(f'checker and oracle disagree at {lemma}')
        if ok2:
            ctx.compile_dyn(['gen/C08_All.v'], timeout=600)
        ctx.prove()
        fut.result()


def _patch_coqchk(ctx, admitted):
    """thorough tier: the independent checker has no VM; the generated per-rule modules consist of nothing but
    ``check = true`` computations closed by the kernel's VM conversion (minutes of VM time = hours of lazy reduction), so
    they are passed to coqchk as -admit; everything else (data literals, soundness proofs, assembly, property file) is
    re-checked"""
    import re
    import subprocess
    import time
    import types

    def coqchk(self, timeout=1500):
        adm = []
        for m in admitted:
            adm += ['-admit', m]
        cmd = ['timeout', str(timeout), 'coqchk', '-silent', '-o'] + self.coq_args() + adm + [f'Chk.{self.pid}']
        t = time.time()
        r = subprocess.run(cmd, cwd=self.bdir, capture_output=True, text=True)
        out = r.stdout + r.stderr
        summ = out[out.find('CONTEXT SUMMARY'):] if 'CONTEXT SUMMARY' in out else out[-1500:]
        summ = re.sub(r'\s+', ' ', summ)
        self.extra['coqchk'] = {'exit': r.returncode, 'seconds': round(time.time() - t, 1), 'summary': summ[:3000],
                                'admitted_modules (pure VM computations, checked by coqc only)': admitted}
        self.checker_cmds.append('coqchk -silent -o <same -Q> ' + ' '.join('-admit ' + m for m in admitted[:3]) + f' ... Chk.{self.pid}')
        self.log(f'coqchk: exit {r.returncode} ({time.time() - t:.0f}s) {summ[:200]}')
        bad = r.returncode != 0 or re.search(r'type-in-type: (?!<none>)|unsafe \(co\)fixpoints: (?!<none>)|positivity is assumed: (?!<none>)', summ)
        if bad:
            self.broken.append({'kind': 'proof', 'name': 'coqchk', 'detail': out[-2000:]})
        return not bad
    ctx.coqchk = types.MethodType(coqchk, ctx)


def _alias_fail(ctx, d):
    if d.aliased is not None:
        ctx.fail(d.key + ':aliased-result',
                 f'get_quadrature({d.cell}, {d.n}) requested twice: after the arrays of the first result were overwritten in place '
                 f'(X[:] = 7, W[:] = -1) the second result differs from the first (the rule is handed out by reference)',
                 {'cell': d.cell, 'order': d.n,
                  'sequence': 'X, W = get_quadrature(cell, n); copy; X[...] = 7; W[...] = -1; get_quadrature(cell, n)', **d.aliased})


def _report(ctx, d, a, nadv):
    cell, n = d.cell, d.n
    shape = D.SHAPE[cell]
    data = {'cell': cell, 'order': n, 'advertised_degree': nadv, 'nodes': len(d.nodes)}
    if a['outside'] is not None:
        data['node_outside_cell'] = a['outside']
    if a['first_bad'] is not None:
        es = a['worst_mono']
        exact = O.exact(shape, es)
        data.update({'monomial_exponents': es, 'first_failing_monomial': a['first_bad'],
                     'exact_integral': f'{exact.numerator}/{exact.denominator}', 'defect': float(a['worst']),
                     'tolerance': 2.0 ** -45, 'exhaustive': a['exhaustive']})
        x, w = np.asarray(d.X, float), np.asarray(d.W, float)
        data['float_quadrature_sum'] = float(np.sum(w * np.prod(x ** np.array(es)[:, None], axis=0))) if len(es) else float(np.sum(w))
        what = (f'get_quadrature({cell}, {n}) is not exact for x^{es}: |sum - integral| = {float(a["worst"]):.3e} '
                f'(integral {float(exact):.6g}); advertised degree {nadv}')
    else:
        what = f'get_quadrature({cell}, {n}) has a node outside the closed reference cell: {a["outside"]}'
    ctx.fail(d.key, what, data)


def _plan(ctx, dumps, ints, status, known, audits):
    """decide for every (cell, order) how it is established in Coq"""
    plan = {'groups': {}, 'route': {}, 'tol': {}, 'excluded': [], 'refuted': [], 'route_count': {}, 'unproved': []}
    # groups of identical rules among the entries the oracle accepts
    for cell in D.CELLS:
        by = {}
        for (c, n), d in sorted(dumps.items()):
            if c == cell and status[(c, n)] == 'ok':
                by.setdefault(tuple(d.nodes), []).append(n)
        plan['groups'][cell] = {max(ns): sorted(ns) for ns in by.values()}
    for (cell, n), s in sorted(status.items()):
        if s in ('bad', 'invalid'):
            if dumps[(cell, n)].key in known:
                plan['excluded'].append((cell, n))
            if s == 'bad' and (cell, n) in ints:
                plan['refuted'].append((cell, n))
    # routes, primitives first
    order = G.PRIMITIVE + ['RefQuad', 'RefHex', 'RefWedge']
    for cell in order:
        for N, ns in sorted(plan['groups'][cell].items()):
            nadv = max(N, 0)
            route = None
            worst = audits[(cell, N)]['worst']
            if cell in G.TENSOR:
                f1, f2 = G.TENSOR[cell]
                k1, k2 = (f1, N), (f2, N)
                if plan['route'].get(k1) and plan['route'].get(k2):
                    close, tot = tensor_close(dumps[(cell, N)], dumps[k1], dumps[k2])
                    e1, e2 = plan['tol'][k1], plan['tol'][k2]
                    target = ceil_grid(e1 + e2 + e1 * e2 + DELTAV)
                    if close and target <= TOL45:
                        route = ('tensor', f1, f2)
                        plan['tol'][(cell, N)] = target
            if route is None:
                nq = len(dumps[(cell, N)].nodes)
                parts, nmon = G.plan_parts(cell, nadv, nq)
                cost = sum(p[2] for p in parts)
                if cost > MAX_DIRECT_SECONDS:
                    ctx.broke('proof', f'rule {cell} order {N}', f'no tensor structure and a direct check would take ~{cost:.0f}s')
                    plan['unproved'].append((cell, N))
                    continue
                # the bound established for this rule: its measured defect plus a small margin for the outward rounding
                # of the fast checker, on the 2^-52 grid (the stated bound is 2^-45 in any case)
                route = ('direct', parts, nmon)
                plan['tol'][(cell, N)] = min(ceil_grid(worst * Fraction(101, 100) + Fraction(1, 2 ** 56)), TOL45)
            for n in ns:
                plan['route'][(cell, n)] = route if n == N else ('alias', N)
                plan['tol'][(cell, n)] = plan['tol'][(cell, N)]
            plan['route_count'][route[0] + ':' + cell] = plan['route_count'].get(route[0] + ':' + cell, 0) + 1
    return plan


LIT_BUDGET = 2500      # binary64 literals per generated data file


def _write(ctx, dumps, ints, status, plan, kx, nm, audits):
    files = {'data': [], 'checks': []}
    cid = D.COQ_ID
    hdr_data = ('(* GENERATED by vlib/props/c08.py by calling skfem.quadrature.get_quadrature — do not edit *)\n'
                'From Coq Require Import ZArith List.\nRequire Import Model.C08_Rules.\nImport ListNotations.\n')
    # ---- data: rule literals, split into modules of bounded size; identical rules share one literal
    module_of = {}                 # (cell, n) -> module name
    for cell in D.CELLS:
        groups = {}                # content -> [orders]
        for (c, n), d in sorted(dumps.items()):
            if c == cell and (c, n) in ints:
                groups.setdefault(tuple(d.nodes), []).append(n)
        cur_lits, k = 0, 0
        cur_vals, cur_rules = {}, []

        def flush():
            nonlocal cur_lits, k, cur_vals, cur_rules
            if cur_rules:
                dname = f'dict_{cid[cell]}_{k}'
                vals = sorted(cur_vals)
                index = {v: i for i, v in enumerate(vals)}
                txt = G.dict_literal(dname, vals)
                for lit, nodes_int, kw, ns in cur_rules:
                    txt += G.rule_literal(lit, nodes_int, kx, kw, dname, index)
                    for n in ns:
                        txt += f'Definition {G.rname(cell, n)} : drule := {lit}.\n'
                rel = f'gen/C08_Data_{cid[cell]}_{k}.v'
                ctx.write(rel, hdr_data + txt)
                files['data'].append(rel)
                k += 1
            cur_lits, cur_vals, cur_rules = 0, {}, []
        for gi, (content, ns) in enumerate(groups.items()):
            nodes_int, kw = ints[(cell, ns[0])]
            newvals = {x for xs, _ in nodes_int for x in xs} - set(cur_vals)
            nl = len(nodes_int) + len(newvals)
            if cur_rules and cur_lits + nl > LIT_BUDGET:
                flush()
                newvals = {x for xs, _ in nodes_int for x in xs}
                nl = len(nodes_int) + len(newvals)
            cur_vals.update(dict.fromkeys(newvals))
            cur_rules.append((f'lit_{cid[cell]}_{gi}', nodes_int, kw, ns))
            for n in ns:
                module_of[(cell, n)] = f'Gen.C08_Data_{cid[cell]}_{k}'
            cur_lits += nl
        flush()
    all_data = sorted(set(module_of.values()))

    def imports_for(keys):
        mods = sorted({module_of[k] for k in keys})
        return G.HDR + ('Require Import ' + ' '.join(mods) + '.\n' if mods else '')
    VM = 'Proof. vm_cast_no_check (eq_refl true). Qed.\n'
    # ---- check jobs, per class (a class shares its data imports)
    classes = {}                   # class -> list of (cost, text, keys)
    for (cell, n), route in sorted(plan['route'].items()):
        s = G.sfx(cell, n)
        if route[0] == 'direct':
            nadv = max(n, 0)
            sh, r, tol = G.coq_shape(cell), G.rname(cell, n), qlit(plan['tol'][(cell, n)])
            jobs = classes.setdefault(cell, [])
            jobs.append((0.05, f'Lemma nodes_{s} : nodes_ok {sh} {r} && nodes_nonneg {r} = true.\n' + VM, [(cell, n)]))
            for i, (start, ln, cost) in enumerate(route[1]):
                jobs.append((cost + 0.15, f'Lemma part_{s}_{i} : icheck_part {sh} {r} {nadv} {tol} B72 (mpart {sh} {nadv} {start} {ln}) = true.\n' + VM,
                             [(cell, n)]))
        elif route[0] == 'tensor':
            nq = len(dumps[(cell, n)].nodes)
            classes.setdefault(cell, []).append(
                (0.05 + nq * 4e-4, f'Lemma tc_{s} : tensor_check {G.rname(cell, n)} {G.rname(route[1], n)} {G.rname(route[2], n)} {G.DELTA} = true.\n' + VM,
                 [(cell, n), (route[1], n), (route[2], n)]))
    for cell, n in plan['refuted']:
        s = G.sfx(cell, n)
        a = audits[(cell, n)]
        if a['first_bad'] is not None:
            es = '[' + '; '.join(f'{e}%nat' for e in a['worst_mono']) + ']'
            stmt = f'check_part {G.coq_shape(cell)} {G.rname(cell, n)} {max(n, 0)} tol45 [{es}] = false'
        else:
            stmt = f'nodes_ok {G.coq_shape(cell)} {G.rname(cell, n)} = false'
        classes.setdefault(cell, []).append(
            (1.0, f'(* the oracle found get_quadrature({cell}, {n}) not exact: the obligation is refuted (exact arithmetic) *)\n'
                  f'Lemma refuted_{s} : {stmt}.\n'
                  f'Proof. vm_cast_no_check (eq_refl false). Qed.\n', [(cell, n)]))
    total = sum(j[0] for jobs in classes.values() for j in jobs)
    nchk = 0
    chk_mods = []
    for cls, jobs in classes.items():
        ctot = sum(j[0] for j in jobs)
        nfiles = max(1, min(int(ctot / 6.0 + 0.7), len(jobs)))
        for cost, items in G.pack([(j[0], j) for j in jobs], nfiles):
            keys = [k for it in items for k in it[2]]
            rel = f'gen/C08_Chk_{nchk}.v'
            ctx.write(rel, imports_for(keys) + f'(* {cls}: estimated {cost:.1f}s *)\n' + '\n'.join(it[1] for it in items))
            files['checks'].append(rel)
            chk_mods.append(f'Gen.C08_Chk_{nchk}')
            nchk += 1
    ctx.extra['data_files'] = len(files['data'])
    ctx.extra['check_files'] = len(files['checks'])
    ctx.extra['estimated_check_cpu_s'] = round(total, 1)
    # ---- assembly
    a = G.HDR + 'Require Import ' + ' '.join(all_data + chk_mods) + '.\n'
    a += ('Ltac nle := apply Nat.leb_le; vm_compute; reflexivity.\n'
          'Ltac qle := apply Qle_bool_iff; vm_compute; reflexivity.\n\n')
    for cell in G.PRIMITIVE + ['RefQuad', 'RefHex', 'RefWedge']:
        sh = G.coq_shape(cell)
        for N, ns in sorted(plan['groups'][cell].items()):
            if (cell, N) not in plan['route']:
                continue
            route, tol = plan['route'][(cell, N)], qlit(plan['tol'][(cell, N)])
            s, r, nadv = G.sfx(cell, N), G.rname(cell, N), max(N, 0)
            if route[0] == 'direct':
                parts = '; '.join(f'mpart {sh} {nadv} {st} {ln}' for st, ln, _ in route[1])
                fa = 'apply Forall_nil'
                for i in reversed(range(len(route[1]))):
                    fa = f'apply Forall_cons; [exact part_{s}_{i} | {fa}]'
                a += (f'Lemma g_{s} : rule_okQ {sh} (toQ {r}) {nadv} {tol}.\n'
                      f'Proof. apply (icheck_parts_sound _ _ _ _ B72 [{parts}]); [exact (proj1 (proj1 (andb_true_iff _ _) nodes_{s})) | exact (proj2 (proj1 (andb_true_iff _ _) nodes_{s})) | vm_compute; reflexivity | {fa}]. Qed.\n')
            else:
                _, f1, f2 = route
                a += (f'Lemma g_{s} : rule_okQ {sh} (toQ {r}) {nadv} {tol}.\n'
                      f'Proof. exact (tensor_close_ok {G.coq_shape(f1)} {G.coq_shape(f2)} {G.rname(f1, N)} {G.rname(f2, N)} {r} {nadv} '
                      f'{qlit(plan["tol"][(f1, N)])} {qlit(plan["tol"][(f2, N)])} {G.DELTA} {tol} p_{G.sfx(f1, N)} p_{G.sfx(f2, N)} tc_{s} ltac:(vm_compute; reflexivity)). Qed.\n')
            for n in ns:
                sn = G.sfx(cell, n)
                a += (f'Lemma p_{sn} : rule_okQ {sh} (toQ {G.rname(cell, n)}) {max(n, 0)} {tol}.\n'
                      f'Proof. exact (rule_ok_weaken _ _ {max(n, 0)} {nadv} {tol} {tol} ltac:(nle) ltac:(qle) g_{s}). Qed.\n')
    # entries
    tab, steps, provable = [], [], True
    keyorder = sorted(dumps, key=lambda k: (D.CELLS.index(k[0]), k[1]))
    for (cell, n) in keyorder:
        sn = G.sfx(cell, n)
        st = status[(cell, n)]
        if st == 'raises':
            tab.append(f'({cid[cell]}, {G.zlit(n)}%Z, Raises)')
            steps.append('apply Forall_cons; [exact I|].')
        elif (cell, n) in plan['route']:
            tab.append(f'({cid[cell]}, {G.zlit(n)}%Z, Rule {G.rname(cell, n)})')
            steps.append(f'apply Forall_cons; [exact (rule_ok_weaken _ _ _ _ {qlit(plan["tol"][(cell, n)])} tol45 (le_n _) ltac:(qle) p_{sn})|].')
        else:
            # refuted / malformed / unprovable entry
            rule = G.rname(cell, n) if (cell, n) in ints else '(mkR 1 1 [])   (* not written out *)'
            tab.append(f'({cid[cell]}, {G.zlit(n)}%Z, Rule {rule})')
            if (cell, n) in plan['excluded']:
                steps.append('apply Forall_cons; [exact I|].')
            else:
                provable = False
                steps.append(f'(* {cell} order {n}: NOT ESTABLISHED ({st}) *) apply Forall_cons; [fail|].')
    a += '\nDefinition table : qtable := [\n  ' + ';\n  '.join(tab) + '\n].\n'
    a += 'Definition excluded : list (cellid * Z) := [' + '; '.join(f'({cid[c]}, {G.zlit(n)}%Z)' for c, n in plan['excluded']) + '].\n'
    a += ('Definition nmax (c : cellid) : Z := match c with ' +
          ' | '.join(f'{cid[c]} => {nm[c]}%Z' for c in D.CELLS) + ' end.\n')
    a += 'Definition raising : list (cellid * Z) := [' + '; '.join(
        f'({cid[c]}, {G.zlit(n)}%Z)' for (c, n) in keyorder if status[(c, n)] == 'raises') + '].\n'
    if not provable:
        a += '\n(* table_ok is NOT provable in this run (see the steps marked NOT ESTABLISHED) *)\n'
    a += ('\nLemma table_ok : Forall (entry_ok_ex excluded tol45) table.\nProof.\n  unfold table.\n  '
          + '\n  '.join(steps) + '\n  apply Forall_nil.\nQed.\n')
    for c in D.CELLS:
        a += f'Lemma cov_{cid[c]} : covered table {cid[c]} ({D.NMIN})%Z (nmax {cid[c]}) = true.\nProof. vm_compute. reflexivity. Qed.\n'
    a += ('Lemma raising_listed : forall c n, In (c, n) raising -> raises_b table c n = true.\n'
          'Proof. intros c n H. unfold raising in H. simpl in H. repeat (destruct H as [H|H]; [inversion H; subst; vm_compute; reflexivity|]). contradiction. Qed.\n')
    a += ('\nTheorem all_rules_ok : forall (c : cellid) (n : Z), (-2 <= n <= nmax c)%Z -> excluded_b excluded c n = false ->\n'
          '  exists b, lookup table c n = Some b /\\ entry_ok tol45 (c, n, b).\n'
          'Proof.\n  intros c n Hn Hx. destruct c.\n' +
          ''.join(f'  - exact (table_delivers table excluded tol45 {cid[c]} (-2) (nmax {cid[c]}) table_ok cov_{cid[c]} n Hn Hx).\n' for c in D.CELLS) +
          'Qed.\n')
    ctx.write('gen/C08_All.v', a)
    files['module_of'] = module_of
    return files


def _correspond(ctx, dumps, ints, audits, status, module_of):
    """the integer sums sum_q W_q * prod X_qi^e_i computed by the Coq model on the generated literals must
    equal the oracle's integers (checks the data path Python -> Coq literal and the table code); the
    literals of the tensor cells are compared node by node with the primitives' inside Coq anyway"""
    cases = []
    for (cell, n), a in sorted(audits.items()):
        if (cell, n) not in ints or cell not in G.PRIMITIVE or len(ints[(cell, n)][0]) > 40:
            continue
        for es, z in a['zsums'][:4]:
            nadv = max(max(es) if es else 0, 0)
            cases.append((f'({G.rname(cell, n)}, {nadv}%nat, [' + '; '.join(f'{e}%nat' for e in es) + '])', G.zlit(z) + '%Z',
                          (cell, n, tuple(es))))
    if ctx.quick() and len(cases) > 240:
        idx = sorted(ctx.rng.sample(range(len(cases)), 240))
        cases = [cases[i] for i in idx]
    mods = sorted({module_of[(c, n)] for c, n, _ in (x[2] for x in cases)})
    imports = 'From Coq Require Import ZArith List.\nRequire Import Model.C08_Rules ' + ' '.join(mods) + '.'
    defs = ('Definition zs (c : drule * nat * list nat) : Z := let \'(r, n, es) := c in\n'
            '  zsum_tab (map (fun nd => (map (powtab n) (fst nd), snd nd)) (nodes r)) es.\n')
    ctx.corr('zsums', imports, 'zs', 'Z.eqb', cases, defs=defs, per_file=80, nontrivial=lambda r: sum(r[2]) > 0)


def _oracle_extra(ctx, dumps):
    from skfem.quadrature import get_quadrature
    import skfem.element as el
    # (a) get_quadrature accepts elements and element classes: same arrays as for the reference cell
    names = ['ElementLineP1', 'ElementTriP2', 'ElementQuad2', 'ElementTetP1', 'ElementHex1', 'ElementWedge1', 'ElementTriRT1', 'ElementVector']
    for nm_ in names:
        cls = getattr(el, nm_, None)
        if cls is None:
            continue
        try:
            e = cls(el.ElementTriP1()) if nm_ == 'ElementVector' else cls()
        except Exception:
            continue
        cell = e.refdom.__name__
        for n in (0, 2, 3, 5):
            d = dumps.get((cell, n))
            if d is None or d.kind != 'rule':
                continue
            for arg in (e, cls) if nm_ != 'ElementVector' else (e,):
                X, W = get_quadrature(arg, n)
                ctx.count(('dispatch', nm_, n, arg is e), nontrivial=True)
                if not (np.array_equal(X, d.X) and np.array_equal(W, d.W)):
                    ctx.fail(f'dispatch={nm_}:order={n}', f'get_quadrature({nm_}, {n}) differs from get_quadrature({cell}, {n})',
                             {'element': nm_, 'order': n, 'cell': cell})
    # (a2) other public call forms of the same rules: keyword arguments, numpy-integer and integral float orders, the
    #      per-cell functions called directly — all must return exactly the arrays of get_quadrature(refdom, n)
    import skfem.quadrature as Q
    import skfem.refdom as RD
    direct = {'RefTri': Q.get_quadrature_tri, 'RefTet': Q.get_quadrature_tet, 'RefLine': Q.get_quadrature_line}
    ctx.extra['api_coverage'] = {
        'get_quadrature(refdom, n) for the seven reference cells, n in [-2, N]': 'covered before (dump, proved)',
        'get_quadrature(element instance | element class, n)': 'covered before (dispatch)',
        'get_quadrature(refdom_or_elem=..., norder=...) keywords; n as numpy integer / integral float': 'covered now (call-form: identical arrays)',
        'get_quadrature_tri / _tet / _line(n) called directly; get_quadrature_point()': 'covered now (call-form: identical arrays)',
        'get_quadrature(ElementVector / ElementDG / ElementComposite wrappers)': 'covered now (call-form: refdom of the wrapper)',
        'get_quadrature(unsupported object)': 'covered now (must raise NotImplementedError)',
        'Refdom tables (facets, edges, normals, on_facet)': 'out of scope: topology tables (C11) / skeleton elements; vertices are tied by tie_shapes',
    }
    for cell in ('RefLine', 'RefTri', 'RefTet', 'RefQuad', 'RefHex', 'RefWedge', 'RefPoint'):
        rd = getattr(RD, cell)
        for n in (0, 2, 3, 4, 7):
            d = dumps.get((cell, n))
            if d is None or d.kind != 'rule':
                continue
            forms = [('keywords', lambda: get_quadrature(refdom_or_elem=rd, norder=n)), ('numpy int64', lambda: get_quadrature(rd, np.int64(n))),
                     ('integral float', lambda: get_quadrature(rd, float(n)))]
            if cell in direct:
                forms.append(('direct function', lambda: direct[cell](n)))
            if cell == 'RefPoint':
                forms.append(('direct function', lambda: Q.get_quadrature_point(n)))
                forms.append(('direct function, default order', lambda: Q.get_quadrature_point()))
            for name, fn in forms:
                ctx.count(('call-form', cell, n, name), nontrivial=True)
                try:
                    Xf, Wf = fn()
                except Exception as ex:
                    ctx.fail(f'call-form={cell}:{name}', f'get_quadrature for {cell}, order {n}, called as "{name}" raised {type(ex).__name__}: {ex}',
                             {'cell': cell, 'order': n, 'form': name})
                    continue
                if not (np.array_equal(np.asarray(Xf), d.X) and np.array_equal(np.asarray(Wf), d.W)):
                    ctx.fail(f'call-form={cell}:{name}', f'get_quadrature for {cell}, order {n}, called as "{name}" differs from get_quadrature({cell}, {n})',
                             {'cell': cell, 'order': n, 'form': name})
    for label, mk in (('ElementVector(ElementTetP1)', lambda: el.ElementVector(el.ElementTetP1())), ('ElementDG(ElementTriP2)', lambda: el.ElementDG(el.ElementTriP2())),
                      ('ElementComposite(TriP1,TriP2)', lambda: el.ElementComposite(el.ElementTriP1(), el.ElementTriP2()))):
        try:
            e = mk()
        except Exception:
            continue
        cell = e.refdom.__name__
        d = dumps.get((cell, 4))
        if d is not None and d.kind == 'rule':
            Xf, Wf = get_quadrature(e, 4)
            ctx.count(('call-form', label), nontrivial=True)
            if not (np.array_equal(np.asarray(Xf), d.X) and np.array_equal(np.asarray(Wf), d.W)):
                ctx.fail(f'call-form={label}', f'get_quadrature({label}, 4) differs from get_quadrature({cell}, 4)', {'element': label, 'order': 4})
    try:
        get_quadrature(object(), 2)
        ctx.fail('call-form=unsupported-object', 'get_quadrature(object(), 2) returned a rule instead of raising', {})
    except NotImplementedError:
        pass
    except Exception as ex:
        ctx.hist('unsupported-object-exception', type(ex).__name__)
    # (b) orders far beyond the tables: must raise (or else deliver that degree, which the audit decides)
    far = list(range(25, 40)) + [50, 64, 100, 1000, 10 ** 6]
    for cell in ('RefTri', 'RefTet', 'RefWedge'):
        # the prism calls the segment rule first, whose cost grows with the order: stay moderate there
        for n in (far if cell != 'RefWedge' else far[:-2]):
            d = D.call(cell, n)
            ctx.count(('far', cell, n), nontrivial=False)
            ctx.hist('far-order:' + cell, d.kind)
            if d.kind == 'rule':
                kx = max([x.denominator.bit_length() - 1 for p, _ in d.nodes for x in p] + [0])
                nodes_int, kw = D.as_ints(d, kx)
                a = O.audit(d, nodes_int, kx, kw, min(n, 60), rng=ctx.rng, budget=200000)
                if not a['ok']:
                    _report(ctx, d, a, n)
            elif d.kind == 'invalid':
                ctx.fail(d.key, f'get_quadrature({cell}, {n}) returned a malformed rule: {d.why}', {'cell': cell, 'order': n})


def replay(ctx, data):
    """re-run one recorded failing input on the implementation"""
    inp = data.get('input', {})
    cell, n = inp.get('cell'), inp.get('order')
    ctx.log('replaying', data.get('key'))
    if cell is None or n is None:
        return run(ctx)
    d = D.call(cell, n)
    _alias_fail(ctx, d)
    if d.kind == 'raises':
        ctx.log(f'get_quadrature({cell}, {n}) now raises {d.exc}: the recorded failure is gone')
        return
    if d.kind == 'invalid':
        ctx.fail(d.key, f'get_quadrature({cell}, {n}) returned a malformed rule: {d.why}', {'cell': cell, 'order': n})
        return
    kx = max([x.denominator.bit_length() - 1 for p, _ in d.nodes for x in p] + [0])
    nodes_int, kw = D.as_ints(d, kx)
    a = O.audit(d, nodes_int, kx, kw, max(n, 0), rng=ctx.rng, budget=400000)
    if a['ok']:
        ctx.log(f'get_quadrature({cell}, {n}): exact to 2^-45 on {a["evaluated"]} monomials, nodes inside: the recorded failure is gone')
    else:
        _report(ctx, d, a, max(n, 0))
