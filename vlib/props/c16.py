"""C16 — threaded assembly equals serial assembly under every schedule.

tie T2: Gen/C16Gen.v is regenerated from bilinear_form.py (pair comprehension, array_split call,
        worker body, serial loop, start/join order) and shown equal to Model.Threads by dyn/C16Tie.v
tie T3: correspondence of numpy.array_split and of the real threaded assembly (ownership of pairs per
        thread, forced interleavings via a turnstile inside the integrand) with the model
proof : props/C16.v  (threaded == serial for every interleaving, every k >= 1, every Nu, Nv, kernel)
"""
import ast
import itertools
import math
import threading
import time

import numpy as np

from .. import t2
from ..core import TranslateError, clist, cnat, cnats, cpair

SRC = 'skfem/assembly/form/bilinear_form.py'


# ------------------------------------------------------------------------------ translator

def translate():
    tree = t2.parse(SRC)
    asm = t2.find_def(tree, '_assemble', 'BilinearForm')
    tk = t2.find_def(tree, '_threaded_kernel', 'BilinearForm')
    env = {'ubasis.Nbfun': 'Nu', 'vbasis.Nbfun': 'Nv'}
    ex = t2.Expr(env, 'nat')

    # --- threaded branch:  if self.nthreads > 0:
    ifs = [n for n in asm.body if isinstance(n, ast.If) and t2.src(n.test) == 'self.nthreads > 0']
    thr = t2.only(ifs, 'if self.nthreads > 0')
    if thr.orelse:
        raise TranslateError('threaded branch has an else')
    # indices = np.array([[i, j] for j, i in product(range(..), range(..))])
    asg = [s for s in thr.body if isinstance(s, ast.Assign)]
    ind = t2.only([s for s in asg if t2.src(s.targets[0]) == 'indices'], 'indices = ...')
    call = ind.value
    if not (isinstance(call, ast.Call) and t2.src(call.func) == 'np.array' and len(call.args) == 1
            and isinstance(call.args[0], ast.ListComp)):
        raise TranslateError('indices: ' + t2.src(ind))
    lc = call.args[0]
    gen = t2.only(lc.generators, 'comprehension generators')
    if gen.ifs or not (isinstance(gen.iter, ast.Call) and t2.src(gen.iter.func) == 'product' and len(gen.iter.args) == 2):
        raise TranslateError('comprehension: ' + t2.src(lc))
    r1, r2 = (ex.tr(t2.is_range_of(a)) for a in gen.iter.args)
    if not (isinstance(gen.target, ast.Tuple) and len(gen.target.elts) == 2 and isinstance(lc.elt, ast.List) and len(lc.elt.elts) == 2):
        raise TranslateError('comprehension target/elt: ' + t2.src(lc))
    a, b = (e.id for e in gen.target.elts)
    e1, e2 = (e.id for e in lc.elt.elts)
    if {e1, e2} != {a, b}:
        raise TranslateError('comprehension element: ' + t2.src(lc))
    gen_pairs = (f'Definition gen_pairs (Nu Nv : nat) : list (nat * nat) :=\n'
                 f'  flat_map (fun {a} => map (fun {b} => ({e1}, {e2})) (seq 0 {r2})) (seq 0 {r1}).')
    # threads = [Thread(target=self._threaded_kernel, args=(data, ix, ubasis.basis, vbasis.basis, wdict, dx))
    #            for ix in np.array_split(indices, self.nthreads, axis=0)]
    th = t2.only([s for s in asg if t2.src(s.targets[0]) == 'threads'], 'threads = ...')
    if not isinstance(th.value, ast.ListComp):
        raise TranslateError('threads: ' + t2.src(th))
    g = t2.only(th.value.generators, 'threads generators')
    if t2.src(g.iter) != 'np.array_split(indices, self.nthreads, axis=0)' or g.ifs or t2.src(g.target) != 'ix':
        raise TranslateError('split call: ' + t2.src(g.iter))
    tc = th.value.elt
    if not (isinstance(tc, ast.Call) and t2.src(tc.func) == 'Thread'):
        raise TranslateError('Thread(...): ' + t2.src(tc))
    kw = {k.arg: t2.src(k.value) for k in tc.keywords}
    if tc.args or kw.get('target') != 'self._threaded_kernel' or set(kw) != {'target', 'args'}:
        raise TranslateError('Thread arguments: ' + t2.src(tc))
    if kw['args'] == '(data, ix, ubasis.basis, vbasis.basis, wdict, dx)':
        passes_errors = False
    elif kw['args'] == '(data, ix, ubasis.basis, vbasis.basis, wdict, dx, errors)':
        passes_errors = True
    else:
        raise TranslateError('Thread arguments: ' + t2.src(tc))
    # all started, then all joined, and flatten only after the branch
    loops = [s for s in thr.body if isinstance(s, ast.For)]
    if [t2.src(l) for l in loops] != ['for t in threads:\n    t.start()', 'for t in threads:\n    t.join()']:
        raise TranslateError('start/join loops: ' + repr([t2.src(l) for l in loops]))
    # optional error propagation:  errors: List[Exception] = []  ...  if len(errors) > 0: raise errors[0]
    rest = [st for st in thr.body if st not in (ind, th) and st not in loops]
    reraise = False
    if rest:
        if not (len(rest) == 2 and isinstance(rest[0], (ast.AnnAssign, ast.Assign)) and t2.src(rest[0]).replace(': List[Exception]', '') == 'errors = []'
                and t2.src(rest[1]) == 'if len(errors) > 0:\n    raise errors[0]'
                and thr.body.index(rest[0]) < thr.body.index(th) and thr.body.index(rest[1]) > thr.body.index(loops[1])):
            raise TranslateError('unexpected statements in threaded branch: ' + repr([t2.src(x) for x in rest]))
        reraise = True
    if reraise != passes_errors:
        raise TranslateError('error list is created/re-raised but not passed to the workers (or vice versa)')
    pos_thr = asm.body.index(thr)
    flat = [k for k, s in enumerate(asm.body) if isinstance(s, ast.Assign) and t2.src(s) == "data = data.flatten('C')"]
    if len(flat) != 1 or flat[0] < pos_thr:
        raise TranslateError('data.flatten must follow the threaded branch')

    # --- worker body
    params = [x.arg for x in tk.args.args]
    if params not in (['self', 'data', 'ix', 'ubasis', 'vbasis', 'wdict', 'dx'],
                      ['self', 'data', 'ix', 'ubasis', 'vbasis', 'wdict', 'dx', 'errors']):
        raise TranslateError('_threaded_kernel signature: ' + repr(params))
    body = [s for s in tk.body if not (isinstance(s, ast.Expr) and isinstance(s.value, ast.Constant))]
    catches = False
    if len(body) == 1 and isinstance(body[0], ast.Try):
        tr = body[0]
        h = t2.only(tr.handlers, 'except clauses')
        if (tr.orelse or tr.finalbody or t2.src(h.type) != 'Exception' or h.name is None
                or [t2.src(x) for x in h.body] != ['if errors is None:\n    raise', f'errors.append({h.name})']
                or 'errors' not in params):
            raise TranslateError('_threaded_kernel try/except: ' + t2.src(tr)[:200])
        body = tr.body
        catches = True
    if catches != passes_errors:
        raise TranslateError('worker catches exceptions but the error list is not passed/re-raised (or vice versa)')
    loop = t2.only(body, '_threaded_kernel body')
    if not (isinstance(loop, ast.For) and t2.src(loop.iter) == 'ix' and isinstance(loop.target, ast.Name) and not loop.orelse):
        raise TranslateError('_threaded_kernel loop: ' + t2.src(loop))
    ij = loop.target.id
    if len(loop.body) != 2:
        raise TranslateError('_threaded_kernel loop body has %d statements' % len(loop.body))
    unpack, store = loop.body
    if not (isinstance(unpack, ast.Assign) and isinstance(unpack.targets[0], ast.Tuple) and t2.src(unpack.value) == ij
            and len(unpack.targets[0].elts) == 2):
        raise TranslateError('unpack: ' + t2.src(unpack))
    x0, x1 = (e.id for e in unpack.targets[0].elts)
    slot, args = _store(store, 'data', 'ubasis', 'vbasis', {x0, x1}, extra_slice=False)
    gen_step = (f'Definition gen_step {{V : Type}} (K : nat -> nat -> V) (ij : nat * nat) : (nat * nat) * V :=\n'
                f'  let {x0} := fst ij in let {x1} := snd ij in (({slot[0]}, {slot[1]}), K {args[0]} {args[1]}).')

    # --- serial loop:  for j in range(Nu): for i in range(Nv): ...; if self.nthreads <= 0: data[j, i, :] = kernel
    outer = t2.only([s for s in asm.body if isinstance(s, ast.For)], 'serial outer loop')
    jn = outer.target.id
    ro = ex.tr(t2.is_range_of(outer.iter))
    inner = t2.only(outer.body, 'serial inner loop')
    if not isinstance(inner, ast.For):
        raise TranslateError('serial inner loop: ' + t2.src(inner)[:80])
    inn = inner.target.id
    ri = ex.tr(t2.is_range_of(inner.iter))
    sif = t2.only([s for s in inner.body if isinstance(s, ast.If)], 'serial guard')
    if t2.src(sif.test) != 'self.nthreads <= 0' or sif.orelse:
        raise TranslateError('serial guard: ' + t2.src(sif.test))
    sstore = t2.only(sif.body, 'serial store')
    sslot, sargs = _store(sstore, 'data', 'ubasis.basis', 'vbasis.basis', {jn, inn}, extra_slice=True)
    gen_serial = (f'Definition gen_serial_steps {{V : Type}} (K : nat -> nat -> V) (Nu Nv : nat) : list ((nat * nat) * V) :=\n'
                  f'  flat_map (fun {jn} => map (fun {inn} => (({sslot[0]}, {sslot[1]}), K {sargs[0]} {sargs[1]})) (seq 0 {ri})) (seq 0 {ro}).')
    # data allocated as (Nu, Nv, nt)
    alloc = t2.only([s for s in asm.body if isinstance(s, ast.Assign) and t2.src(s.targets[0]) == 'data'
                     and isinstance(s.value, ast.Call) and t2.src(s.value.func) == 'np.zeros'], 'data = np.zeros(...)')
    shp = alloc.value.args[0]
    if not (isinstance(shp, ast.Tuple) and len(shp.elts) == 3 and t2.src(shp.elts[2]) == 'nt'):
        raise TranslateError('data shape: ' + t2.src(shp))
    d0, d1 = ex.tr(shp.elts[0]), ex.tr(shp.elts[1])
    txt = f'''(* GENERATED by vlib/props/c16.py from {SRC} — do not edit *)
From Coq Require Import List Arith.
Import ListNotations.
Require Import Model.Threads.
{gen_pairs}
Definition gen_split {{A : Type}} (k : nat) (l : list A) : list (list A) := array_split k l. (* np.array_split(indices, self.nthreads, axis=0) *)
{gen_step}
{gen_serial}
Definition gen_data_shape (Nu Nv : nat) : nat * nat := ({d0}, {d1}).
(* a worker stops at its first failing kernel call and records the exception; after ALL workers are joined the
   first recorded exception is raised again *)
Definition gen_errors_reraised_after_join : bool := {'true' if reraise and catches else 'false'}.
'''
    return txt


def _store(st, arr, uname, vname, idxnames, extra_slice):
    """``data[a, b(, :)] = self._kernel(<uname>[x], <vname>[y], wdict, dx)`` -> ((a, b), (x, y))"""
    if not (isinstance(st, ast.Assign) and len(st.targets) == 1 and isinstance(st.targets[0], ast.Subscript)
            and t2.src(st.targets[0].value) == arr):
        raise TranslateError('store: ' + t2.src(st))
    ix = t2.index_tuple(st.targets[0])
    if extra_slice:
        if len(ix) != 3 or t2.src(ix[2]) != ':':
            raise TranslateError('store index: ' + t2.src(st.targets[0]))
        ix = ix[:2]
    if len(ix) != 2 or not all(isinstance(e, ast.Name) and e.id in idxnames for e in ix):
        raise TranslateError('store index: ' + t2.src(st.targets[0]))
    c = st.value
    if not (isinstance(c, ast.Call) and t2.src(c.func) == 'self._kernel' and len(c.args) == 4 and not c.keywords
            and t2.src(c.args[2]) == 'wdict' and t2.src(c.args[3]) == 'dx'):
        raise TranslateError('kernel call: ' + t2.src(c))
    out = []
    for a, nm in zip(c.args[:2], (uname, vname)):
        if not (isinstance(a, ast.Subscript) and t2.src(a.value) == nm and isinstance(a.slice, ast.Name)
                and a.slice.id in idxnames):
            raise TranslateError('kernel argument: ' + t2.src(a))
        out.append(a.slice.id)
    return (ix[0].id, ix[1].id), tuple(out)


# ------------------------------------------------------------------------------ stubs for the real assembler

class Stub:
    """duck-typed basis with integer tags: exact integer results from the real _assemble"""

    def __init__(self, N, edofs, tags, nq, nfields=1):
        from skfem.element import DiscreteField
        self.N = N
        self.element_dofs = np.array(edofs, dtype=np.int32).reshape(len(tags), -1)
        self.Nbfun = len(tags)
        self.nelems = self.element_dofs.shape[1]
        self.X = np.zeros((1, nq))
        self.W = np.ones(nq)
        self.dx = np.ones((self.nelems, nq))
        self.basis = [(DiscreteField(np.full((self.nelems, nq), float(t)) + np.arange(self.nelems)[:, None] * 1000.),)
                      for t in tags]

    def default_parameters(self):
        return {}


def checksum(basis):
    import hashlib
    h = hashlib.sha1()
    for b in basis.basis:
        for f in b:
            for a in f:
                if a is not None:
                    h.update(np.ascontiguousarray(a).tobytes())
    h.update(np.ascontiguousarray(basis.dx).tobytes())
    h.update(np.ascontiguousarray(basis.element_dofs).tobytes())
    return h.hexdigest()


def model_chunks(L, k):
    q, r = divmod(L, k)
    out, pos = [], 0
    for c in range(k):
        s = q + (1 if c < r else 0)
        out.append(list(range(pos, pos + s)))
        pos += s
    return out


# ------------------------------------------------------------------------------ the check

def run(ctx):
    from skfem.assembly import BilinearForm
    ctx.trusted += ['CPython threads / GIL and NumPy memory-level safety of concurrent writes to disjoint slices '
                    '(runtime, not modelled)', 'numpy.array_split (modelled; corresponded for all L<=30,k<=32)']
    ctx.assumptions += ['the kernel invocation is the granularity of a schedule (one step = one data[j,i] write)',
                        'the integrand itself is a pure function of its arguments']
    ctx.cov['rule'] = ('array_split: all (L,k) with L<=30, 1<=k<=32; threaded assembly on stub bases with integer tags for '
                       'random (Nu,Nv,nt) and every k in 1..Nu*Nv+2; forced interleavings enumerated exhaustively for '
                       'small pair counts, random otherwise; non-trivial = k>=2 and at least 2 pairs; distinct by content')
    ctx.ensure_static()
    # 1. regenerate the model pieces from the source
    try:
        ctx.write_gen('C16Gen', translate())
        gen_ok = True
    except TranslateError as e:
        ctx.broke('translator', 'c16.translate(bilinear_form.py)', e)
        gen_ok = False
    # 2. tie lemmas + property theorems
    if gen_ok:
        ctx.compile_dyn(['gen/C16Gen.v'] + ctx.copy_dyn())
    ctx.prove()

    # 3a. correspondence: numpy.array_split vs model
    cases = []
    for L in range(0, 31):
        for k in range(1, 33):
            got = [c.tolist() for c in np.array_split(np.arange(L), k)]
            cases.append((cpair(cnat(L), cnat(k)), clist([cnats(c) for c in got]), ('array_split', L, k)))
    bad = ctx.corr('array_split', 'Require Import Model.Threads.\nFrom Coq Require Import List.',
                   '(fun lk => array_split (snd lk) (seq 0 (fst lk)))', 'natss_eqb', cases,
                   nontrivial=lambda r: r[2] >= 2 and r[1] >= 2)
    for i in bad or []:
        _, L, k = cases[i][2]
        got = [c.tolist() for c in np.array_split(np.arange(L), k)]
        if sum(got, []) != list(range(L)):
            ctx.fail(f'array_split:L={L}:k={k}', 'numpy.array_split does not partition', {'L': L, 'k': k, 'got': got})

    # 3b. real threaded assembly on stubs: ownership per thread, every pair once, equals serial, inputs untouched
    rng = ctx.rng
    nconf = ctx.n(14, 60)
    own_cases = []
    for c in range(nconf):
        Nu, Nv, nt, nq = rng.randint(1, 4), rng.randint(1, 4), rng.randint(1, 3), rng.randint(1, 2)
        if c == 0:
            Nu, Nv = 2, 3
        NU, NV = rng.randint(Nu, 3 * Nu + 2), rng.randint(Nv, 3 * Nv + 2)
        u = Stub(NU, [[rng.randrange(NU) for _ in range(nt)] for _ in range(Nu)], [1 + j for j in range(Nu)], nq)
        v = Stub(NV, [[rng.randrange(NV) for _ in range(nt)] for _ in range(Nv)], [10 * (i + 1) for i in range(Nv)], nq)
        utag = {int(u.basis[j][0].value[0, 0]) % 1000: j for j in range(Nu)}
        serial = BilinearForm(lambda uu, vv, w: uu * vv)._assemble(u, v)
        cs0 = (checksum(u), checksum(v))
        for k in range(1, Nu * Nv + 3):
            log = []
            lock = threading.Lock()

            def form(uu, vv, w):
                with lock:
                    log.append((threading.current_thread().name, float(uu.value[0, 0]), float(vv.value[0, 0])))
                return uu * vv
            thr = BilinearForm(form, nthreads=k)._assemble(u, v)
            same = all(np.array_equal(np.asarray(a), np.asarray(b)) for a, b in zip(thr[:2], serial[:2])) and thr[2:] == serial[2:]
            ctx.count(('stub', Nu, Nv, nt, k, u.element_dofs.tolist(), v.element_dofs.tolist()), nontrivial=(k >= 2 and Nu * Nv >= 2))
            ctx.hist('threads', k)
            ctx.hist('pairs', Nu * Nv)
            if not same:
                ctx.fail(f'stub-threaded!=serial:Nu={Nu}:Nv={Nv}:k={k}', 'threaded COO triplets differ from serial',
                         {'Nu': Nu, 'Nv': Nv, 'nt': nt, 'k': k, 'uedofs': u.element_dofs.tolist(),
                          'vedofs': v.element_dofs.tolist(), 'serial': serial[1].tolist(), 'threaded': thr[1].tolist()})
            # decode which pair each kernel call handled from the tags
            vt = {int(v.basis[i][0].value[0, 0]) % 1000: i for i in range(Nv)}
            calls = [(tid, vt[int(b) % 1000], utag[int(a) % 1000]) for tid, a, b in log]
            if sorted((i, j) for _, i, j in calls) != sorted((i, j) for j in range(Nu) for i in range(Nv)):
                ctx.fail(f'stub-pairs-once:Nu={Nu}:Nv={Nv}:k={k}', 'not every local pair computed exactly once',
                         {'Nu': Nu, 'Nv': Nv, 'k': k, 'calls': calls})
            per = {}
            for tid, i, j in calls:
                per.setdefault(tid, []).append((i, j))
            chunks = sorted(per.values())
            own_cases.append((f'({cnat(Nu)}, {cnat(Nv)}, {cnat(k)})',
                              clist([clist([cpair(cnat(i), cnat(j)) for i, j in ch]) for ch in chunks]),
                              ('ownership', Nu, Nv, k)))
        if (checksum(u), checksum(v)) != cs0:
            ctx.fail('inputs-mutated:stub', 'basis arrays changed during threaded assembly', {'Nu': Nu, 'Nv': Nv})
    if len(ctx.cov['samples']) < 3:
        ctx.sample({'kind': 'ownership', 'Nu,Nv,k': own_cases[5][2][1:], 'chunks_of_impl': own_cases[5][1]})
    # model: non-empty chunks of array_split k (pairs Nu Nv), sorted lexicographically like the harness does
    defs = '''
Definition pair_eqb (a b : nat * nat) := Nat.eqb (fst a) (fst b) && Nat.eqb (snd a) (snd b).
Definition nonempty {A} (l : list A) := match l with [] => false | _ => true end.
Definition owned (c : nat * nat * nat) : list (list (nat * nat)) :=
  let '(Nu, Nv, k) := c in filter nonempty (gen_split k (gen_pairs Nu Nv)).
'''
    if gen_ok:
        # a disagreement here is a broken correspondence (reported by ctx.corr); whether the property itself
        # fails is decided by the pairs-once / equals-serial / interleaving searches around it
        ctx.corr('ownership', 'Require Import Model.Threads Gen.C16Gen.\nFrom Coq Require Import List Arith Bool.',
                 'owned_sorted', '(list_eqb (list_eqb pair_eqb))',
                 own_cases, defs=defs + SORT_DEFS, nontrivial=lambda r: r[3] >= 2 and r[1] * r[2] >= 2)

    # 3c. forced interleavings (turnstile inside the integrand) on stubs and on a real basis
    _interleavings(ctx)

    # 3d. schedules in which workers START late (the OS need not run a new thread at once)
    _late_start(ctx)

    # 3e. an integrand that raises: threaded assembly must raise like serial assembly does
    _raising(ctx)

    # 3f. ONE long-lived threaded form object assembled for a sequence of different (trial, test) sizes
    _form_reuse(ctx)

    # 4. oracle on real bases: threaded == serial bit for bit, all k
    _oracle_real(ctx)

    # 5. every public call form that forwards to the threaded branch
    _call_forms(ctx)


SORT_DEFS = '''
(* canonical order used by the harness: chunk lists sorted as Python tuples (i, j) lists *)
Definition pair_ltb (a b : nat * nat) := (fst a <? fst b) || (Nat.eqb (fst a) (fst b) && (snd a <? snd b)).
Fixpoint chunk_ltb (a b : list (nat * nat)) : bool :=
  match a, b with
  | [], [] => false | [], _ => true | _, [] => false
  | x :: a', y :: b' => pair_ltb x y || (pair_eqb x y && chunk_ltb a' b')
  end.
Fixpoint insert_chunk (c : list (nat * nat)) (l : list (list (nat * nat))) :=
  match l with [] => [c] | d :: l' => if chunk_ltb d c then d :: insert_chunk c l' else c :: l end.
Definition owned_sorted (c : nat * nat * nat) := fold_right insert_chunk [] (owned c).
'''


def _interleavings(ctx):
    """force chosen interleavings at kernel granularity; the result must be bit-equal to serial"""
    from skfem.assembly import BilinearForm
    rng = ctx.rng
    confs = [(2, 2, 2), (2, 3, 2), (3, 2, 3), (2, 2, 3), (1, 3, 2)] if ctx.quick() else \
        [(2, 2, 2), (2, 3, 2), (3, 2, 3), (2, 2, 3), (1, 3, 2), (3, 3, 2), (3, 3, 4), (2, 4, 3), (4, 2, 5)]
    sched_cases = []
    for Nu, Nv, k in confs:
        nt, nq = 2, 2
        u = Stub(5, [[rng.randrange(5) for _ in range(nt)] for _ in range(Nu)], [2 + j for j in range(Nu)], nq)
        v = Stub(6, [[rng.randrange(6) for _ in range(nt)] for _ in range(Nv)], [11 + 10 * i for i in range(Nv)], nq)
        serial = BilinearForm(lambda uu, vv, w: uu * vv)._assemble(u, v)
        pairs = [(i, j) for j in range(Nu) for i in range(Nv)]
        chunks = [[pairs[x] for x in ch] for ch in model_chunks(len(pairs), k)]
        # all interleavings = all sequences of worker numbers with the right multiplicities
        base = [w for w, ch in enumerate(chunks) for _ in ch]
        total = math.factorial(len(base))
        for ch in chunks:
            total //= math.factorial(len(ch))
        limit = ctx.n(40, 400)
        if total <= limit:
            scheds, exhaustive = sorted(_multiset_perms(base)), True
        else:
            scheds = set()
            while len(scheds) < limit:
                s_ = base[:]
                rng.shuffle(s_)
                scheds.add(tuple(s_))
            scheds, exhaustive = sorted(scheds), False
        ctx.extra.setdefault('interleavings', []).append({'Nu': Nu, 'Nv': Nv, 'k': k, 'schedules': len(scheds), 'exhaustive': exhaustive})
        dead = 0
        for sc in scheds:
            if dead >= 2:
                break
            order = []
            pos = [0] * len(chunks)
            for w in sc:
                order.append(chunks[w][pos[w]])
                pos[w] += 1
            got, trace = _run_turnstile(u, v, Nu, Nv, k, order)
            ctx.count(('interleave', Nu, Nv, k, sc), nontrivial=True)
            if got is None:
                dead += 1
                ctx.fail(f'turnstile-deadlock:Nu={Nu}:Nv={Nv}:k={k}', 'a schedule consistent with the array_split model could not be '
                         'realised by the implementation (ownership differs)', {'Nu': Nu, 'Nv': Nv, 'k': k, 'schedule': list(sc)})
                continue
            if not (np.array_equal(got[1], serial[1]) and np.array_equal(got[0], serial[0])):
                ctx.fail(f'interleaving!=serial:Nu={Nu}:Nv={Nv}:k={k}', 'forced interleaving gives a different result than serial',
                         {'Nu': Nu, 'Nv': Nv, 'k': k, 'schedule': list(sc), 'serial': serial[1].tolist(), 'got': got[1].tolist()})
            # the same schedule through the model: run_schedule must accept it and produce the same trace of pairs
            sched_cases.append((f'({cnat(Nu)}, {cnat(Nv)}, {cnat(k)}, {cnats(sc)})',
                                '(Some ' + clist([cpair(cnat(i), cnat(j)) for i, j in trace]) + ')', ('sched', Nu, Nv, k, sc)))
    ctx.sample({'kind': 'forced interleaving', 'Nu,Nv,k': sched_cases[3][2][1:4], 'schedule(worker ids)': list(sched_cases[3][2][4]),
                'trace_of_impl(i,j)': sched_cases[3][1]})
    defs = '''
Definition pair_eqb (a b : nat * nat) := Nat.eqb (fst a) (fst b) && Nat.eqb (snd a) (snd b).
Definition trace (c : nat * nat * nat * list nat) : option (list (nat * nat)) :=
  let '(Nu, Nv, k, sched) := c in run_schedule sched (gen_split k (gen_pairs Nu Nv)).
'''
    if 'gen/C16Gen.v' in ''.join(ctx.checker_cmds) and not any(b['kind'] == 'translator' for b in ctx.broken):
        ctx.corr('schedules', 'Require Import Model.Threads Gen.C16Gen.\nFrom Coq Require Import List Arith Bool.',
                 'trace', '(option_eqb (list_eqb pair_eqb))', sched_cases, defs=defs)


def _late_start(ctx):
    """A new worker thread may begin executing arbitrarily late - e.g. after the main thread has created and
    started all others.  Realised through the standard library only: Thread.run of selected workers sleeps first."""
    from skfem.assembly import BilinearForm
    rng = ctx.rng
    orig_run = threading.Thread.run
    rule = [lambda k: False]
    started = []
    lk = threading.Lock()

    def slow_run(self):
        with lk:
            k = len(started)
            started.append(self)
        if rule[0](k):
            time.sleep(0.03)
        return orig_run(self)
    rules = [('all-late', lambda k: True), ('first-late', lambda k: k == 0), ('odd-late', lambda k: k % 2 == 1),
             ('last-early', lambda k: k < 2)]
    confs = [(2, 3, 2), (3, 2, 3), (2, 2, 4)] if ctx.quick() else [(2, 3, 2), (3, 2, 3), (2, 2, 4), (3, 3, 5), (1, 4, 3), (4, 2, 10)]
    threading.Thread.run = slow_run
    try:
        for Nu, Nv, k in confs:
            nt, nq = 2, 1
            u = Stub(5, [[rng.randrange(5) for _ in range(nt)] for _ in range(Nu)], [1 + j for j in range(Nu)], nq)
            v = Stub(6, [[rng.randrange(6) for _ in range(nt)] for _ in range(Nv)], [10 * (i + 1) for i in range(Nv)], nq)
            serial = BilinearForm(lambda uu, vv, w: uu * vv)._assemble(u, v)
            for name, r in rules:
                rule[0] = r
                del started[:]
                calls = []

                def form(uu, vv, w):
                    calls.append((float(uu.value[0, 0]), float(vv.value[0, 0])))
                    return uu * vv
                got = BilinearForm(form, nthreads=k)._assemble(u, v)
                ctx.count(('late-start', Nu, Nv, k, name), nontrivial=True)
                if not (np.array_equal(got[1], serial[1]) and np.array_equal(got[0], serial[0])):
                    ctx.fail(f'late-start!=serial:{name}:Nu={Nu}:Nv={Nv}:k={k}',
                             'threaded assembly differs from serial when worker threads begin executing late',
                             {'Nu': Nu, 'Nv': Nv, 'k': k, 'rule': name, 'serial': serial[1].tolist(), 'got': got[1].tolist()})
                elif len(calls) != Nu * Nv or len(set(calls)) != Nu * Nv:
                    ctx.fail(f'late-start-pairs-once:{name}:Nu={Nu}:Nv={Nv}:k={k}',
                             'with late-starting workers not every local pair is computed exactly once',
                             {'Nu': Nu, 'Nv': Nv, 'k': k, 'rule': name, 'calls': calls})
    finally:
        threading.Thread.run = orig_run
    ctx.extra['late_start_rules'] = [n for n, _ in rules]


def _raising(ctx):
    from skfem.assembly import BilinearForm
    rng = ctx.rng

    class Boom(RuntimeError):
        pass
    for Nu, Nv in [(2, 3), (3, 2), (1, 1), (3, 3)][:ctx.n(3, 4)]:
        nt, nq = 2, 1
        u = Stub(5, [[rng.randrange(5) for _ in range(nt)] for _ in range(Nu)], [1 + j for j in range(Nu)], nq)
        v = Stub(6, [[rng.randrange(6) for _ in range(nt)] for _ in range(Nv)], [10 * (i + 1) for i in range(Nv)], nq)
        bj, bi = rng.randrange(Nu), rng.randrange(Nv)

        def form(uu, vv, w):
            if int(uu.value[0, 0]) % 1000 == 1 + bj and int(vv.value[0, 0]) % 1000 == 10 * (bi + 1):
                raise Boom('integrand fails for local pair (i=%d, j=%d)' % (bi, bj))
            return uu * vv
        try:
            BilinearForm(form)._assemble(u, v)
            serial_raised = False
        except Boom:
            serial_raised = True
        for k in range(1, Nu * Nv + 3):
            ctx.count(('raising', Nu, Nv, k, bi, bj), nontrivial=True)
            try:
                got = BilinearForm(form, nthreads=k)._assemble(u, v)
                raised = False
            except Boom:
                raised = True
            if raised and serial_raised:
                # history: the SAME threaded form object, failure switched off, must now assemble like serial
                flag = {'boom': True}

                def form2(uu, vv, w):
                    if flag['boom'] and int(uu.value[0, 0]) % 1000 == 1 + bj and int(vv.value[0, 0]) % 1000 == 10 * (bi + 1):
                        raise Boom('first assembly fails')
                    return uu * vv
                f2 = BilinearForm(form2, nthreads=k)
                try:
                    f2._assemble(u, v)
                except Boom:
                    pass
                flag['boom'] = False
                ok_serial = BilinearForm(lambda uu, vv, w: uu * vv)._assemble(u, v)
                try:
                    again = f2._assemble(u, v)
                    same = np.array_equal(again[1], ok_serial[1]) and np.array_equal(again[0], ok_serial[0])
                    if not same:
                        ctx.fail(f'after-failed-assembly!=serial:k={k}', 'a threaded form assembled again after an assembly whose integrand '
                                 'raised differs from serial', {'Nu': Nu, 'Nv': Nv, 'k': k})
                except Exception as e:
                    ctx.fail(f'after-failed-assembly-raises:k={k}', f'a threaded form whose earlier assembly raised (and was caught) raises '
                             f'{type(e).__name__} again although the integrand now succeeds: {e}', {'Nu': Nu, 'Nv': Nv, 'k': k})
            if raised != serial_raised:
                ctx.fail(f'exception-lost-in-worker:Nu={Nu}:Nv={Nv}:k={k}',
                         'the integrand raises for one local pair: serial assembly raises, threaded assembly returns a '
                         '(silently incomplete) result',
                         {'Nu': Nu, 'Nv': Nv, 'k': k, 'failing_pair_ij': [bi, bj], 'serial_raised': serial_raised,
                          'threaded_raised': raised, 'threaded_data': None if raised else got[1].tolist()})


def _form_reuse(ctx):
    """history: the same BilinearForm(nthreads=k) object is assembled again and again with other local sizes
    (equal trial size / other test size, and the reverse); each result must equal a fresh serial assembly"""
    from skfem.assembly import BilinearForm
    rng = ctx.rng
    for k in (2, 3) if ctx.quick() else (1, 2, 3, 5):
        form = BilinearForm(lambda uu, vv, w: uu * vv, nthreads=k)
        seq = [(2, 2), (2, 3), (2, 1), (3, 3), (3, 2), (2, 4), (1, 4), (2, 2)]
        hist = []
        for Nu, Nv in seq:
            nt, nq = 2, 1
            u = Stub(5, [[rng.randrange(5) for _ in range(nt)] for _ in range(Nu)], [1 + j for j in range(Nu)], nq)
            v = Stub(6, [[rng.randrange(6) for _ in range(nt)] for _ in range(Nv)], [10 * (i + 1) for i in range(Nv)], nq)
            hist.append([Nu, Nv])
            serial = BilinearForm(lambda uu, vv, w: uu * vv)._assemble(u, v)
            ctx.count(('form-reuse', k, tuple(map(tuple, hist))), nontrivial=len(hist) > 1)
            try:
                got = form._assemble(u, v)
            except Exception as e:
                ctx.fail(f'form-reuse:exception:k={k}', f'a long-lived threaded form raises {type(e).__name__} when assembled again '
                         f'with other local sizes: {e}', {'k': k, 'history_NuNv': hist})
                break
            if not (np.array_equal(got[1], serial[1]) and np.array_equal(got[0], serial[0])):
                ctx.fail(f'form-reuse!=serial:k={k}', 'a long-lived threaded form assembled again with other local sizes '
                         'differs from serial assembly', {'k': k, 'history_NuNv': hist, 'serial': serial[1].tolist(), 'got': got[1].tolist()})
                break


def _multiset_perms(items):
    """all distinct orderings of a multiset"""
    from collections import Counter
    cnt = Counter(items)
    n = len(items)
    out = []

    def rec(prefix):
        if len(prefix) == n:
            out.append(tuple(prefix))
            return
        for k in sorted(cnt):
            if cnt[k] > 0:
                cnt[k] -= 1
                prefix.append(k)
                rec(prefix)
                prefix.pop()
                cnt[k] += 1
    rec([])
    return out


def _run_turnstile(u, v, Nu, Nv, k, order):
    from skfem.assembly import BilinearForm
    utag = {int(u.basis[j][0].value[0, 0]) % 1000: j for j in range(Nu)}
    vtag = {int(v.basis[i][0].value[0, 0]) % 1000: i for i in range(Nv)}
    cond = threading.Condition()
    state = {'pos': 0, 'dead': False}
    trace = []

    def form(uu, vv, w):
        ij = (vtag[int(vv.value[0, 0]) % 1000], utag[int(uu.value[0, 0]) % 1000])
        with cond:
            ok = cond.wait_for(lambda: state['dead'] or (state['pos'] < len(order) and order[state['pos']] == ij), timeout=2.0)
            if not ok or state['dead']:
                state['dead'] = True
                cond.notify_all()
                return uu * vv
            trace.append(ij)
            out = uu * vv
            state['pos'] += 1
            cond.notify_all()
        return out
    res = BilinearForm(form, nthreads=k)._assemble(u, v)
    if state['dead']:
        return None, trace
    return res, trace


def _call_forms(ctx):
    """coverage of the PUBLIC call forms that forward to BilinearForm._assemble: every one of them, built with
    nthreads=k, must give exactly the serial result, leave its inputs (w arrays, basis arrays) untouched, and keep
    nthreads across the wrappers that copy the form (decorator, partial, block, Form(form))."""
    import skfem
    from skfem.assembly import BilinearForm, Basis, FacetBasis, asm
    from skfem.helpers import dot, grad
    rng = ctx.rng
    m = skfem.MeshTri().refined(1)
    e1, e2 = skfem.ElementTriP1(), skfem.ElementTriP2()
    ub, vb = Basis(m, e2, intorder=4), Basis(m, e1, intorder=4)
    fb = FacetBasis(m, e2, intorder=3)
    cb = Basis(m, skfem.ElementVector(e2) * e1, intorder=4)
    wvec = np.linspace(0.5, 1.5, ub.N)
    wfield = ub.interpolate(wvec)
    table = []

    def mass(u, v, w):
        return u * v

    def coef(u, v, w):
        return w.c * w['a'] * u * v + w.s * dot(grad(u), grad(v))

    def stokes(u, p, v, q, w):
        return dot(u, v) + p * q + u[0] * q

    def two(a, u, v, w):
        return a * u * v

    def pair(u1, u2, v1, v2, w):
        return u1 * v1 + 2.0 * u2 * v2 + 3.0 * u1 * v2 + 5.0 * u2 * v1

    def cplx(u, v, w):
        return (1.0 + 2.0j) * u * v

    def dense(x):
        return x.toarray() if hasattr(x, 'toarray') else np.asarray(x)

    ks = [1, 2, 3, 7] if ctx.quick() else [1, 2, 3, 4, 5, 7, 11, 20]
    forms = {
        'BilinearForm(f, nthreads=k).assemble(u, v)': lambda k, F: F(mass, nthreads=k).assemble(ub, vb),
        '@BilinearForm(nthreads=k) decorator': lambda k, F: F(nthreads=k)(mass).assemble(ub, vb),
        'BilinearForm(BilinearForm(f), nthreads=k)': lambda k, F: F(F(mass), nthreads=k).assemble(ub, vb),
        'assemble(u) [vbasis=None]': lambda k, F: F(mass, nthreads=k).assemble(ub),
        'elemental().todefault()': lambda k, F: F(mass, nthreads=k).elemental(ub, vb).todefault(),
        'elemental().toarray()': lambda k, F: F(mass, nthreads=k).elemental(ub, vb).toarray(),
        'coo_data().tocsr()': lambda k, F: F(mass, nthreads=k).coo_data(ub, vb).tocsr(),
        'asm(form, u, v)': lambda k, F: asm(F(mass, nthreads=k), ub, vb),
        'asm(form, [u, u], [v, v])': lambda k, F: asm(F(mass, nthreads=k), [ub, ub], [vb, vb]),
        'kwargs: DOF vector, scalar, DiscreteField': lambda k, F: F(coef, nthreads=k).assemble(ub, ub, c=wvec, s=2.5, a=wfield),
        'partial(a)': lambda k, F: F(two, nthreads=k).partial(3.0).assemble(ub, vb),
        'dtype=complex': lambda k, F: F(cplx, nthreads=k, dtype=np.complex128).assemble(ub, vb),
        'FacetBasis': lambda k, F: F(mass, nthreads=k).assemble(fb),
        'CompositeBasis (vector x scalar)': lambda k, F: F(stokes, nthreads=k).assemble(cb),
        'block(0, 0) of a two-field form': lambda k, F: F(pair, nthreads=k).block(0, 0).assemble(ub, vb),
        'block(1, 0) of a two-field form': lambda k, F: F(pair, nthreads=k).block(1, 0).assemble(ub, vb),
        'block(0, 1) of a two-field form': lambda k, F: F(pair, nthreads=k).block(0, 1).assemble(ub, vb),
        'params of the constructor kept (**params)': lambda k, F: F(mass, nthreads=k, hint=1).assemble(ub, vb),
    }
    for name, call in forms.items():
        try:
            ref = dense(call(0, BilinearForm))
        except Exception as e:      # a call form that does not work serially either is outside this property
            table.append({'callable': name, 'covered_before': False, 'covered_now': False,
                          'note': f'serial call raises {type(e).__name__}; not a C16 matter'})
            continue
        ok = True
        for k in ks:
            sums = (float(wvec.sum()), float(wfield.value.sum()), checksum_real(ub), checksum_real(vb))
            ctx.count(('call-form', name, k), nontrivial=k >= 2)
            try:
                got = dense(call(k, BilinearForm))
            except Exception as e:
                ok = False
                ctx.fail(f'call-form-raises:{name}', f'{name} with nthreads={k} raises {type(e).__name__}: {e} (serial works)',
                         {'call_form': name, 'k': k})
                break
            if got.shape != ref.shape or not np.array_equal(got, ref):
                ok = False
                ctx.fail(f'call-form!=serial:{name}', f'{name} with nthreads={k} differs from the serial result',
                         {'call_form': name, 'k': k,
                          'max_abs_diff': float(abs(got - ref).max()) if got.shape == ref.shape else None})
                break
            if sums != (float(wvec.sum()), float(wfield.value.sum()), checksum_real(ub), checksum_real(vb)):
                ok = False
                ctx.fail(f'call-form-modifies-inputs:{name}', f'{name} with nthreads={k} modifies a shared input',
                         {'call_form': name, 'k': k})
                break
        table.append({'callable': name, 'covered_before': name.startswith('BilinearForm(f, nthreads=k)'),
                      'covered_now': True, 'agrees_with_serial': ok})
    # the wrappers that copy a form must keep the thread count (else a "threaded" form silently runs serially: not a
    # violation of equality, recorded only)
    kept = {}
    F = BilinearForm
    kept['decorator'] = F(nthreads=3)(mass).nthreads
    kept['partial'] = F(two, nthreads=3).partial(1.0).nthreads
    kept['block'] = F(pair, nthreads=3).block(0, 0).nthreads
    ctx.extra['nthreads_kept_by_wrappers'] = kept
    # workers really run in the wrappers: count distinct worker thread names seen by the integrand
    import threading
    for name, mk in (('decorator', lambda: F(nthreads=3)), ('partial', None), ('block', None)):
        seen = set()

        def spy(u, v, w):
            seen.add(threading.current_thread().name)
            return u * v

        def spy2(a, u, v, w):
            seen.add(threading.current_thread().name)
            return a * u * v

        def spy4(u1, u2, v1, v2, w):
            seen.add(threading.current_thread().name)
            return u1 * v1 + u2 * v2
        if name == 'decorator':
            F(nthreads=3)(spy).assemble(ub, vb)
        elif name == 'partial':
            F(spy2, nthreads=3).partial(1.0).assemble(ub, vb)
        else:
            F(spy4, nthreads=3).block(0, 0).assemble(ub, vb)
        table.append({'callable': f'{name}: worker threads used', 'covered_before': False, 'covered_now': True,
                      'distinct_threads': len(seen)})
    table += [
        {'callable': 'LinearForm / Functional / TrilinearForm(nthreads=k)', 'covered_before': False, 'covered_now': False,
         'note': 'nthreads is accepted and ignored there (no threaded branch in their _assemble); out of scope of C16, '
                 'which is about bilinear forms'},
        {'callable': 'Form._normalize_asm_kwargs list-of-DiscreteField (deprecated)', 'covered_before': False,
         'covered_now': False, 'note': 'runs before the threaded branch, identically for serial; not schedule-dependent'},
    ]
    ctx.extra['api_coverage'] = table


def checksum_real(basis):
    tot = 0.0
    for b in basis.basis:
        for f in (b if isinstance(b, tuple) else (b,)):
            for a in f:
                if a is not None and hasattr(a, 'sum'):
                    tot += float(np.asarray(a).sum())
    return tot


def _oracle_real(ctx):
    import skfem
    from skfem.assembly import BilinearForm, Basis
    from skfem.helpers import dot, grad
    rng = ctx.rng
    cfgs = [(skfem.MeshTri().refined(1), skfem.ElementTriP1(), skfem.ElementTriP2()),
            (skfem.MeshQuad().refined(1), skfem.ElementQuad1(), skfem.ElementQuad1()),
            (skfem.MeshTet(), skfem.ElementTetP1(), skfem.ElementTetP0())]
    if not ctx.quick():
        cfgs += [(skfem.MeshTri().refined(2), skfem.ElementTriP2(), skfem.ElementTriP2()),
                 (skfem.MeshLine().refined(3), skfem.ElementLineP2(), skfem.ElementLineP1())]
    for m, eu, ev in cfgs:
        ub = Basis(m, eu, intorder=4)
        vb = Basis(m, ev, intorder=4)

        def form(u, v, w):
            return (1.0 + w.x[0]) * u * v + (dot(grad(u), grad(v)) if eu.dim == ev.dim and ev.maxdeg > 0 and eu.maxdeg > 0 else 0 * u * v)
        A = BilinearForm(form).assemble(ub, vb)
        ks = list(range(1, ub.Nbfun * vb.Nbfun + 3))
        if ctx.quick() and len(ks) > 8:
            ks = ks[:4] + rng.sample(ks[4:], 4)
        for k in ks:
            ctx.count(('real', type(m).__name__, type(eu).__name__, type(ev).__name__, k), nontrivial=k >= 2)
            try:
                B = BilinearForm(form, nthreads=k).assemble(ub, vb)
            except Exception as e:
                ctx.fail(f'real-threaded-raises:{type(eu).__name__}x{type(ev).__name__}:k={k}',
                         f'threaded assembly of an integrand that reads w.x raises {type(e).__name__}: {e} (serial assembly works)',
                         {'mesh': type(m).__name__, 'trial': type(eu).__name__, 'test': type(ev).__name__, 'k': k})
                continue
            if (A != B).nnz != 0 or A.shape != B.shape:
                ctx.fail(f'real-threaded!=serial:{type(eu).__name__}x{type(ev).__name__}:k={k}',
                         'threaded matrix differs from serial on a real basis',
                         {'mesh': type(m).__name__, 'trial': type(eu).__name__, 'test': type(ev).__name__, 'k': k,
                          'max_abs_diff': float(abs(A - B).max())})


def replay(ctx, data):
    ctx.log('replaying', data.get('key'))
    run(ctx)
