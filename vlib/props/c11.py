"""C11 — derived mesh connectivity is coherent with the cell list.

tie T1 : Gen/C11Refdom.v — the refdom slot tables (facets / edges / nnodes of every reference cell), the
         boundary refdom of every mesh class and the sort flag of its _init_facets are re-read from /repo on
         every run (tables by evaluation, call shapes by a fail-closed ast check); dyn/C11Tie.v proves the
         side conditions of the theorems for exactly these tables (slots distinct, nfacets <= nnodes,
         facet edges = cell edges, consecutive facet vertices = edges ...).
tie T3 : Model.C11_Topo (build_entities, build_inverse, boundary_* / interior_*, f2e) is evaluated by
         vm_compute on the cell lists of random small meshes of every type and must reproduce EVERY derived
         table of the real Mesh object exactly.
proof  : props/C11.v — for every cell list and slot table.
oracle : set-based check of the property statement on the real Mesh objects (larger meshes as well).
"""
import ast

import numpy as np

from .. import t2
from .. import c11_meshes as M
from ..core import TranslateError, cbool, clist, cnat, cnats, cz, np_seed

KINDS = M.KINDS
NV_OF = {'f': None}     # set by translate(): the number interior_nodes complements in
REFDOM = {'line': 'RefLine', 'tri': 'RefTri', 'quad': 'RefQuad', 'tet': 'RefTet', 'hex': 'RefHex', 'wedge': 'RefWedge'}


# ------------------------------------------------------------------------------ T1 translator

def _expect(node, text, what):
    got = t2.src(node)
    if got != text:
        raise TranslateError(f'{what}: expected `{text}`, found `{got}`')


def _body(fn):
    return [s for s in fn.body if not (isinstance(s, ast.Expr) and isinstance(s.value, ast.Constant))]


def translate():
    """Gen/C11Refdom.v from skfem/refdom.py (evaluated) and the call shapes in skfem/mesh/*.py (ast)."""
    import skfem
    import skfem.refdom as R
    tree = t2.parse('skfem/mesh/mesh.py')
    # --- the call sites that feed the tables into build_entities / build_inverse
    be = t2.find_def(tree, 'build_entities', 'Mesh')
    args = [a.arg for a in be.args.args]
    if args != ['t', 'indices', 'sort'] or [t2.src(d) for d in be.args.defaults] != ['True']:
        raise TranslateError('build_entities signature: ' + repr(args))
    got = [t2.src(x) for x in _body(be)]
    want = ['if indices is None:\n    return (None, None)',
            'indexing = np.hstack(tuple([t[ix] for ix in indices]))',
            'sorted_indexing = Mesh._sort_entities(indexing)',
            'sorted_indexing, ixa, ixb = np.unique(sorted_indexing, axis=1, return_index=True, return_inverse=True)',
            'mapping = ixb.reshape((len(indices), t.shape[1]))',
            'if sort:\n    return (np.ascontiguousarray(sorted_indexing), mapping)',
            'return (np.ascontiguousarray(indexing[:, ixa]), mapping)']
    if got != want:
        raise TranslateError('Mesh.build_entities body: ' + repr([g for g, w in zip(got + [''] * 9, want + [''] * 9) if g != w][:2]))
    se = t2.find_def(tree, '_sort_entities', 'Mesh')
    got = [t2.src(x) for x in _body(se)]
    want = ['out = np.sort(indexing, axis=0)', 'repeated = out[1:] == out[:-1]', 'cols = np.nonzero(repeated.any(axis=0))[0]',
            'if len(cols) > 0:\n    rows = np.arange(out.shape[0])[:, None]\n    last = repeated[:, cols].argmax(axis=0) + 1\n'
            '    out[:, cols] = out[np.where(rows <= last, np.maximum(rows - 1, 0), rows), cols]',
            'return out']
    if got != want:
        raise TranslateError('Mesh._sort_entities body: ' + repr([g for g, w in zip(got + [''] * 9, want + [''] * 9) if g != w][:2]))
    f = t2.find_def(tree, '_init_facets', 'Mesh')
    _expect(t2.only(_body(f), '_init_facets body'),
            'self._facets, self._t2f = self.build_entities(self.t, self.elem.refdom.facets)', 'Mesh._init_facets')
    f = t2.find_def(tree, '_init_edges', 'Mesh')
    _expect(t2.only(_body(f), '_init_edges body'),
            'self._edges, self._t2e = self.build_entities(self.t, self.elem.refdom.edges)', 'Mesh._init_edges')
    f = t2.find_def(tree, 'f2t', 'Mesh')
    st = t2.only([s for s in ast.walk(f) if isinstance(s, ast.Assign)], 'f2t assignment')
    _expect(st, 'self._f2t = self.build_inverse(self.t, self.t2f)', 'Mesh.f2t')
    f = t2.find_def(tree, 'f2e', 'Mesh')
    st = t2.only([s for s in ast.walk(f) if isinstance(s, ast.Assign)], 'f2e assignment')
    _expect(st, '_, self._f2e = self.build_entities(self.facets, self.bndelem.refdom.facets)', 'Mesh.f2e')
    # --- boundary_edges (mesh.py) and interior_edges (mesh_3d.py): the statements the model follows
    f = t2.find_def(tree, 'boundary_edges', 'Mesh')
    want = ['refdom = self.elem.refdom',
            'facet_edges = np.array([[set(edge) <= set(facet) for edge in refdom.edges] for facet in refdom.facets], dtype=np.int32)',
            'facets = self.boundary_facets()',
            'cells = self.f2t[0, facets]',
            'local_facets = (self.t2f[:, cells] == facets).astype(np.int32)',
            'local_edges = facet_edges.T @ local_facets > 0',
            'return np.unique(self.t2e[:, cells][local_edges])']
    got = [t2.src(s) for s in _body(f)]
    if got != want:
        raise TranslateError('Mesh.boundary_edges body: ' + repr([g for g, w in zip(got + [''] * 9, want + [''] * 9) if g != w][:2]))
    t3 = t2.parse('skfem/mesh/mesh_3d.py')
    f = t2.find_def(t3, 'interior_edges', 'Mesh3D')
    _expect(t2.only(_body(f), 'interior_edges body'),
            'return np.setdiff1d(np.arange(self.edges.shape[1], dtype=np.int32), self.boundary_edges())', 'Mesh3D.interior_edges')
    for nm, fn in (('boundary_facets', 'return np.nonzero(self.f2t[1] == -1)[0].astype(np.int32)'),
                   ('boundary_nodes', 'return np.unique(self.facets[:, self.boundary_facets()])'),
                   ):
        _expect(t2.only(_body(t2.find_def(tree, nm, 'Mesh')), nm + ' body'), fn, 'Mesh.' + nm)
    # interior_nodes: complement of the boundary nodes in range(number of vertices); the source may spell that number as the
    # number of points or as max(t) + 1 (they differ for higher-order meshes only)
    got = t2.src(t2.only(_body(t2.find_def(tree, 'interior_nodes', 'Mesh')), 'interior_nodes body'))
    spell = {'return np.setdiff1d(np.arange(0, self.p.shape[1]), self.boundary_nodes())': lambda m: int(m.p.shape[1]),
             'return np.setdiff1d(np.arange(0, self.nvertices), self.boundary_nodes())': lambda m: int(m.nvertices)}
    if got not in spell:
        raise TranslateError('Mesh.interior_nodes: ' + got)
    NV_OF['f'] = spell[got]
    nvp = t2.find_def(tree, 'nvertices', 'Mesh')
    _expect(t2.only(_body(nvp), 'nvertices body'), 'return np.max(self.t) + 1', 'Mesh.nvertices')
    # --- per mesh class: refdom, boundary refdom, sort flag
    lines = []
    names = {}
    for kind, rn in REFDOM.items():
        r = getattr(R, rn)
        fac = [[int(x) for x in row] for row in r.facets]
        edg = [[int(x) for x in row] for row in (r.edges or [])]
        if int(r.nfacets) != len(fac) or int(r.nedges) != len(edg):
            raise TranslateError(f'{rn}: nfacets/nedges do not match the tables')
        lines.append(f'Definition {kind}_nnodes : nat := {int(r.nnodes)}.')
        lines.append(f'Definition {kind}_facets : list (list nat) := {clist([cnats(x) for x in fac])}.')
        lines.append(f'Definition {kind}_edges : list (list nat) := {clist([cnats(x) for x in edg])}.')
        names[r] = kind
    for kind in KINDS:
        cls = M.mesh_class(kind)
        r = cls.elem.refdom
        if names.get(r) != kind:
            raise TranslateError(f'{cls.__name__}.elem.refdom is {r.__name__}')
        for attr in ('_init_edges', 'build_entities', 'build_inverse', 'boundary_edges', 'boundary_facets', 'boundary_nodes', 'interior_nodes'):
            if getattr(cls, attr) is not getattr(skfem.Mesh, attr):
                raise TranslateError(f'{cls.__name__} overrides {attr}')
        if cls._init_facets is skfem.Mesh._init_facets:
            sortf = True
        else:
            owner = [c for c in cls.__mro__ if '_init_facets' in c.__dict__][0]
            mod = owner.__module__.replace('.', '/') + '.py'
            fn = t2.find_def(t2.parse(mod), '_init_facets', owner.__name__)
            _expect(t2.only(_body(fn), f'{owner.__name__}._init_facets body'),
                    'self._facets, self._t2f = self.build_entities(self.t, self.elem.refdom.facets, sort=False)',
                    f'{owner.__name__}._init_facets')
            sortf = False
        lines.append(f'Definition {kind}_sortf : bool := {cbool(sortf)}.')
        from skfem.element import BOUNDARY_ELEMENT_MAP
        b = BOUNDARY_ELEMENT_MAP.get(cls.elem)
        if b is None:
            lines.append(f'Definition {kind}_bnd : list (list nat) := [].   (* no boundary element *)')
        else:
            bk = names.get(b.refdom)
            if bk is None:
                raise TranslateError(f'{cls.__name__}: boundary refdom {b.refdom.__name__} unknown')
            lines.append(f'Definition {kind}_bnd : list (list nat) := {bk}_facets.   (* {b.__name__}.refdom *)')
    return ('(* GENERATED by vlib/props/c11.py from skfem/refdom.py and skfem/mesh/*.py — do not edit *)\n'
            'From Coq Require Import List.\nImport ListNotations.\n' + '\n'.join(lines) + '\n')


# ------------------------------------------------------------------------------ terms

def ccols(a):
    """a 2-D integer array as the list of its COLUMNS (nat)"""
    a = np.asarray(a)
    return clist([cnats(a[:, j].tolist()) for j in range(a.shape[1])])


def crows(a):
    a = np.asarray(a)
    return clist([cnats(r.tolist()) for r in a])


def crows_z(a):
    a = np.asarray(a)
    return clist([clist([cz(x) for x in r.tolist()]) for r in a])


CORR_DEFS = '''
Definition zl (l : list nat) : list Z := map Z.of_nat l.
Definition zll (m : list (list nat)) : list (list Z) := map zl m.
Definition run2 (c : string_kind * nat * list (list nat)) : list (list (list Z)) :=
  let '(k, nv, cells) := c in
  let tb := derive (k_sortf k) nv cells (k_facets k) in
  [zll (T_facets tb); zll (T_t2f tb); T_f2t tb; [zl (T_bfacets tb)]; [zl (T_bnodes tb)]; [zl (T_inodes tb)]].
Definition runinc (c : string_kind * nat * list (list nat)) : list (list (list Z)) :=
  let '(k, nv, cells) := c in
  let '(fac, _) := build_entities (k_sortf k) cells (k_facets k) in
  let '(edg, _) := build_entities true cells (k_edges k) in
  let n := nvertices cells in
  [zll (incidence_01 fac n); zll (incidence_count cells n); zll (incidence_count edg n);
   match edg with [] => [] | _ => zll (e2t_matrix cells edg) end].
Definition run3 (c : string_kind * nat * list (list nat)) : list (list (list Z)) :=
  let '(k, nv, cells) := c in
  let tb := derive3 (k_sortf k) cells (k_facets k) (k_edges k) (k_bnd k) in
  [zll (T_edges tb); zll (T_t2e tb); [zl (T_bedges tb)]; [zl (T_iedges tb)]].
Definition runf2e (c : string_kind * nat * list (list nat)) : list (list Z) :=
  let '(k, nv, cells) := c in
  zll (T_f2e (derive3 (k_sortf k) cells (k_facets k) (k_edges k) (k_bnd k))).
'''


def kind_defs():
    cases = lambda suffix: ' | '.join(f'K{k} => {k}_{suffix}' for k in KINDS)
    return ('Inductive string_kind := ' + ' | '.join('K' + k for k in KINDS) + '.\n'
            + f'Definition k_sortf k := match k with {cases("sortf")} end.\n'
            + f'Definition k_facets k := match k with {cases("facets")} end.\n'
            + f'Definition k_edges k := match k with {cases("edges")} end.\n'
            + f'Definition k_bnd k := match k with {cases("bnd")} end.\n')


def zrows(a):
    return clist([clist([cz(x) for x in np.asarray(r).tolist()]) for r in a])


def tables2(m):
    """what the implementation derived, canonicalised like CORR_DEFS.run2"""
    return clist([zrows(m.facets.T), zrows(m.t2f), zrows(m.f2t), zrows([m.boundary_facets()]),
                  zrows([m.boundary_nodes()]), zrows([m.interior_nodes()])])


def case_input(kind, m):
    nvf = NV_OF['f'] or (lambda mm: int(mm.p.shape[1]))
    return f'(K{kind}, {cnat(nvf(m))}, {ccols(m.t)})'


# ------------------------------------------------------------------------------ the check

def run(ctx):
    ctx.cov['rule'] = ('meshes: line/tri/quad/tet/hex/wedge; Delaunay (scipy.spatial) and structured, carved (holes, several '
                       'components), vertices renumbered, cells permuted, local symmetries of the reference cell applied per '
                       'cell; plus purely combinatorial random cell lists (non-manifold, repeated vertices).  non-trivial = at '
                       'least 2 cells sharing a facet; distinct by content')
    ctx.trusted += ['NumPy np.unique / np.sort / fancy indexing (modelled, corresponded)',
                    'scipy.sparse incidence matrices p2f/p2t/p2e/e2t (oracle only)']
    ctx.assumptions += ['f2t_exact assumes every facet lies in at most two cells and the vertices of a cell are pairwise '
                        'distinct (manifold input; stated as hypotheses of the theorem)']
    ctx.ensure_static()
    try:
        ctx.write_gen('C11Refdom', translate())
        gen_ok = True
    except TranslateError as e:
        ctx.broke('translator', 'c11.translate(refdom.py, mesh/*.py)', e)
        gen_ok = False
    if gen_ok:
        try:      # the option plumbing of nodes_satisfying / facets_satisfying / elements_satisfying (translator shared with C07)
            from . import c07 as C07
            fs, ns = C07.translate_satisfying()
            ctx.write_gen('C11Wrap', '(* GENERATED by vlib/props/c11.py from skfem/mesh/mesh.py, the x_satisfying selectors — do not edit *)\n'
                          'From Coq Require Import List Arith.\nRequire Import Model.C07_Query.\n' + C07.SATISFYING_DEFS.format(fs=fs, ns=ns))
        except TranslateError as e:
            ctx.broke('translator', 'c07.translate_satisfying(mesh.py)', e)
            gen_ok = False
    if gen_ok:
        ctx.compile_dyn(['gen/C11Refdom.v', 'gen/C11Wrap.v'] + ctx.copy_dyn())
        ctx.prove()
    rng = np_seed(ctx, 11)
    if gen_ok:
        _correspond(ctx, rng)
    _oracle(ctx, rng)


def _shares(m):
    return bool((m.f2t[1] >= 0).any())


def _correspond(ctx, rng):
    imports = ('Require Import Base.C11_Unique Model.C11_Topo Gen.C11Refdom.\n'
               'From Coq Require Import List ZArith Bool.')
    defs = kind_defs() + CORR_DEFS
    n_geo = ctx.n(20, 120)
    n_abs = ctx.n(8, 40)
    cases2, cases3, casesf, casesi = [], [], [], []
    import skfem
    # second-order meshes: the cell table lists the vertices only, the point array has more columns
    for kind2, cls2 in (('tri', skfem.MeshTri2), ('quad', skfem.MeshQuad2), ('tet', skfem.MeshTet2), ('hex', skfem.MeshHex2)):
        m2 = cls2().refined(1)
        cases2.append((case_input(kind2, m2), tables2(m2), (kind2, 'second-order', m2.t.shape[1], True)))
    for kind in KINDS:
        for i in range(n_geo + n_abs):
            if i < n_geo:
                m, info = M.gen_mesh(rng, kind, maxcells=ctx.n(24, 40) if kind not in ('hex', 'wedge') else ctx.n(12, 27))
            else:
                m, info = M.gen_abstract(rng, kind, maxcells=10)
            ctx.hist('corr_kind', kind)
            ctx.hist('corr_style', info['style'])
            ctx.hist('corr_cells', 10 * (m.t.shape[1] // 10))
            for nm in [LAZY[int(j)] for j in rng.permutation(len(LAZY))][:4]:      # whatever was read before must not matter
                try:
                    v = getattr(m, nm)
                    v() if callable(v) and not hasattr(v, 'shape') else None
                except Exception:
                    pass
            try:
                rep = (kind, info['style'], m.t.shape[1], _shares(m))
                out2 = tables2(m)
                out3 = outf = None
                if kind in ('tet', 'hex', 'wedge'):
                    out3 = clist([zrows(m.edges.T), zrows(m.t2e), zrows([np.sort(m.boundary_edges())]),
                                  zrows([np.sort(m.interior_edges())])])
                    if m.bndelem is not None:
                        outf = zrows(m.f2e)
            except Exception as ex:     # the implementation raised on a mesh it accepted: a failing input
                if info['style'] != 'abstract':
                    ctx.fail(f'{kind}:exception', f'{type(m).__name__}: deriving the connectivity raises {type(ex).__name__}: {ex}',
                             {'kind': kind, 'p': np.asarray(m.p).tolist(), 't': np.asarray(m.t).tolist(), 'info': info})
                continue
            cases2.append((case_input(kind, m), out2, rep))
            if m.t.shape[1] <= 8 and len(casesi) < 40 and i % 3 == 0:
                dense = lambda A: zrows(np.asarray(A.toarray()).astype(int))
                three = kind in ('tet', 'hex', 'wedge')
                casesi.append((case_input(kind, m), clist([dense(m.p2f), dense(m.p2t), dense(m.p2e) if three else '(@nil (list Z))',
                                                          dense(m.e2t) if three else '(@nil (list Z))']), rep))
            if len(ctx.cov['samples']) < 3 and i == 1:
                ctx.sample({'kind': kind, 'info': info, 't': m.t.T.tolist(), 'facets': m.facets.T.tolist(),
                            't2f': m.t2f.tolist(), 'f2t': m.f2t.tolist()})
            if out3 is not None:
                cases3.append((case_input(kind, m), out3, rep))
            if outf is not None:
                casesf.append((case_input(kind, m), outf, rep))
    ctx.corr('tables', imports, 'run2', 'zsss_eqb', cases2, per_file=min(400, -(-len(cases2) // 4)), defs=defs, nontrivial=lambda r: r[3])
    ctx.corr('tables3d', imports, 'run3', 'zsss_eqb', cases3, per_file=min(400, -(-len(cases3) // 3)), defs=defs, nontrivial=lambda r: r[3])
    ctx.corr('incidence', imports, 'runinc', 'zsss_eqb', casesi, per_file=min(400, -(-len(casesi) // 2)), defs=defs, nontrivial=lambda r: r[3])
    ctx.corr('f2e', imports, 'runf2e', 'zss_eqb', casesf, per_file=min(400, -(-len(casesf) // 2)), defs=defs, nontrivial=lambda r: r[3])


# ------------------------------------------------------------------------------ oracle (set based, independent code)

def _slot_tables(kind):
    import skfem.refdom as R
    r = getattr(R, REFDOM[kind])
    return [list(x) for x in r.facets], [list(x) for x in (r.edges or [])]


_GEO = {}


def geometric_slots(kind):
    """(facets, edges) of the reference cell as sets of local vertex numbers, derived from the COORDINATES of the reference
    vertices only (faces of the convex hull; two vertices span an edge iff they lie on >= 2 common faces in 3-D, on a common
    face in 2-D).  Independent of RefXxx.facets / RefXxx.edges."""
    if kind in _GEO:
        return _GEO[kind]
    import skfem.refdom as R
    P = np.asarray(getattr(R, REFDOM[kind]).p, dtype=float)
    d, n = P.shape
    if d == 1:
        faces = [frozenset([int(np.argmin(P[0]))]), frozenset([int(np.argmax(P[0]))])]
        edges = set()
    else:
        from scipy.spatial import ConvexHull
        hull = ConvexHull(P.T)
        planes = {}
        for eq in hull.equations:
            key = tuple(np.round(eq / np.linalg.norm(eq[:-1]), 9))
            on = frozenset(i for i in range(n) if abs(float(eq[:-1] @ P[:, i] + eq[-1])) < 1e-9)
            planes[key] = planes.get(key, frozenset()) | on
        faces = sorted(set(planes.values()), key=sorted)
        edges = set()
        if d == 3:
            for i in range(n):
                for j in range(i + 1, n):
                    if sum(1 for f in faces if i in f and j in f) >= 2:
                        edges.add(frozenset((i, j)))
    _GEO[kind] = (set(faces), edges)
    return _GEO[kind]


def oracle_refdom(kind):
    """the slot tables against the geometry of the reference cell; returns list of (table, message)"""
    bad = []
    fslots, eslots = _slot_tables(kind)
    faces, edges = geometric_slots(kind)
    got_f = [frozenset(s) for s in fslots]
    if set(got_f) != faces or len(set(got_f)) != len(got_f):
        bad.append(('facets', f'refdom facet slots {fslots} are not (once each) the faces {sorted(map(sorted, faces))} of the reference cell'))
    if kind in ('tet', 'hex', 'wedge'):
        got_e = [frozenset(s) for s in eslots]
        if set(got_e) != edges or len(set(got_e)) != len(got_e):
            bad.append(('edges', f'refdom edge slots {eslots} are not (once each) the edges {sorted(map(sorted, edges))} of the reference cell'))
    return bad


def oracle_mesh(kind, m, manifold=True):
    """direct check of the property statement on one Mesh object; returns list of (table, message)"""
    bad = []
    t = np.asarray(m.t)
    nt = t.shape[1]
    fslots, eslots = _slot_tables(kind)
    three_d = kind in ('tet', 'hex', 'wedge')

    distinct_cells = all(len(set(t[:, e].tolist())) == t.shape[0] for e in range(nt))
    if not distinct_cells:
        return bad        # a repeated vertex inside a cell: not a mesh the property speaks about (correspondence still covers it)
    # an entity IS its vertex set (for cells with distinct vertices; padded slots such as the wedge's [0, 1, 2, 0] collapse)
    keyf = (lambda a: tuple(sorted(set(a)))) if distinct_cells else (lambda a: tuple(sorted(a)))

    def entity_check(name, ent, t2x, slots):
        cols = [keyf(ent[:, j].tolist()) for j in range(ent.shape[1])]
        if len(set(cols)) != len(cols):
            dup = sorted(c for c in set(cols) if cols.count(c) > 1)[0]
            bad.append((name, f'the entity with vertices {list(dup)} appears {cols.count(dup)} times '
                              f'(columns {[ent[:, j].tolist() for j, c in enumerate(cols) if c == dup]})'))
            return {}, {}
        ids = {c: j for j, c in enumerate(cols)}
        want = {}
        for s, ix in enumerate(slots):
            for e in range(nt):
                key = keyf(t[ix, e].tolist())
                want.setdefault(key, []).append(e)
                if t2x.shape != (len(slots), nt) or not (0 <= t2x[s, e] < len(cols)) or cols[t2x[s, e]] != key:
                    bad.append(('t2' + name[0], f'slot {s} of cell {e} does not name the entity spanned by its vertices'))
                    return ids, want
        if set(want) != set(cols):
            bad.append((name, 'entity set differs from the set of slot vertex tuples of the cells'))
        if sorted(set(t2x.flatten().tolist())) != list(range(len(cols))):
            bad.append(('t2' + name[0], 'not onto the entity range'))
        if name == 'facets' and kind != 'hex' or name == 'edges':
            if any(ent[:, j].tolist() != sorted(ent[:, j].tolist()) for j in range(ent.shape[1])):
                bad.append((name, 'a column is not sorted'))
        raw = [tuple(sorted(ent[:, j].tolist())) for j in range(ent.shape[1])]
        if raw != sorted(raw):
            bad.append((name, 'columns not in lexicographic order'))
        return ids, want

    fid, fcells = entity_check('facets', np.asarray(m.facets), np.asarray(m.t2f), fslots)
    if bad:
        return bad
    fac = np.asarray(m.facets)
    f2t = np.asarray(m.f2t)
    nf = fac.shape[1]
    cells_of = {fid[k]: v for k, v in fcells.items()}
    if f2t.shape != (2, nf):
        bad.append(('f2t', f'shape {f2t.shape}'))
        return bad
    for f in range(nf):
        listed = [int(x) for x in f2t[:, f] if x != -1]
        cs = cells_of[f]
        if not (f2t[0, f] >= 0 and all(c in cs for c in listed) and f2t[0, f] != f2t[1, f]):
            bad.append(('f2t', f'facet {f}: listed cells {f2t[:, f].tolist()} but contained in {sorted(set(cs))}'))
            break
        if distinct_cells and len(set(cs)) <= 2:
            if set(listed) != set(cs) or (f2t[1, f] == -1) != (len(set(cs)) == 1):
                bad.append(('f2t', f'facet {f}: listed cells {f2t[:, f].tolist()} but contained in exactly {sorted(set(cs))}'))
                break
    if manifold and any(len(set(cs)) > 2 for cs in cells_of.values()):
        bad.append(('generator', 'a facet of a geometric mesh lies in more than two cells'))
    single = sorted(f for f in range(nf) if len(set(cells_of[f])) == 1) if distinct_cells else \
        sorted(int(f) for f in range(nf) if f2t[1, f] == -1)
    bf = np.asarray(m.boundary_facets()).tolist()
    if bf != single:
        bad.append(('boundary_facets', f'{bf} but the facets with one neighbour are {single}'))
    nv = int(np.max(t)) + 1          # the nodes of a mesh are its vertices (second-order meshes / shared point arrays carry more points)
    bn_want = sorted({int(v) for f in single for v in fac[:, f]})
    bn = np.asarray(m.boundary_nodes()).tolist()
    inn = np.asarray(m.interior_nodes()).tolist()
    if bn != bn_want:
        bad.append(('boundary_nodes', f'{bn} but the vertices of single-neighbour facets are {bn_want}'))
    if sorted(bn + inn) != list(range(nv)) or set(bn) & set(inn):
        bad.append(('interior_nodes', 'boundary and interior nodes do not partition the vertices'))
    # nodes_satisfying / facets_satisfying / elements_satisfying, boundaries_only on and off, normal=
    if manifold:
        c0 = float(np.sort(m.p[0])[len(m.p[0]) // 2]) + 0.123
        pred = lambda x: x[0] < c0
        nvx = int(np.max(t)) + 1
        maskn = np.asarray(m.p)[0, :nvx] < c0
        maskf = np.asarray(m.p)[:, fac].mean(axis=1)[0] < c0
        maske = np.asarray(m.p)[:, t].mean(axis=1)[0] < c0
        chk = [('nodes_satisfying(pred)', m.nodes_satisfying(pred), np.nonzero(maskn)[0]),
               ('nodes_satisfying(pred, boundaries_only=True)', m.nodes_satisfying(pred, boundaries_only=True), np.intersect1d(np.nonzero(maskn)[0], bn_want)),
               ('facets_satisfying(pred)', m.facets_satisfying(pred), np.nonzero(maskf)[0]),
               ('facets_satisfying(pred, boundaries_only=True)', m.facets_satisfying(pred, boundaries_only=True), np.intersect1d(np.nonzero(maskf)[0], single)),
               ('elements_satisfying(pred)', m.elements_satisfying(pred), np.nonzero(maske)[0])]
        if m.p.shape[0] > 1:
            nrm = np.zeros(m.p.shape[0]); nrm[0] = 1.0
            try:                # the orientation needs the geometry (normals): skipped on combinatorial / degenerate cells
                ob = m.facets_satisfying(pred, boundaries_only=True, normal=nrm)
            except Exception:
                ob = None
            if ob is not None:
                chk.append(('facets_satisfying(pred, boundaries_only=True, normal=e_x)', np.asarray(ob), np.intersect1d(np.nonzero(maskf)[0], single)))
                if not (hasattr(ob, 'ori') and len(ob.ori) == len(np.asarray(ob)) and set(np.asarray(ob.ori).tolist()) <= {0, 1}):
                    bad.append(('satisfying', 'facets_satisfying(normal=) does not return an orientation 0/1 per facet'))
        for what, got, want in chk:
            if np.asarray(got).tolist() != np.asarray(want).tolist():
                bad.append(('satisfying', f'{what} = {np.asarray(got).tolist()[:10]} but the predicate set'
                            f'{" intersected with the boundary set" if "boundaries_only" in what else ""} is {np.asarray(want).tolist()[:10]}'))
                break
    # incidence matrices
    p2f = m.p2f
    p2t = m.p2t
    if p2f.shape != (nf, nv) or {(int(i), int(j)) for i, j in zip(*p2f.nonzero())} != {(f, int(v)) for f in range(nf) for v in fac[:, f]}:
        bad.append(('p2f', 'nonzero pattern differs from facet membership'))
    for nmx, Ax in (('p2f', p2f), ('p2t', p2t)):
        vals = sorted(set(Ax.tocsc().data.tolist()) - {0})
        if vals not in ([1], []):
            bad.append((nmx, f'incidence matrix has entries {vals}; an incidence matrix is 0/1'))
    if p2t.shape != (nt, nv) or {(int(i), int(j)) for i, j in zip(*p2t.nonzero())} != {(e, int(v)) for e in range(nt) for v in t[:, e]}:
        bad.append(('p2t', 'nonzero pattern differs from cell membership'))
    if not three_d:
        return bad
    eid, ecells = entity_check('edges', np.asarray(m.edges), np.asarray(m.t2e), eslots)
    if any(b[0] in ('edges', 't2e') for b in bad):
        return bad
    edg = np.asarray(m.edges)
    ne = edg.shape[1]
    if distinct_cells:
        ecols = {tuple(sorted(edg[:, g].tolist())): g for g in range(ne)}
        t2e_ = np.asarray(m.t2e)
        for e in range(nt):
            for pair in geometric_slots(kind)[1]:
                i, j = sorted(pair)
                key = tuple(sorted((int(t[i, e]), int(t[j, e]))))
                if key not in ecols or ecols[key] not in t2e_[:, e].tolist():
                    bad.append(('edges', f'the edge of cell {e} between its local vertices {i} and {j} (vertices {key}) is '
                                + ('not in mesh.edges' if key not in ecols else 'not named by t2e')))
                    return bad
        if len(ecols) != len({tuple(sorted((int(t[min(pr), e]), int(t[max(pr), e])))) for e in range(nt) for pr in geometric_slots(kind)[1]}):
            bad.append(('edges', 'mesh.edges has columns that are not edges of any cell'))
    p2e = m.p2e
    if p2e.shape != (ne, nv) or {(int(i), int(j)) for i, j in zip(*p2e.nonzero())} != {(g, int(v)) for g in range(ne) for v in edg[:, g]}:
        bad.append(('p2e', 'nonzero pattern differs from edge membership'))
    for nmx, Ax in (('p2e', p2e), ('e2t', m.e2t)):
        vals = sorted(set(Ax.tocsc().data.tolist()) - {0})
        if vals not in ([1], []):
            bad.append((nmx, f'incidence matrix has entries {vals}; an incidence matrix is 0/1'))
    e2t = m.e2t
    nz = {(int(i), int(j)) for i, j in zip(*e2t.nonzero())}
    t2e = np.asarray(m.t2e)
    lower = {(e, int(g)) for e in range(nt) for g in t2e[:, e]}
    upper = {(e, g) for e in range(nt) for g in range(ne) if set(edg[:, g].tolist()) <= set(t[:, e].tolist())}
    if not (lower <= nz <= upper):
        bad.append(('e2t', 'nonzero pattern is not between "edge of the cell" and "both end points in the cell"'))
    if not manifold:
        return bad
    # boundary edges: the cell edges whose end points both lie on a single-neighbour facet of that cell
    want_be = set()
    for f in single:
        fv = set(fac[:, f].tolist())
        for e in set(cells_of[f]):
            for s, ix in enumerate(eslots):
                if set(t[ix, e].tolist()) <= fv:
                    want_be.add(int(t2e[s, e]))
    try:
        be = sorted(int(x) for x in m.boundary_edges())
        ie = sorted(int(x) for x in m.interior_edges())
    except Exception as ex:     # an exception on a valid mesh is a failing input
        bad.append(('boundary_edges', f'raises {type(ex).__name__}: {ex}'))
        be = ie = None
    if be is not None:
        if be != sorted(want_be):
            bad.append(('boundary_edges', f'{be} but the edges of single-neighbour facets are {sorted(want_be)}'))
        if sorted(be + ie) != list(range(ne)) or set(be) & set(ie):
            bad.append(('interior_edges', 'boundary and interior edges do not partition the edges'))
    # hypothesis of C11_f2e_numbers_mesh_edges_hex: every cell lists a facet's vertices in the cyclic order of the stored column
    if kind == 'hex':
        t2f_ = np.asarray(m.t2f)
        for e in range(nt):
            for s, ix in enumerate(fslots):
                q = fac[:, t2f_[s, e]].tolist()
                imgs = [q[k:] + q[:k] for k in range(4)] + [q[::-1][k:] + q[::-1][:k] for k in range(4)]
                if t[ix, e].tolist() not in imgs:
                    bad.append(('facet-cyclic-order', f'cell {e} lists facet {int(t2f_[s, e])} as {t[ix, e].tolist()}, the mesh stores {q}: '
                                                      'not the same cyclic order (non-conforming hexahedra)'))
                    return bad
    # f2e (only where the library defines a boundary element)
    if m.bndelem is not None:
        f2e = np.asarray(m.f2e)
        for f in range(nf):
            fv = set(fac[:, f].tolist())
            e = cells_of[f][0]
            want = {int(t2e[s, e]) for s, ix in enumerate(eslots) if set(t[ix, e].tolist()) <= fv}
            got = set(int(x) for x in f2e[:, f])
            if got != want or max(got) >= ne:
                bad.append(('f2e', f'facet {f}: f2e gives edges {sorted(got)}, its edges are {sorted(want)}'))
                break
    return bad


def _big_mesh(rng, kind, quick):
    """geometric meshes larger than the correspondence ones"""
    p, t, info = M.gen_raw(rng, kind, maxcells=(120 if quick else 400))
    return M.build(kind, p, t), info


def oracle_on_facet(kind):
    """Refdom.on_facet(i, X) (used to locate points on reference facets) against the geometry: true in the relative interior
    of facet i (away from its boundary by more than the tolerance), false on the other facets' interiors, false for points
    of the facet's plane outside the bounding box of the reference cell; returns list of messages"""
    import skfem.refdom as R
    r = getattr(R, REFDOM[kind])
    try:
        r.on_facet(0, np.zeros((r.p.shape[0], 1)))
    except NotImplementedError:
        return []
    P = np.asarray(r.p, dtype=float)
    fslots = [sorted(set(s)) for s in r.facets]
    cen = [P[:, s].mean(axis=1) for s in fslots]
    cell_c = P.mean(axis=1)
    bad = []
    for i, s in enumerate(fslots):
        inside = [cen[i]] + [0.6 * cen[i] + 0.4 * P[:, v] for v in s]
        outside = []
        for k in range(P.shape[0]):         # leave the bounding box of the reference cell along every direction the facet extends in
            if np.ptp(P[k, s]) > 0:
                for val in (-0.25, 1.25):
                    x = cen[i].copy()
                    x[k] = val
                    outside.append(x)
        elsewhere = [cen[j] for j in range(len(fslots)) if j != i] + [cell_c]
        for X, want, what in [(x, True, 'a point of the facet') for x in inside] + \
                [(x, False, 'a point of the plane of the facet outside the reference cell') for x in outside] + \
                [(x, False, 'a point off the facet') for x in elsewhere]:
            got = bool(np.asarray(r.on_facet(i, X[:, None])).all())
            if got != want:
                bad.append(f'{r.__name__}.on_facet({i}, {np.round(X, 4).tolist()}) = {got} for {what} (facet vertices {s})')
                break
    return bad


LAZY = ['facets', 't2f', 'f2t', 'edges', 't2e', 'f2e', 'nfacets', 'nedges', 'p2e', 'boundary_facets', 'boundary_nodes']


def read_tables(kind, p, t, order):
    """a FRESH mesh object, its lazy tables read in the given order; name -> value (or the exception type it raises)"""
    m = M.build(kind, p.copy(), t.copy())
    out = {}
    for nm in order:
        try:
            v = getattr(m, nm)
            v = v() if callable(v) and not hasattr(v, 'shape') else v
            out[nm] = None if v is None else (np.asarray(v.toarray() if hasattr(v, 'toarray') else v).tolist())
        except Exception as ex:
            out[nm] = 'raises ' + type(ex).__name__
    return out


def oracle_access_order(kind, p, t, rng):
    """every derived table is the same whatever was read before (lazy properties must not leak by-products into each other)"""
    ref = read_tables(kind, p, t, LAZY)
    orders = [['f2e'] + [x for x in LAZY if x != 'f2e'], list(reversed(LAZY))] + [[LAZY[int(i)] for i in rng.permutation(len(LAZY))] for _ in range(2)]
    for order in orders:
        got = read_tables(kind, p, t, order)
        diff = [nm for nm in LAZY if got[nm] != ref[nm]]
        if diff:
            nm = diff[0]
            return [f'reading the tables in the order {order} gives {nm} = {str(got[nm])[:80]} but in the order {LAZY} it is {str(ref[nm])[:80]}']
    return []


API_C11 = {
    'covered_before': ['Mesh.facets/t2f/f2t/f2e/edges/t2e/p2f/p2t/p2e/e2t', 'Mesh.boundary_facets/boundary_edges/boundary_nodes/interior_nodes',
                       'Mesh3D.interior_edges', 'Mesh.build_entities/build_inverse/_sort_entities', 'Mesh.nodes_satisfying/facets_satisfying/elements_satisfying '
                       '(boundaries_only, normal)', 'Mesh.nvertices/nfacets/nedges/nelements', 'Refdom tables, Refdom.on_facet',
                       'MeshTri1/Quad1/Tet1/Hex1/Line1 init_tensor, MeshTri1.__mul__ (wedges), MeshTri2/Quad2/Tet2/Hex2 default + refined'],
    'covered_now': ['Mesh.facets_around (flip on/off)', 'Mesh3D.edges_satisfying', 'Mesh.is_valid', 'MeshTri1.init_symmetric/init_sqsymmetric/init_lshaped/'
                    'init_circle', 'MeshTet1.init_ball', 'MeshTri2.init_circle', 'MeshTet2.init_ball', 'MeshLine1.__mul__', 'MeshQuad1.to_meshtri (both styles)',
                    'MeshHex1.to_meshtet', 'MeshWedge1.to_meshtet', 'Mesh.remove_elements', 'Mesh.__add__', 'Mesh.__matmul__', 'Mesh.copy/morphed/smoothed',
                    'Mesh.remove_duplicate_nodes'],
    'out_of_scope': {'Mesh.save/load/from_dict/to_dict/load_npz/save_npz': 'serialisation (C17)', 'element_finder (all classes)': 'point location (C14)',
                     'draw/plot': 'visualisation', 'Mesh.trace': 'boundary mesh extraction (C18)', 'param/params/mapping/strip_extra_coordinates/init_refdom': 'geometry only, no connectivity',
                     'Mesh.refined/_uniform/_adaptive': 'refinement (C12/C13); their results pass through the generators'}}


def _oracle_api(ctx, rng):
    """public constructors / wrappers that produce or use the derived connectivity: the set-based oracle on their results"""
    import skfem
    tri, quad, tet, hexm = skfem.MeshTri1(), skfem.MeshQuad1(), skfem.MeshTet1(), skfem.MeshHex1()
    made = [('tri', 'MeshTri1.init_symmetric', lambda: skfem.MeshTri1.init_symmetric()), ('tri', 'MeshTri1.init_sqsymmetric', lambda: skfem.MeshTri1.init_sqsymmetric()),
            ('tri', 'MeshTri1.init_lshaped', lambda: skfem.MeshTri1.init_lshaped()), ('tri', 'MeshTri1.init_circle', lambda: skfem.MeshTri1.init_circle(2)),
            ('tet', 'MeshTet1.init_ball', lambda: skfem.MeshTet1.init_ball(1)), ('tri', 'MeshTri2.init_circle', lambda: skfem.MeshTri2.init_circle(1)),
            ('tet', 'MeshTet2.init_ball', lambda: skfem.MeshTet2.init_ball(1)),
            ('quad', 'MeshLine1.__mul__', lambda: skfem.MeshLine(np.linspace(0, 1, 3)) * skfem.MeshLine(np.linspace(0, 2, 4))),
            ('tri', "MeshQuad1.to_meshtri()", lambda: quad.refined(1).to_meshtri()), ('tri', "MeshQuad1.to_meshtri(style='x')", lambda: quad.refined(1).to_meshtri(style='x')),
            ('tet', 'MeshHex1.to_meshtet', lambda: hexm.refined(1).to_meshtet()),
            ('tet', 'MeshWedge1.to_meshtet', lambda: skfem.MeshWedge1().to_meshtet()),
            ('tri', 'Mesh.remove_elements', lambda: tri.refined(2).remove_elements(np.array([0, 3, 5]))),
            ('tri', 'Mesh.__add__', lambda: tri.refined(1) + tri.refined(1).translated((1.0, 0.0))),
            ('quad', 'Mesh.__add__', lambda: quad.refined(1) + quad.refined(1).translated((1.0, 0.0))),
            ('tet', 'Mesh.__add__', lambda: tet + tet.translated((1.0, 0.0, 0.0))),
            ('tri', 'Mesh.__matmul__', lambda: (tri.refined(1) @ tri.refined(1).translated((1.0, 0.0)))[0]),
            ('tri', 'Mesh.copy', lambda: tri.refined(2).copy()), ('tri', 'Mesh.morphed', lambda: tri.refined(2).morphed(lambda p: p[0] + 0.1 * p[1], None)),
            ('tri', 'Mesh.smoothed', lambda: tri.refined(2).smoothed()), ('tri', 'Mesh.remove_duplicate_nodes', lambda: tri.refined(1).remove_duplicate_nodes()),
            ('quad', 'Mesh.remove_duplicate_nodes', lambda: quad.refined(1).remove_duplicate_nodes())]
    for kind, what, mk in made:
        ctx.count(('api', what), nontrivial=True)
        try:
            m = mk()
        except (NotImplementedError, AttributeError, TypeError):
            continue
        except Exception as ex:
            ctx.fail(f'api:{what}', f'{what} raises {type(ex).__name__}: {ex}', {'call': what})
            continue
        bad = oracle_mesh(kind, m, True)
        if not bad and what != 'Mesh.__matmul__' and type(m).__name__.endswith('1') and not m.is_valid():   # (@ shares the point array: unused points by design)
            bad = [('is_valid', 'is_valid() is False')]
        for table, msg in bad:
            ctx.fail(f'api:{what}', f'{what} -> {type(m).__name__}: {table}: {msg}', {'call': what, 'p': np.asarray(m.p).tolist(), 't': np.asarray(m.t).tolist()})
    # same topology after copy / morphed / smoothed
    m0 = tri.refined(2)
    for what, m1 in (('copy', m0.copy()), ('morphed', m0.morphed(lambda p: p[0] + 0.1 * p[1], None)), ('smoothed', m0.smoothed())):
        if not (np.array_equal(m0.facets, m1.facets) and np.array_equal(m0.t2f, m1.t2f) and np.array_equal(m0.f2t, m1.f2t)):
            ctx.fail(f'api:Mesh.{what}', f'Mesh.{what}() changes the derived connectivity although the cells are the same', {'call': what})
    # facets_around / edges_satisfying / trace
    for kind in ('tri', 'quad', 'tet', 'hex'):
        m, info = M.gen_mesh(rng, kind, 16, carve=False)
        nt = m.t.shape[1]
        E = np.unique(rng.integers(0, nt, size=max(1, nt // 3))).astype(np.int32)
        t2f, f2t = np.asarray(m.t2f), np.asarray(m.f2t)
        inE = set(E.tolist())
        want = sorted(f for f in range(m.facets.shape[1]) if sum(1 for c in f2t[:, f] if c != -1 and int(c) in inE) == 1)
        for flip in (False, True):
            ctx.count(('facets_around', kind, flip, m.t.tolist()), nontrivial=True)
            ob = m.facets_around(E, flip=flip)
            ori = np.asarray(ob.ori).tolist()
            # ori = index (0/1) of the side whose cell is in E (flip: of the side that is not)
            okori = all((int(f2t[o, f]) in inE) != flip if f2t[o, f] != -1 else flip for f, o in zip(np.asarray(ob).tolist(), ori))
            if np.asarray(ob).tolist() != want or len(ori) != len(want) or not okori:
                ctx.fail('api:Mesh.facets_around', f'{type(m).__name__}.facets_around({E.tolist()}, flip={flip}) = {np.asarray(ob).tolist()[:10]} / ori {ori[:10]} '
                         f'but the facets with exactly one neighbour in the set are {want[:10]} (ori = the side of f2t inside the set, outside if flip)',
                         {'kind': kind, 'p': m.p.tolist(), 't': m.t.tolist(), 'elements': E.tolist(), 'flip': flip})
        if kind in ('tet', 'hex'):
            c0 = float(np.median(m.p[0])) + 0.123
            got = m.edges_satisfying(lambda x: x[0] < c0).tolist()
            wantg = np.nonzero(np.asarray(m.p)[:, m.edges].mean(axis=1)[0] < c0)[0].tolist()
            ctx.count(('edges_satisfying', kind, m.t.tolist()), nontrivial=True)
            if got != wantg:
                ctx.fail('api:Mesh3D.edges_satisfying', f'edges_satisfying(x < {c0}) = {got[:10]} but the edges with such midpoints are {wantg[:10]}',
                         {'kind': kind, 'p': m.p.tolist(), 't': m.t.tolist()})
        if kind in ('tri', 'tet'):
            try:
                tr = m.trace(lambda x: np.ones(x.shape[1], dtype=bool)) if False else None
            except Exception:
                tr = None
    ctx.extra['api_coverage'] = API_C11


def euler_defect(kind, m):
    """V - E + F - C (3-D), V - F + C (2-D), V - C (1-D) minus 1: zero for a mesh of a ball"""
    nv, nf, nt = m.p.shape[1], m.facets.shape[1], m.t.shape[1]
    if kind == 'line':
        return nv - nt - 1
    if kind in ('tri', 'quad'):
        return nv - nf + nt - 1
    return nv - m.edges.shape[1] + nf - nt - 1


def _oracle(ctx, rng):
    _oracle_api(ctx, rng)
    # two stacked cells whose shared facet is listed from different starting vertices / in different local order
    import skfem
    pw = np.array([[0, 1, 0, 0, 1, 0, 0, 1, 0], [0, 0, 1, 0, 0, 1, 0, 0, 1], [0, 0, 0, 1, 1, 1, 2, 2, 2.]])
    for top in ([3, 4, 5, 6, 7, 8], [4, 5, 3, 7, 8, 6], [5, 3, 4, 8, 6, 7], [6, 7, 8, 3, 4, 5]):
        m = M.build('wedge', pw, np.array([[0, 1, 2, 3, 4, 5], top]).T)
        ctx.count(('stacked-wedges', tuple(top)), nontrivial=True)
        for table, msg in oracle_mesh('wedge', m, True):
            ctx.fail(f'wedge:{table}', f'MeshWedge1 (two stacked wedges, t = {m.t.T.tolist()}): {msg}',
                     {'kind': 'wedge', 'p': pw.tolist(), 't': m.t.tolist(), 'table': table})
    # higher-order meshes: the boundary / interior NODE sets are about the vertices (numbers < nvertices), not the extra points
    for cls, nref in ((skfem.MeshTri2, 1), (skfem.MeshQuad2, 1), (skfem.MeshTet2, 1), (skfem.MeshHex2, 1), (skfem.MeshTri2, 0)):
        m2 = cls().refined(nref) if nref else cls()
        nv2 = int(np.max(m2.t)) + 1
        fac2 = np.asarray(m2.facets)
        want_b = sorted({int(v) for f in range(fac2.shape[1]) if m2.f2t[1, f] == -1 for v in fac2[:, f]})
        got_b, got_i = m2.boundary_nodes().tolist(), m2.interior_nodes().tolist()
        ctx.count(('second-order', cls.__name__, nref), nontrivial=True)
        if got_b != want_b or got_i != sorted(set(range(nv2)) - set(want_b)):
            ctx.fail(f'{cls.__name__}:boundary-interior-nodes', f'{cls.__name__}().refined({nref}): boundary_nodes / interior_nodes = '
                     f'{got_b[:8]}... / {got_i[:8]}... are not the vertices of single-neighbour facets and their complement among the '
                     f'{nv2} vertices (the mesh has {m2.p.shape[1]} points)',
                     {'kind': cls.__name__, 'refined': nref, 'table': 'second-order-nodes'})
    # numbering with gaps (points no cell uses, numbered below the used ones - a loaded file, a hand-made (p, t)): the vertices the
    # cells use are still partitioned into boundary and interior ones, the boundary ones being those of single-neighbour facets
    # (whether an unused point counts as "interior" is left open: the statement is about the vertices of the cells)
    import warnings
    for kind in KINDS:
        for _ in range(2):
            pg, tg, infog = M.gen_raw(rng, kind, maxcells=30, carve=False)
            nvg = int(np.max(tg)) + 1
            for k in sorted({1, max(1, nvg // 2), nvg}):
                p2 = np.hstack([np.full((pg.shape[0], k), -7.0) + np.arange(k)[None, :], np.asarray(pg, dtype=float)[:, :nvg]])
                t2_ = np.asarray(tg) + k
                with warnings.catch_warnings():
                    warnings.simplefilter('ignore')
                    try:
                        mg = M.build(kind, p2, t2_, validate=False)
                    except TypeError:
                        mg = M.build(kind, p2, t2_)
                ctx.count(('numbering-gap', kind, k, tg.tolist()), nontrivial=True)
                facg = np.asarray(mg.facets)
                want_b = sorted({int(v) for f in range(facg.shape[1]) if mg.f2t[1, f] == -1 for v in facg[:, f]})
                used = sorted(set(t2_.ravel().tolist()))
                got_b, got_i = np.asarray(mg.boundary_nodes()).tolist(), np.asarray(mg.interior_nodes()).tolist()
                missing = [v for v in used if v not in set(got_b) | set(got_i)]
                both = sorted(set(got_b) & set(got_i))
                if got_b != want_b or missing or both:
                    ctx.fail(f'{kind}:numbering-gap-nodes', f'{type(mg).__name__} with {k} unused points numbered below the vertices: boundary_nodes = '
                             f'{got_b[:8]}... (vertices of single-neighbour facets: {want_b[:8]}...), vertices in neither boundary_nodes nor '
                             f'interior_nodes: {missing[:8]}, in both: {both[:8]}',
                             {'kind': kind, 'p': p2.tolist(), 't': t2_.tolist(), 'table': 'numbering-gap-nodes', 'unused_points': k})
    for kind in KINDS:
        for _ in range(2):
            pa, ta, infoa = M.gen_raw(rng, kind, maxcells=8)
            ctx.count(('access-order', kind, ta.tolist()), nontrivial=True)
            for msg in oracle_access_order(kind, pa, ta, rng):
                ctx.fail(f'{kind}:access-order', f'{M.mesh_class(kind).__name__}: {msg}',
                         {'kind': kind, 'p': pa.tolist(), 't': ta.tolist(), 'table': 'access-order', 'info': infoa})
    for kind in KINDS:
        ctx.count(('refdom', kind), nontrivial=False)
        for table, msg in oracle_refdom(kind):
            ctx.fail(f'{kind}:refdom-{table}', f'{REFDOM[kind]}: {msg}', {'kind': kind, 'table': table, 'message': msg})
        for msg in oracle_on_facet(kind):
            ctx.fail(f'{kind}:on_facet', msg, {'kind': kind, 'table': 'on_facet', 'message': msg})
        # structured, uncarved meshes are balls: Euler characteristic 1 (any numbering / local orientation)
        for _ in range(3):
            p, t, info = M.gen_raw(rng, kind, maxcells=30, carve=False)
            if info['style'] != 'structured':
                continue
            m = M.build(kind, p, t)
            ctx.count(('euler', kind, t.tolist()), nontrivial=True)
            found = oracle_mesh(kind, m, True)
            for table, msg in found:
                ctx.fail(f'{kind}:{table}', f'{type(m).__name__}: {msg}', {'kind': kind, 'p': np.asarray(m.p).tolist(),
                                                                          't': np.asarray(m.t).tolist(), 'info': info, 'table': table})
            chi = euler_defect(kind, m)
            if chi != 0 and not found:
                ctx.fail(f'{kind}:euler', f'{type(m).__name__}: a structured mesh of a box has V-E+F-C = {chi + 1}, not 1 '
                         f'(V={m.p.shape[1]}, E={m.edges.shape[1] if kind in ("tet", "hex", "wedge") else "-"}, F={m.facets.shape[1]}, C={m.t.shape[1]})',
                         {'kind': kind, 'p': np.asarray(m.p).tolist(), 't': np.asarray(m.t).tolist(), 'info': info, 'table': 'euler'})
    # minimal witnesses for single cells in every vertex order (cheap, catches order-dependent defects)
    for kind in KINDS:
        cls = M.mesh_class(kind)
        p0 = np.asarray(cls.elem.refdom.p, dtype=float)      # the reference cell itself
        nn = p0.shape[1]
        import itertools
        syms = [tuple(range(nn))] + [q for q in M.local_symmetries(kind) if q != tuple(range(nn))]   # valid cells
        perms = list(itertools.permutations(range(nn)))
        if len(perms) > 40:
            perms = [perms[int(j)] for j in rng.choice(len(perms), size=40, replace=False)]
        perms = syms[:24] + perms        # then arbitrary orders (combinatorial cells)
        for pr in perms:
            m = M.build(kind, p0, np.array([pr]).T)
            bad = oracle_mesh(kind, m, manifold=True)
            ctx.count((kind, 'single', pr), nontrivial=False)
            for table, msg in bad:
                ctx.fail(f'{kind}:{table}', f'{type(m).__name__} (single cell, local vertex order {list(pr)}): {msg}',
                         {'kind': kind, 'p': np.asarray(m.p).tolist(), 't': np.asarray(m.t).tolist(), 'table': table,
                          'message': msg})
    n = ctx.n(30, 100)
    ncase = 0
    for kind in KINDS:
        for i in range(n):
            if i % 5 == 4:
                m, info = M.gen_abstract(rng, kind, maxcells=12)
                manifold = False
            else:
                m, info = _big_mesh(rng, kind, ctx.quick()) if i % 2 == 0 else M.gen_mesh(rng, kind, 40)
                manifold = True
            ncase += 1
            ctx.hist('oracle_kind', kind)
            ctx.hist('oracle_cells', 50 * (m.t.shape[1] // 50))
            try:
                bad = oracle_mesh(kind, m, manifold)
            except Exception as ex:
                import traceback
                bad = [('exception', f'{type(ex).__name__}: {ex} :: {traceback.format_exc()[-400:]}')]
            ctx.count((kind, m.t.tolist()), nontrivial=_shares(m))
            for table, msg in bad:
                ctx.fail(f'{kind}:{table}', f'{type(m).__name__}: {msg}',
                         {'kind': kind, 'p': np.asarray(m.p).tolist(), 't': np.asarray(m.t).tolist(), 'info': info,
                          'table': table, 'message': msg})
            # independence of numbering: renumber + permute + re-orient, the relations must map along
            if manifold and i % 3 == 0:
                _equivariance(ctx, rng, kind, m)


def _equivariance(ctx, rng, kind, m):
    nv = m.p.shape[1]
    perm = rng.permutation(nv)
    p2 = np.empty_like(m.p)
    p2[:, perm] = m.p
    cperm = rng.permutation(m.t.shape[1])
    t2 = perm[np.asarray(m.t)][:, cperm]
    m2 = M.build(kind, p2, t2)

    def fs(mm, ids=None, mp=None):
        f = np.asarray(mm.facets)
        ids = range(f.shape[1]) if ids is None else ids
        return {tuple(sorted({(int(mp[v]) if mp is not None else int(v)) for v in f[:, j]})) for j in ids}      # vertex sets
    ok = (fs(m, mp=perm) == fs(m2) and fs(m, m.boundary_facets(), perm) == fs(m2, m2.boundary_facets())
          and sorted(perm[m.boundary_nodes()].tolist()) == m2.boundary_nodes().tolist()
          and sorted(perm[m.interior_nodes()].tolist()) == m2.interior_nodes().tolist())
    # neighbours: the pair of cells of every facet maps along
    inv_c = np.argsort(cperm)

    def nb(mm, mapc=None, mp=None):
        out = {}
        f = np.asarray(mm.facets)
        for j in range(f.shape[1]):
            key = tuple(sorted({(int(mp[v]) if mp is not None else int(v)) for v in f[:, j]}))
            out[key] = frozenset((int(mapc[c]) if mapc is not None else int(c)) for c in mm.f2t[:, j] if c != -1)
        return out
    ok = ok and nb(m, inv_c, perm) == nb(m2)
    ctx.count(('equivariance', kind, m.t.tolist(), perm.tolist()), nontrivial=True)
    if not ok:
        ctx.fail(f'{kind}:renumbering', 'derived connectivity is not equivariant under vertex renumbering / cell permutation',
                 {'kind': kind, 'p': np.asarray(m.p).tolist(), 't': np.asarray(m.t).tolist(), 'perm': perm.tolist(),
                  'cell_perm': cperm.tolist()})


def replay(ctx, data):
    """re-run the oracle on the recorded mesh"""
    inp = data['input']
    if inp.get('table') == 'second-order-nodes':
        return run(ctx)
    if 'p' not in inp:          # a reference-cell table
        for msg in oracle_on_facet(inp['kind']):
            ctx.fail(f"{inp['kind']}:on_facet", msg, inp)
        for table, msg in oracle_refdom(inp['kind']):
            ctx.fail(f"{inp['kind']}:refdom-{table}", msg, inp)
        ctx.log('replay', data.get('key'), '->', [f['key'] for f in ctx.failures] or 'no failure on this tree')
        return
    if inp.get('table') == 'access-order':
        for msg in oracle_access_order(inp['kind'], np.array(inp['p'], dtype=float), np.array(inp['t']), np_seed(ctx, 11)):
            ctx.fail(data['key'], msg, inp)
        ctx.log('replay', data.get('key'), '->', [f['key'] for f in ctx.failures] or 'no failure on this tree')
        return
    m = M.build(inp['kind'], np.array(inp['p'], dtype=float), np.array(inp['t']))
    if inp.get('table') == 'euler' and euler_defect(inp['kind'], m) != 0:
        ctx.fail(data['key'], f'V-E+F-C = {euler_defect(inp["kind"], m) + 1}', inp)
    bad = oracle_mesh(inp['kind'], m, manifold=inp.get('info', {}).get('style') != 'abstract')
    ctx.log('replay', data.get('key'), '->', bad or 'no failure on this tree')
    for table, msg in bad:
        ctx.fail(f"{inp['kind']}:{table}", f'{type(m).__name__}: {msg}', inp)
