"""C09 — shape functions: derivatives are true derivatives; duality; partition of unity.

tie T1 : Gen/C09_E_<refdom>.v, Gen/C09_G_Global.v, Gen/C09_Elements.v are regenerated on every run by running the
         REAL lbasis of every concrete class exported by skfem.element on symbolic coordinates (vlib/c09_sym.py,
         vlib/c09_gen.py) — exact polynomials over Q; per class one lemma per identity (closed by vm_compute)
proof  : props/C09.v (identities hold at EVERY point of EVERY commutative ring over Q; soundness of the
         polynomial checkers in base/C09_Poly.v, proofs/C09_ElemProofs.v)
corr   : the generated polynomials, evaluated inside Coq at dyadic points, against the numerical lbasis
oracle : every exported class (parametrised degrees, DG/vector/composite wrappers, global family) on random
         affine / multilinear cells: delivered grad/div/curl/hess/grad3.. vs finite differences of the delivered
         value in global coordinates; nodal duality and partition of unity numerically
"""
import re
import time
import warnings
from fractions import Fraction as Fr

import numpy as np

from .. import c03_t2, c09_gen, c09_oracle
from ..c09_build import compile_generated
from ..core import TranslateError, clist, cnat, cq, np_seed, scan_forbidden

_thm_re = re.compile(r'^\s*(Theorem|Lemma|Example)\s+([A-Za-z0-9_\']+)', re.M)


# ------------------------------------------------------------------------------ correspondence

def dyadic_points(dim, n, rng):
    pts = []
    for _ in range(n):
        pts.append([Fr(rng.randint(-2, 18), 16) for _ in range(dim)])
    return pts


def corr_cases(ctx, info, translated):
    """(element index, local index, point) -> all field components returned by the numerical lbasis"""
    cases = []
    rng = ctx.rng
    npts = ctx.n(2, 6)
    for k, name in enumerate(info['names']['all']):
        tr = translated[name]
        e = type(tr.elem)()
        for pt in dyadic_points(tr.dim, npts, rng):
            X = np.array([[float(c)] for c in pt])
            for i in range(len(tr.basis)):
                out = e.lbasis(X, i)
                flat = []
                for f in out:
                    if f is None:
                        continue
                    a = np.asarray(f, dtype=float)
                    a = np.broadcast_to(a, a.shape if a.shape and a.shape[-1] == 1 else a.shape + (1,)) if a.ndim else a.reshape(1)
                    flat += [Fr(float(v)) for v in a.reshape(-1)]
                inp = f'({cnat(k)}, {cnat(i)}, {clist([cq(c) for c in pt])})'
                cases.append((inp, clist([cq(v) for v in flat]), (name, i, [str(c) for c in pt])))
    return cases


def corr_cases_legendre(ctx, info, translated):
    """integrated-Legendre family: the model polynomials at (dyadic point, float values of the scales sqrt((2n-1)/2)) vs
    the numerical lbasis.  Tolerance correspondence: the coefficients are snapped rationals (see vlib/c09_pp.py)."""
    cases = []
    rng = ctx.rng
    for k, name in enumerate(info['names']['legendre'] + info['names']['sqrt3']):
        tr = translated[name]
        for pt in dyadic_points(tr.dim, ctx.n(2, 5), rng):
            X = np.array([[float(c)] for c in pt])
            full = list(pt) + [None] * (tr.nv - tr.dim)
            for arg, idx in tr.scales.items():
                full[idx] = Fr(float(np.sqrt(arg)))
            for i in range(len(tr.basis)):
                out = c09_oracle.fresh(tr.factory).lbasis(X, i)
                flat = []
                for f in out:
                    flat += [Fr(float(v)) for v in np.asarray(f, dtype=float).reshape(-1)]
                inp = f'({cnat(k)}, {cnat(i)}, {clist([cq(c) for c in full])})'
                cases.append((inp, clist([cq(v) for v in flat]), (name, i, [str(c) for c in pt])))
    return cases


# ------------------------------------------------------------------------------ oracle

def oracle_reference(ctx, label, factory):
    """duality / partition of unity on the real lbasis, floats (every H1-family class incl. the excluded and the
    parametrised ones): rule = located DOFs (finite doflocs rows)"""
    import skfem.element as E
    e = c09_oracle.fresh(factory)
    if not isinstance(e, E.ElementH1) or not hasattr(e, 'doflocs'):
        return
    if '.condensed()' in label:
        return oracle_condensed(ctx, label)
    nb = int(sum(e._bfun_counts()))
    locs = np.asarray(e.doflocs, dtype=float)
    if locs.shape[0] != nb:
        if '.condensed()' in label:
            ctx.fail('api=Element.condensed:doflocs-not-condensed',
                     f'{label}: Element.condensed() copies doflocs unchanged: {locs.shape[0]} rows for {nb} basis functions, so row i is not '
                     f'the location of basis function i (Basis(mesh, elem.condensed()[0]).doflocs reports a vertex for the interior DOF)',
                     {'element': label, 'doflocs_rows': int(locs.shape[0]), 'basis_functions': nb, 'doflocs': locs.tolist()})
        else:
            ctx.fail(f'elem={label}:doflocs-shape', f'{label}: doflocs has {locs.shape[0]} rows for {nb} basis functions',
                     {'element': label})
        return
    J = [j for j in range(nb) if np.all(np.isfinite(locs[j]))]
    skeleton = 'Skeleton' in label
    if skeleton:
        return   # facet-supported indicator functions: not value-type on the cell
    if not J:
        ctx.fail(f'elem={label}:no-located-dof', f'{label}: no finite row in doflocs', {'element': label})
        return
    Xn = locs[J].T
    worst = 0.0
    for i in range(nb):
        phi = np.asarray(c09_oracle.fresh(factory).lbasis(Xn, i)[0], dtype=float)
        phi = np.broadcast_to(phi, (len(J),))
        want = np.array([1.0 if i == j else 0.0 for j in J])
        err = float(np.max(np.abs(phi - want)))
        worst = max(worst, err)
        ctx.count(('dual', label, i), nontrivial=nb > 1)
        if err > 1e-9:
            jj = J[int(np.argmax(np.abs(phi - want)))]
            ctx.fail(f'elem={label}:nodal-duality', f'{label}: phi_{i}(doflocs[{jj}]) = {phi[J.index(jj)]!r}, expected '
                     f'{want[J.index(jj)]}', {'element': label, 'i': i, 'j': jj, 'point': locs[jj].tolist()})
    rng = np.random.default_rng(ctx.seed + len(label))
    Xl = c09_oracle.lattice(e.refdom.__name__, 5, rng)
    s = 0.0
    for j in J:
        s = s + np.broadcast_to(np.asarray(c09_oracle.fresh(factory).lbasis(Xl, j)[0], dtype=float), (Xl.shape[1],))
    err = float(np.max(np.abs(s - 1.0)))
    ctx.count(('pou', label), nontrivial=True)
    if err > 1e-9:
        k = int(np.argmax(np.abs(s - 1.0)))
        ctx.fail(f'elem={label}:partition-of-unity', f'{label}: sum of the located basis functions is {s[k]!r} at '
                 f'{Xl[:, k].tolist()}', {'element': label, 'located': J, 'point': Xl[:, k].tolist(), 'sum': float(s[k])})
    ctx.extra['max_duality_pou_error'] = max(ctx.extra.get('max_duality_pou_error', 0.0), worst, err)


def oracle_condensed(ctx, label):
    """the two parts of Element.condensed(): eo (nodal/edge/facet functions) and ei (interior functions, whose gbasis is the
    original gbasis shifted by n; lbasis is NOT shifted, so everything goes through gbasis on the reference-cell mesh).
    Per part: doflocs has one row per basis function (row i = location of function i of that part); duality at the located
    DOFs of the part (a part without located DOF, e.g. a bubble, has nothing to check); partition of unity is a property of
    the FULL element: the located functions of both parts together sum to one (checked once, at part [1])."""
    import skfem
    import skfem.element as E
    base = getattr(E, label.split('.')[0])
    which = int(label[-2])
    full = base()
    parts = full.condensed()          # (ei, eo)
    part = parts[which]
    nb = int(sum(part._bfun_counts()))
    locs = np.asarray(part.doflocs, dtype=float)
    if locs.shape[0] != nb:
        ctx.fail('api=Element.condensed:doflocs-not-condensed',
                 f'{label}: Element.condensed() does not split doflocs with the basis functions: {locs.shape[0]} rows for {nb} basis '
                 f'functions, so row i is not the location of basis function i (Basis(mesh, elem.condensed()[0]).doflocs reports a vertex '
                 f'for the interior DOF)', {'element': label, 'doflocs_rows': int(locs.shape[0]), 'basis_functions': nb, 'doflocs': locs.tolist()})
        return
    mesh = getattr(skfem, c09_oracle.MESH_OF_REFDOM[full.refdom.__name__]).init_refdom()
    mapping = mesh._mapping()
    J = [j for j in range(nb) if np.all(np.isfinite(locs[j]))]
    ctx.count(('condensed', label, len(J)), nontrivial=bool(J))
    if J:
        Xn = locs[J].T
        for i in range(nb):
            phi = np.asarray(part.gbasis(mapping, Xn, i)[0], dtype=float)[0]
            want = np.array([1.0 if i == j else 0.0 for j in J])
            if float(np.max(np.abs(phi - want))) > 1e-9:
                jj = J[int(np.argmax(np.abs(phi - want)))]
                ctx.fail(f'elem={label}:nodal-duality', f'{label}: gbasis function {i} at doflocs[{jj}] on the reference cell is '
                         f'{phi[J.index(jj)]!r}, expected {want[J.index(jj)]}', {'element': label, 'i': i, 'j': jj, 'point': locs[jj].tolist()})
    if which == 1:
        rng = np.random.default_rng(ctx.seed + len(label))
        Xl = c09_oracle.lattice(full.refdom.__name__, 5, rng)
        s_ = 0.0
        for pt in parts:
            pl = np.asarray(pt.doflocs, dtype=float)
            for j in range(int(sum(pt._bfun_counts()))):
                if j < pl.shape[0] and np.all(np.isfinite(pl[j])):
                    s_ = s_ + np.asarray(pt.gbasis(mapping, Xl, j)[0], dtype=float)[0]
        err = float(np.max(np.abs(s_ - 1.0)))
        if err > 1e-9:
            ctx.fail(f'elem={label.split(".")[0]}.condensed():partition-of-unity', f'{label}: the located functions of both condensed parts '
                     f'sum to {np.asarray(s_).tolist()} instead of 1', {'element': label})


def oracle(ctx, only=None):
    rng = np_seed(ctx, 9)
    facts, wrappers = c09_oracle.element_factories(5)
    ctx.extra['oracle_classes'] = [l for l, _ in facts]
    worst_all = 0.0
    big = {'ElementHexC1': 6, 'ElementVector(ElementHexS2)': 8, 'ElementQuadBFS': 8, 'ElementTriArgyris': 10,
           'ElementTri15ParamPlate': 8, 'ElementHex2': 9, 'ElementHexS2': 8}
    for label, f in facts:
        if only is not None and label != only:
            continue
        t = time.time()
        try:
            e = c09_oracle.fresh(f)
        except Exception as ex:  # noqa
            ctx.fail(f'elem={label}:constructor', f'{label}: constructor raised {ex!r}', {'element': label})
            continue
        rd = e.refdom.__name__
        kinds = ['affine'] + (['multilinear'] if rd in ('RefQuad', 'RefHex') else [])
        if not ctx.quick():
            kinds = ['ref'] + kinds + ['affine']
        for kind in kinds:
            mesh = c09_oracle.random_mesh(rd, rng, kind)
            X = c09_oracle.lattice(rd, ctx.n(2, 4), rng)
            idx = None
            nb = int(e.interior_dofs) if type(e).__name__ == 'ElementDG' else int(sum(e._bfun_counts()))
            if label in big and (ctx.quick() or label == 'ElementHexC1'):
                lim = big[label] if ctx.quick() else 3 * big[label]
                idx = sorted(set([0, nb - 1] + [int(v) for v in rng.choice(nb, size=min(nb, lim), replace=False)]))
            try:
                with warnings.catch_warnings():
                    warnings.simplefilter('ignore')
                    n, w = c09_oracle.check_gbasis(label, f, mesh, X, ctx.fail, indices=idx)
            except Exception as ex:  # noqa — an exception of the implementation on a valid input is a failing input
                import traceback
                ctx.fail(f'elem={label}:gbasis-exception', f'{label}.gbasis raised {type(ex).__name__}: {ex}',
                         {'element': label, 'mesh_class': type(mesh).__name__, 'p': mesh.p.tolist(), 't': mesh.t.tolist(),
                          'X_local': X.tolist(), 'traceback': traceback.format_exc()[-1500:]})
                continue
            worst_all = max(worst_all, w)
            ctx.cov['evaluations'] += n
            ctx.count(('gbasis', label, kind, mesh.p.tolist(), X.tolist()), nontrivial=(kind != 'ref'))
            ctx.hist('cell_kind', kind)
            ctx.hist('refdom', rd)
        import skfem.element as E_
        if isinstance(e, E_.ElementGlobal):
            for kind in ['affine'] + (['multilinear'] if rd in ('RefQuad', 'RefHex') else []) + ([] if ctx.quick() else ['ref', 'affine']):
                mesh = c09_oracle.random_mesh(rd, rng, kind)
                try:
                    with warnings.catch_warnings():
                        warnings.simplefilter('ignore')
                        n, w = c09_oracle.check_global_duality(label, f, mesh, ctx.fail)
                except Exception as ex:  # noqa
                    import traceback
                    ctx.fail(f'elem={label}:functional-duality-exception', f'{label}: {type(ex).__name__}: {ex}',
                             {'element': label, 'p': mesh.p.tolist(), 't': mesh.t.tolist(), 'traceback': traceback.format_exc()[-1200:]})
                    continue
                ctx.cov['evaluations'] += n
                ctx.count(('gdual', label, kind, mesh.p.tolist()), nontrivial=(kind != 'ref'))
                if kind == 'affine':
                    # one element object, two meshes of equal size and cell subsets, in sequence
                    other = c09_oracle.random_mesh(rd, rng, 'affine')
                    try:
                        with warnings.catch_warnings():
                            warnings.simplefilter('ignore')
                            n, w = c09_oracle.check_global_reuse(label, f, [mesh, other] if (label == 'ElementHexC1' and ctx.quick()) else [mesh, other, mesh], ctx.fail, rng)
                        ctx.cov['evaluations'] += n
                        ctx.count(('gdual-reuse', label, mesh.p.tolist(), other.p.tolist()), nontrivial=True)
                        ctx.extra['max_global_functional_duality_deviation'] = max(ctx.extra.get('max_global_functional_duality_deviation', 0.0), w)
                    except Exception as ex:  # noqa
                        import traceback
                        ctx.fail(f'elem={label}:functional-duality-reuse-exception', f'{label}: {type(ex).__name__}: {ex}',
                                 {'element': label, 'traceback': traceback.format_exc()[-1200:]})
                ctx.extra['max_global_functional_duality_deviation'] = max(ctx.extra.get('max_global_functional_duality_deviation', 0.0), w)
        try:
            oracle_reference(ctx, label, f)
        except Exception as ex:  # noqa
            import traceback
            ctx.fail(f'elem={label}:lbasis-exception', f'{label}.lbasis raised {type(ex).__name__}: {ex}',
                     {'element': label, 'traceback': traceback.format_exc()[-1500:]})
        ctx.extra.setdefault('oracle_seconds', {})[label] = round(time.time() - t, 2)
    if only is None:
        try:
            with warnings.catch_warnings():
                warnings.simplefilter('ignore')
                forms = c09_oracle.check_api_forms(ctx.fail, rng)
            ctx.count(('api-forms', tuple(forms)), nontrivial=True)
        except Exception as ex:  # noqa
            import traceback
            ctx.fail('api=exception', f'public wrapper raised {type(ex).__name__}: {ex}', {'traceback': traceback.format_exc()[-1500:]})
    ctx.extra['api_coverage'] = API_COVERAGE
    ctx.extra['max_scaled_fd_discrepancy'] = worst_all
    ctx.extra['fd_tolerance'] = c09_oracle.TOL
    ctx.extra['wrapper_classes_exercised'] = wrappers
    ctx.sample({'kind': 'oracle', 'classes': len(facts), 'max_scaled_fd_discrepancy': worst_all})


# public callables of the anchor files (skfem/element/**, the basis wrappers that hand gbasis to users), measured by
# running the oracle under sys.setprofile and listing the public functions never executed (coverage audit)
API_COVERAGE = [
    {'callable': 'Element.gbasis / lbasis of every exported class, ElementVector/ElementDG/ElementComposite.gbasis, ElementGlobal.gbasis/'
                 'gdof/_pbasis_*, ElementTriN3.gbasis, ElementLinePp/QuadP(p)', 'before': 'covered', 'now': 'covered'},
    {'callable': 'Element.condensed() (both returned elements, index-shifted gbasis)', 'before': 'not covered',
     'now': 'covered: FD oracle on condensed()[0] and [1] of TriP2B, TriRT2, Quad2, TetMini, TriN2'},
    {'callable': 'Element.__mul__ (composite by *, nested)', 'before': 'not covered', 'now': 'covered: FD oracle on P2*P1 and (RT1*P0)*P1'},
    {'callable': 'Element.__call__ (instance used like a class)', 'before': 'not covered', 'now': 'covered: ElementTetP1()()'},
    {'callable': 'ElementDG.lbasis', 'before': 'not covered', 'now': 'covered: equals the wrapped lbasis'},
    {'callable': 'Element.orient (default), ElementComposite.dim', 'before': 'not covered', 'now': 'covered (ones / 2)'},
    {'callable': 'CellBasis.with_element, CellBasis.with_elements', 'before': 'not covered',
     'now': 'covered: value and grad fields equal a newly constructed CellBasis (tri, multilinear quad, tet)'},
    {'callable': 'CellBasis.probes, CellBasis.interpolator', 'before': 'not covered',
     'now': 'covered: against direct gbasis evaluation with a random coefficient vector'},
    {'callable': 'FacetBasis / InteriorFacetBasis construction (elementwise point layout)', 'before': 'covered (C03, C09 elementwise layout)', 'now': 'covered'},
    {'callable': 'ElementH1/Hdiv/Hcurl.lbasis (abstract, raise NotImplementedError), Element.gbasis (abstract), Refdom.on_facet (base), '
                 'DiscreteField.value', 'before': 'not covered', 'now': 'out of scope: abstract stubs / trivial accessor'},
    {'callable': 'CellBasis.refinterp, point_source, project, boundary, plot*/draw; AbstractBasis.get_dofs/complement_dofs/zeros/ones/zero_w',
     'before': 'not covered', 'now': 'out of scope for C09: consumers of the value only / DOF queries (C07) / plotting'},
]


# ------------------------------------------------------------------------------ the check

def run(ctx, only=None):
    ctx.trusted += ['symbolic executor vlib/c09_sym.py (Poly over Fraction; float literals accepted only when a rational with '
                    'denominator <= 2^20 round-trips to the exact double) — corresponded with the numerical lbasis',
                    'NumPy object-array broadcasting inside lbasis',
                    'finite differences (5-point, h=2e-3, tolerance 2e-6 scaled) in the oracle; mapping.invF of the library']
    ctx.assumptions += ['excluded from the symbolic tie BY NAME (oracle only): ' + '; '.join(f'{k}: {v}' for k, v in c09_gen.EXCLUDED.items()),
                        'exact integral of a monomial over the reference simplex / cube = Dirichlet / product formula (definition pint)']
    ctx.cov['rule'] = ('symbolic: every concrete class of skfem.element.__all__ not excluded by name; correspondence: every translated '
                       'class x every local index x dyadic points; oracle: every exported class, ElementLinePp/QuadP p=1..5, DG/vector/'
                       'composite wrappers x random affine (and multilinear for quad/hex) cells x interior lattice points x every local '
                       'index (subset for the largest global elements in the quick tier); non-trivial = mapped cell; distinct by content')
    ctx.ensure_static()
    # 1. regenerate
    gen_ok = True
    info, translated = None, None
    try:
        with warnings.catch_warnings():
            warnings.simplefilter('ignore')
            import logging
            logging.disable(logging.WARNING)
            try:
                chunks, summ, info, translated = c09_gen.generate()
            finally:
                logging.disable(logging.NOTSET)
    except TranslateError as e:
        ctx.broke('translator', 'c09_gen.generate (symbolic execution of lbasis)', e)
        gen_ok = False
    # 2. prove
    if gen_ok:
        ctx.extra['classes'] = info['classes']
        ctx.extra['translated'] = info['translated']
        ctx.extra['excluded_by_name'] = info['excluded']
        ctx.extra['global_tables'] = info['global']
        ctx.extra['legendre_family'] = {'elements': info['legendre'], 'bound_p': c09_gen.PMAX_LEGENDRE, 'exactness': 'exact symbolic execution of the real lbasis/_reval_legendre; scales sqrt((2n-1)/2) kept as formal indeterminates (identities hold for every value of them); NumPy float coefficients of Legendre(c).integ()/deriv() snapped to the rational within 4e-16 (ideal coefficients) - tie = tolerance correspondence 1e-9, not exact'}
        ctx.extra['exhaustive'] = 'per class: polynomial identities decided for all points (normal form), finite list of classes'
        ok, failing = compile_generated(ctx, chunks, info)
        if ok:
            ctx.write_gen('C09_Elements', summ)
            t2_ok = True
            try:
                t2txt, t2info = c03_t2.generate_c09()
                ctx.write_gen('C09_T2', t2txt)
                ctx.extra['t2_gbasis_sites'] = t2info['einsum_sites']
            except TranslateError as e:
                ctx.broke('translator', 'c03_t2.generate_c09 (gbasis einsum / scale expressions)', e)
                t2_ok = False
            dyn = ctx.copy_dyn()
            order = ['dyn/C09Pull.v', 'dyn/C09Mapped.v', 'dyn/C09Real.v']
            dyn = [d for d in order if d in dyn] + [d for d in dyn if d not in order]
            ctx.compile_dyn(['gen/C09_Elements.v'] + (['gen/C09_T2.v'] + dyn if t2_ok else []))
            ctx.prove()
        else:
            ctx.broke('proof', 'props/C09.v', 'not compiled: generated identities failed for ' + ', '.join(sorted(c for c, _ in failing)))
            for nm in _thm_re.findall(open(f'{ctx.bdir}/../../coq/props/C09.v').read()):
                ctx.obligations.append({'name': nm[1], 'kind': 'property-theorem', 'ok': False})
            _explain(ctx, failing, translated)
        # 3. correspondence
        if ok:
            cases = corr_cases(ctx, info, translated)
            ctx.corr('lbasis', 'Require Import Base.C09_Poly Base.C09_PolyQ Model.C09_Elem Gen.C09_Elements.\n'
                     'From Coq Require Import List QArith.\nOpen Scope nat_scope.',
                     '(elem_eval all_elements)', '(qs_close (1 # 1000000000))', cases, per_file=300,
                     nontrivial=lambda r: True)
            lcases = corr_cases_legendre(ctx, info, translated)
            ctx.corr('lbasis_legendre', 'Require Import Base.C09_Poly Base.C09_PolyQ Model.C09_Elem Gen.C09_Elements.\n'
                     'From Coq Require Import List QArith.\nOpen Scope nat_scope.',
                     '(elem_eval (legendre_elements ++ sqrt3_elements))', '(qs_close (1 # 1000000000))', lcases, per_file=300,
                     nontrivial=lambda r: True)
            ctx.sample({'kind': 'correspondence', 'element': cases[7][2][0], 'i': cases[7][2][1], 'point': cases[7][2][2],
                        'lbasis_fields_exact_dyadic': cases[7][1][:200]})
    # 4. oracle / search on the real code
    oracle(ctx, only=only)


def _explain(ctx, failing, translated):
    """turn a failing generated identity into a concrete point on the real lbasis"""
    for cname, lemma in sorted(failing):
        tr = translated.get(cname)
        if tr is None or not lemma.endswith('_deriv'):
            continue
        d = tr.dim
        for i, (val, der) in enumerate(tr.basis):
            pairs = []
            if tr.family == 'h1':
                pairs = [(f'grad[{k}]', der[k], val.deriv(k)) for k in range(d)]
            elif tr.family == 'hdiv':
                s = val[0].deriv(0)
                for k in range(1, d):
                    s = s + val[k].deriv(k)
                pairs = [('div', der, s)]
            elif tr.family == 'hcurl' and d == 2:
                pairs = [('curl', der, val[1].deriv(0) - val[0].deriv(1))]
            elif tr.family == 'hcurl':
                c = [val[2].deriv(1) - val[1].deriv(2), val[0].deriv(2) - val[2].deriv(0), val[1].deriv(0) - val[0].deriv(1)]
                pairs = [(f'curl[{k}]', der[k], c[k]) for k in range(3)]
            for fname, got, want in pairs:
                diff = got - want
                if diff.t:
                    # a rational point where the difference does not vanish
                    pt = None
                    for trial in range(200):
                        cand = [Fr(ctx.rng.randint(1, 15), 16) for _ in range(d)]
                        if diff(cand) != 0:
                            pt = cand
                            break
                    e = type(tr.elem)()
                    X = np.array([[float(c)] for c in pt])
                    num = e.lbasis(X, i)
                    ctx.fail(f'elem={cname}:{fname.split("[")[0]}',
                             f'{cname}: delivered {fname} of basis function {i} is {got!r} but the derivative of the delivered '
                             f'value is {want!r}; they differ by {float(diff(pt))} at {[str(c) for c in pt]}',
                             {'element': cname, 'i': i, 'field': fname, 'point': [str(c) for c in pt],
                              'delivered_polynomial': repr(got), 'derivative_of_value': repr(want),
                              'lbasis_numeric': [np.asarray(f, dtype=float).tolist() for f in num if f is not None]})


def replay(ctx, data):
    inp = data.get('input', {})
    label = inp.get('element')
    ctx.log('replaying', data.get('key'), 'element', label)
    run(ctx, only=label)
