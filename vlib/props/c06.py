"""C06 — Galerkin exactness end to end (patch test and projection identity).  PARTIAL.

proof  : props/C06.v — the algebraic compositions (any ring, any basis tables): load(interp x) = M x over the same
         basis/quadrature; on a subset f_I = M_II x_I; the patch-test algebra on top of C05's condense theorems.
tie T2 : Gen/C06Gen.v regenerated from helpers.inner, AbstractBasis._projection, CellBasis.project, FacetBasis.project
         (vlib/c06_tr.py, fail closed); dyn/C06Tie.v: the two integrands are the product, the solver call is the model's.
tie T3 : the REAL AbstractBasis._projection / condense run on duck-typed stub bases with small-integer tables
         (exact) and compared with the model by vm_compute.
oracle : float patch tests (Poisson, reaction-diffusion, linear elasticity) with polynomial exact solutions of the
         element's degree and random Dirichlet/Neumann splits on irregular meshes of every cell type, projection
         identities on whole mesh / subdomain / boundary part incl. curved second-order meshes; tolerance 1e-8.
not proved (named): Green's identity + exact quadrature + polynomial completeness of the element (that the interpolant
         of the exact solution satisfies the free rows), and SciPy's spsolve.
"""
import traceback
import warnings

import numpy as np

from .. import c06_tr, c06_complete, c06_green, c06_oracle as O
from ..core import TranslateError, clist, cnat, cnats, cints, cz, np_seed

TOL = 1e-8
# public callables of the anchor files and thin wrappers: covered before the audit / now / out of scope (with reason)
API_COVERAGE = [
    ['Basis.project / CellBasis.project (elements=, dtype=)', 'before', 'covered'],
    ['FacetBasis.project (facets=, dtype=)', 'before', 'covered'],
    ['AbstractBasis.get_dofs (facets / elements / tags / collections / skip)', 'before', 'covered'],
    ['AbstractBasis.interpolate, split, split_bases', 'before', 'covered'],
    ['CellBasis.with_elements, CellBasis.with_element', 'before', 'covered'],
    ['project(quadrature-point data, elements=subset) on a basis restricted to an UNSORTED cell list (Basis(elements=), with_elements)', 'no', 'now: projection_subset_of_restricted'],
    ['AbstractBasis.complement_dofs (arrays, dict)', 'no', 'now: patch_api_variants'],
    ['AbstractBasis.zeros / ones', 'no', 'now: patch_api_variants'],
    ['CellBasis.boundary(facets)', 'no', 'now: patch_api_variants (Neumann basis)'],
    ['FacetBasis.with_element', 'no', 'now: patch_api_variants (flux from a field)'],
    ['utils.enforce / utils.penalize as the way to impose the boundary data of the patch test', 'no', 'now: patch_api_variants'],
    ['utils.projection / utils.project (deprecated; callable, ndarray + basis_from, diff=, I=, expand=)', 'no', 'now: legacy_projection'],
    ['helpers.div, d, transpose, identity (forms)', 'partly', 'now: elasticity_alt_form vs models.elasticity'],
    ['models.poisson.laplace / vector_laplace / mass / unit_load', 'before', 'covered'],
    ['models.elasticity.lame_parameters / plane_stress / linear_stress / linear_elasticity', 'before', 'covered'],
    ['helpers.inner / dot / ddot / sym_grad / trace / eye / grad', 'before', 'covered'],
    ['helpers.curl, dd, ddd, dddd, dddot, prod, mul, det, inv, cross, jump', 'no', 'out of scope: not used by the model problems of C06 (helper identities are C20, jump is C03)'],
    ['CellBasis.refinterp / probes / interpolator / point_source, FacetBasis.trace', 'no', 'out of scope: point evaluation / traces (C14, C19), not part of the solve pipeline'],
    ['AbstractBasis.to_indices, __repr__, plot, draw, __matmul__ / __mul__', 'no', 'out of scope: display / composite-basis construction (C19)'],
    ['solver factories (solver_iter_pcg / cg / krylov, build_pc_*, solver_eigen_scipy_sym)', 'no', 'covered by C05 (check_solver_factories)'],
]
SUBSET_KEY = 'project:subset-argument-on-unrestricted-basis'

IMPORTS = ('From Coq Require Import List ZArith Bool Arith.\n'
           'Require Import Base.C05_Np Model.C05_BC Model.C06_Galerkin Gen.C06Gen.')
DEFS = r'''
Definition mkfe (ne nl nqp : nat) (sh : list nat) (G : list (list nat)) (P : list (list (list (list Z)))) (W : list (list Z)) : fe Z :=
  {| nel := ne; nloc := nl; nq := nqp; shape := sh;
     gdof := fun e i => nth i (nth e G []) 0;
     phi := fun e q i c => nth c (nth i (nth q (nth e P []) []) []) 0%Z;
     dxw := fun e q => nth q (nth e W []) 0%Z |}.
Definition run_proj (c : nat * fe Z * list Z) :=
  let '(N, B, x) := c in let r := gen_projection Zops N B x in (dense_of_rows Zops N (fst r), snd r).
Definition run_system (c : nat * fe Z * list Z * list nat) :=
  let '(N, B, x, Is) := c in let r := gen_projection Zops N B x in
  match gen_project_system Zops (fst r) (snd r) Is with
  | Some (AII, Some bI, x0, I') => Some (dense_of_rows Zops (length Is) AII, bI, x0, I')
  | _ => None
  end.
Definition eq_proj := pair_eqb zss_eqb zs_eqb.
Definition eq_sys := option_eqb (pair_eqb (pair_eqb (pair_eqb zss_eqb zs_eqb) zs_eqb) nats_eqb).
'''


class Stub:
    """duck-typed basis with integer tables; runs the real AbstractBasis._projection.  A basis function is a tuple of
    fields (composite element); a field with one component is scalar-valued, with k >= 2 components vector-valued."""

    def __init__(self, N, G, P, W, shape):
        from skfem.element import DiscreteField
        from skfem.assembly.basis.abstract_basis import AbstractBasis
        self._ab = AbstractBasis
        G, P, W = np.array(G), np.array(P, dtype=float), np.array(W, dtype=float)   # G: nel x nloc, P: nel x nq x nloc x ncomp
        self.N = N
        self.element_dofs = G.T.astype(np.int32)
        self.Nbfun = G.shape[1]
        self.nelems = G.shape[0]
        self.dx = W
        self.X = np.zeros((1, W.shape[1]))
        self.W = np.ones(W.shape[1])
        self.shape = shape
        self.basis = [self.fields(P[:, :, i, :]) for i in range(self.Nbfun)]

    def fields(self, vals):
        """vals: nel x nq x ncomp -> tuple of DiscreteFields according to the shape"""
        from skfem.element import DiscreteField
        out, off = [], 0
        for k in self.shape:
            if k == 1:
                out.append(DiscreteField(vals[:, :, off].copy()))
            else:
                out.append(DiscreteField(np.ascontiguousarray(np.moveaxis(vals[:, :, off:off + k], 2, 0))))
            off += k
        return tuple(out)

    def default_parameters(self):
        return {}

    def _normalize_interp(self, interp):
        return self._ab._normalize_interp(self, interp)

    def projection(self, interp):
        return self._ab._projection(self, interp)


def _ai(v):
    f = float(v)
    assert f.is_integer(), v
    return int(f)


def run(ctx):
    warnings.simplefilter('ignore')
    ctx.trusted += ['scipy spsolve and the assembly of real bases (oracle only; the theorems speak about basis tables)',
                    'NumPy/SciPy COO->CSR duplicate summation (modelled as the dense semantics; validated by correspondence)']
    ctx.assumptions += ['ASSUMED (explicit hypotheses of C06_green_affine_cell / C06_patch_test_from_green_partial, nothing else): the two change-of-variables '
                        'rules for integrals over an affine cell and its facets, and additivity of the integral over the cells (the cancel hypothesis); '
                        'Green on the reference cell, integration by parts per direction, their linear extension to every polynomial, the affine algebra, '
                        'polynomial completeness are proved; exact quadrature on the reference cell is C08/C02',
                        'NOT PROVED: scipy.sparse.linalg.spsolve returns the solution of a nonsingular system',
                        'the projection theorems cover basis functions that are tuples of scalar- or vector-valued fields (composite / '
                        'vector / H(div) / H(curl) value fields: inner = sum over all components); matrix-valued fields (the ddot branch of '
                        'helpers.inner, e.g. HHJ) are oracle only',
                        '"M_II nonsingular" enters as injectivity of z |-> M_II z',
                        'float tolerances (1e-8 relative) only on generated, quality-controlled small meshes']
    ctx.cov['rule'] = ('correspondence: stub bases with integer tables nel<=4, nloc<=3, nq<=3, N<=7 (repeated dofs inside a cell '
                       'allowed); oracle: per cell type (line, tri, tet, affine/general quad, affine/general hex, prism) random '
                       'irregular meshes x polynomial-complete elements with a random polynomial of their degree x '
                       '{Poisson, reaction-diffusion, elasticity} x random Dirichlet/Neumann facet splits; projections on whole mesh, '
                       'cell subsets, boundary parts, curved second-order meshes. non-trivial = mixed boundary split or proper '
                       'subset; distinct by content')
    ctx.extra['api_coverage'] = API_COVERAGE
    ctx.ensure_static()
    gen_ok = False
    # Green's identity on the reference cells: the largest generated file; compiled in the background while the
    # correspondence and the oracle run
    import threading
    green = {}

    def _green():
        try:
            txt, summary = c06_green.generate()
            ctx.write_gen('C06Green', txt)
            ctx.write_gen('C06Ibp', c06_green.generate_ibp())
            green['ok'] = ctx.compile_dyn(['gen/C06Green.v', 'gen/C06Ibp.v'], timeout=600)
            ctx.extra['green_reference_cells'] = summary
        except TranslateError as e:
            ctx.broke('translator', 'c06_green.generate', e)
        except Exception as e:  # noqa: BLE001
            ctx.broke('harness', 'c06_green', repr(e))
    gth = threading.Thread(target=_green)
    gth.start()
    try:
        # polynomial completeness certificates from the exact basis polynomials of the current source
        txt, summary = c06_complete.generate()
        ctx.write_gen('C06Complete', txt)
        ctx.compile_dyn(['gen/C06Complete.v'])
        ctx.extra['polynomial_completeness'] = summary
        ctx.cov['exhaustive_finite_part'] = ('polynomial completeness / nodal interpolation: every listed class, every monomial of the '
                                             'stated degree (finite, certificate-checked by polynomial identity)')
        ctx.write_gen('C06Gen', c06_tr.translate())
        gen_ok = ctx.compile_dyn(['gen/C06Gen.v'])
        if gen_ok:
            ctx.compile_dyn(ctx.copy_dyn())
    except TranslateError as e:
        ctx.broke('translator', 'c06_tr.translate', e)
    _correspond(ctx, gen_ok)
    _oracle(ctx)
    gth.join()
    ctx.prove()


# ------------------------------------------------------------------------------------ correspondence on stubs

def _correspond(ctx, gen_ok):
    from skfem.element import DiscreteField
    from skfem.utils import condense
    rng = ctx.rng
    proj_cases, sys_cases = [], []
    for it in range(ctx.n(120, 600)):
        nel, nloc, nq = rng.randint(1, 4), rng.randint(1, 3), rng.randint(1, 3)
        shape = rng.choice([[1], [1], [2], [3], [1, 1], [2, 1], [1, 2, 1]])
        nc = sum(shape)
        N = rng.randint(1, 7)
        G = [[rng.randrange(N) for _ in range(nloc)] for _ in range(nel)]
        P = [[[[rng.randint(-3, 3) for _ in range(nc)] for _ in range(nloc)] for _ in range(nq)] for _ in range(nel)]
        W = [[rng.randint(1, 3) for _ in range(nq)] for _ in range(nel)]
        x = [rng.randint(-4, 4) for _ in range(N)]
        s = Stub(N, G, P, W, shape)
        interp = np.zeros((nel, nq, nc))
        for e in range(nel):
            for q in range(nq):
                for c in range(nc):
                    interp[e, q, c] = sum(x[G[e][j]] * P[e][q][j][c] for j in range(nloc))
        ctx.hist('stub_shape', shape)
        M, f = s.projection(s.fields(interp))
        Md = [[_ai(v) for v in r] for r in M.toarray()]
        fl = [_ai(v) for v in f]
        rep = {'N': N, 'shape': shape, 'G': G, 'P': P, 'W': W, 'x': x, 'nontrivial': nel >= 2 and nloc >= 2}
        ctx.count(('stub_projection', N, G, P, W, x), nontrivial=rep['nontrivial'])
        # projection identity on the implementation's own output (exact integers)
        Mx = [sum(Md[i][j] * x[j] for j in range(N)) for i in range(N)]
        if Mx != fl:
            ctx.fail('stub:projection_identity', 'load(interp x) != M x for the pair assembled by the real _projection on a stub basis',
                     dict(rep, M=Md, f=fl))
        fe = f'(mkfe {cnat(nel)} {cnat(nloc)} {cnat(nq)} {cnats(shape)} {clist([cnats(g) for g in G])} ' \
             f'{clist([clist([clist([cints(c) for c in r]) for r in Pe]) for Pe in P])} {clist([cints(w) for w in W])})'
        proj_cases.append((f'({cnat(N)}, {fe}, {cints(x)})', f'({clist([cints(r) for r in Md])}, {cints(fl)})', rep))
        if len(ctx.cov['samples']) < 2 and rep['nontrivial']:
            ctx.sample({'kind': 'stub _projection', 'input': rep, 'impl_M': Md, 'impl_f': fl})
        # the condensed system project() solves, I = dofs of the cells (+ extras), any order
        used = sorted({g for row in G for g in row})
        extra = [i for i in range(N) if i not in used and rng.random() < 0.5]
        I = used + extra
        rng.shuffle(I)
        AII, bI, x0, Ir = condense(M, f, I=np.array(I, dtype=np.int64))
        Ad = [[_ai(v) for v in r] for r in AII.toarray()] if len(I) else []
        bl = [_ai(v) for v in bI]
        # x restricted to I solves it when x vanishes outside I (exact)
        xz = [x[i] if i in I else 0 for i in range(N)]
        if [sum(Ad[p][k] * x[I[k]] for k in range(len(I))) for p in range(len(I))] != bl:
            ctx.fail('stub:projection_on_subset', 'x_I does not solve the condensed projection system on a stub basis',
                     dict(rep, I=I, AII=Ad, bI=bl))
        sys_cases.append((f'({cnat(N)}, {fe}, {cints(x)}, {cnats(I)})',
                          f'(Some ({clist([cints(r) for r in Ad])}, {cints(bl)}, {cints([_ai(v) for v in x0])}, {cnats([int(i) for i in Ir])}))',
                          dict(rep, I=I)))
    if gen_ok:
        nt = lambda r: r.get('nontrivial', False)  # noqa: E731
        ctx.corr('projection', IMPORTS, 'run_proj', 'eq_proj', proj_cases, defs=DEFS, nontrivial=nt)
        ctx.corr('project_system', IMPORTS, 'run_system', 'eq_sys', sys_cases, defs=DEFS, nontrivial=nt)


# ------------------------------------------------------------------------------------ oracle on real meshes

KINDS = ['line', 'tri', 'tet', 'quad_affine', 'quad_general', 'hex_affine', 'hex_general', 'wedge']


def _guard(ctx, key, data, fn):
    """run one oracle evaluation; an exception of the library on a valid input is a failing input"""
    try:
        return fn()
    except Exception as e:  # noqa: BLE001
        ctx.fail(key + ':exception:' + type(e).__name__, f'{type(e).__name__}: {e}', dict(data, traceback=traceback.format_exc()[-1500:]))
        return None


def _oracle(ctx):
    rng = np_seed(ctx, 6)
    stats = {'patch': 0.0, 'projection': 0.0, 'curved': 0.0}
    worst = {}
    nmesh = ctx.n(3, 24)
    for kind in KINDS:
        for rep in range(nmesh):
            res = _guard(ctx, f'mesh:{kind}', {'kind': kind}, lambda: O.make_mesh(kind, rng))
            if res is None:
                continue
            m, desc = res
            ctx.hist('mesh_kind', kind)
            ctx.hist('cells', m.t.shape[1])
            fb = kind != 'wedge'
            for ef, deg in O.elements_for(kind):
                for prob in ('poisson', 'reaction') + (('unit_load',) if deg >= 2 else ()):
                    elem = ef()
                    key = f'patch:{prob}:{kind}:{type(elem).__name__}'
                    r = _guard(ctx, key, {'mesh': desc}, lambda: O.patch_scalar(m, elem, deg, prob, rng, facet_bases=fb))
                    if r is None:
                        continue
                    err, info = r
                    ctx.count((key, desc, info), nontrivial=bool(info['neumann_facets']) and bool(info['dirichlet_facets']))
                    ctx.hist('facet_selectors', info['facet_selectors'].split(':')[0][:40])
                    stats['patch'] = max(stats['patch'], err)
                    if err > worst.get(key, 0):
                        worst[key] = err
                    if not (err <= TOL):
                        ctx.fail(key, f'patch test: discrete solution deviates from the exact polynomial solution by {err:.2e} (rel)',
                                 {'mesh': desc, 'info': info, 'error': err, 'tolerance': TOL})
                    if len(ctx.cov['samples']) < 5 and info['neumann_facets'] and kind in ('tri', 'hex_affine'):
                        ctx.sample({'kind': 'patch test', 'mesh_kind': kind, 'cells': int(m.t.shape[1]), 'info': info, 'rel_error': err})
            for ef, deg in O.vector_elements_for(kind):
                selem = ef()
                key = f'patch:elasticity:{kind}:{type(selem).__name__}'
                r = _guard(ctx, key, {'mesh': desc}, lambda: O.patch_elasticity(m, selem, deg, rng))
                if r is None:
                    continue
                err, info = r
                ctx.count((key, desc, info), nontrivial=bool(info['neumann_facets']))
                stats['patch'] = max(stats['patch'], err)
                worst[key] = max(worst.get(key, 0), err)
                if not (err <= TOL):
                    ctx.fail(key, f'elasticity patch test: deviation {err:.2e} (rel)', {'mesh': desc, 'info': info, 'error': err})
                key = f'patch:vector_poisson:{kind}:{type(selem).__name__}'
                r = _guard(ctx, key, {'mesh': desc}, lambda: O.patch_vector_poisson(m, selem, deg, rng))
                if r is not None:
                    err, info = r
                    ctx.count((key, desc, info), nontrivial=bool(info['neumann_facets']))
                    stats['patch'] = max(stats['patch'], err)
                    worst[key] = max(worst.get(key, 0), err)
                    if not (err <= TOL):
                        ctx.fail(key, f'vector Poisson patch test: deviation {err:.2e} (rel)', {'mesh': desc, 'info': info, 'error': err})
                key = f'patch:sequence-one-basis:{kind}:{type(selem).__name__}'
                r = _guard(ctx, key, {'mesh': desc}, lambda: O.patch_sequence(m, selem, deg, rng))
                if r is not None:
                    err, info = r
                    ctx.count((key, desc, info), nontrivial=True)
                    stats['patch'] = max(stats['patch'], err if err < 1.0 else 0.0)
                    if not (err <= TOL):
                        ctx.fail(key, f'{info["what"]} (sequence {info["sequence"]}; error {err:.2e})', {'mesh': desc, 'info': info, 'error': err})
            # the other public call forms that forward to the core path (API coverage audit)
            if kind != 'wedge':
                import skfem as _s
                lower = {'line': _s.ElementLineP1, 'tri': _s.ElementTriP1, 'tet': _s.ElementTetP1, 'quad_affine': _s.ElementQuad1,
                         'quad_general': _s.ElementQuad1, 'hex_affine': _s.ElementHex1, 'hex_general': _s.ElementHex1}[kind]
                efs = O.elements_for(kind)
                ef, deg = efs[int(rng.integers(0, len(efs)))]
                elem = ef()
                for what, fn in (('api-variants', lambda: O.patch_api_variants(m, elem, deg, rng)),
                                 ('legacy-projection', lambda: O.legacy_projection(m, elem, lower(), rng))):
                    key = f'patch:{what}:{kind}:{type(elem).__name__}'
                    r = _guard(ctx, key, {'mesh': desc}, fn)
                    if r is not None:
                        err, info = r
                        ctx.count((key, desc, info), nontrivial=True)
                        stats['api_variants'] = max(stats.get('api_variants', 0.0), err)
                        if not (err <= TOL):
                            ctx.fail(key, f'{info["what"]}: deviation {err:.2e} ({info.get("errors")})', {'mesh': desc, 'info': info, 'error': err})
                vefs = O.vector_elements_for(kind)
                if vefs:
                    selem = vefs[0][0]()
                    key = f'patch:elasticity-alt-form:{kind}:{type(selem).__name__}'
                    r = _guard(ctx, key, {'mesh': desc}, lambda: O.elasticity_alt_form(m, selem, 1, rng))
                    if r is not None:
                        err, info = r
                        ctx.count((key, desc, info), nontrivial=True)
                        if not (err <= TOL):
                            ctx.fail(key, f'{info["what"]}: matrices differ by {err:.2e}', {'mesh': desc, 'info': info, 'error': err})
            # projections
            for ef, deg in O.elements_for(kind):
                elem = ef()
                runs = [('whole', lambda: O.projection_whole(m, elem, rng)),
                        ('whole-complex', lambda: O.projection_complex(m, elem, rng)),
                        ('parts-complex', lambda: O.projection_complex_parts(m, elem, rng, boundary=kind not in ('line', 'wedge'))),
                        ('subdomain', lambda: O.projection_subdomain(m, elem, rng)),
                        ('subdomain-arg', lambda: O.projection_subdomain(m, elem, rng, via_argument=True))]
                if m.t.shape[1] >= 2 and elem.refdom.dim() == m.dim() and not isinstance(elem, type(None)):
                    runs.append(('subset-of-unsorted-restricted-basis', lambda: O.projection_subset_of_restricted(m, elem, rng)))
                if kind not in ('line', 'wedge'):
                    runs += [('boundary', lambda: O.projection_boundary(m, elem, rng)),
                             ('boundary-arg', lambda: O.projection_boundary(m, elem, rng, explicit=True)),
                             ('boundary-collection', lambda: O.projection_boundary(m, elem, rng, collection=True)),
                             ('boundary-collection-arg', lambda: O.projection_boundary(m, elem, rng, explicit=True, collection=True))]
                # the subset ARGUMENT on unrestricted bases, arbitrary function of the space (one stable key)
                for facet in ((False, True) if kind not in ('line', 'wedge') else (False,)):
                    if m.t.shape[1] < 2:
                        continue
                    r = _guard(ctx, SUBSET_KEY, {'mesh': desc}, lambda: O.projection_subset_argument(m, elem, rng, facet=facet))
                    if r is None:
                        continue
                    err, info = r
                    ctx.count((SUBSET_KEY, desc, info), nontrivial=True)
                    stats['subset_argument'] = max(stats.get('subset_argument', 0.0), err)
                    if not (err <= TOL):
                        ctx.fail(SUBSET_KEY, f'project(f, {"facets" if facet else "elements"}=subset) on a basis over the whole '
                                 f'{"boundary" if facet else "mesh"} does not return the function f of the space on the subset (error {err:.2e}): M and f '
                                 'are assembled over everything and only then condensed', {'mesh': desc, 'info': info, 'error': err})
                for what, fn in runs:
                    key = f'project:{what}:{kind}:{type(elem).__name__}'
                    r = _guard(ctx, key, {'mesh': desc}, fn)
                    if r is None:
                        continue
                    err, info = r
                    ctx.count((key, desc, info), nontrivial=what != 'whole')
                    stats['projection'] = max(stats['projection'], err)
                    worst[key] = max(worst.get(key, 0), err)
                    if not (err <= TOL):
                        ctx.fail(key, f'projection of a function of the space onto {info["what"]} deviates by {err:.2e} (rel)',
                                 {'mesh': desc, 'info': info, 'error': err})
    # vector-valued / H(div) / H(curl) spaces: whole-mesh projection identity (oracle only)
    import skfem as s
    extra = [('tri', [lambda: s.ElementVector(s.ElementTriP2()), s.ElementTriRT1, s.ElementTriRT2, s.ElementTriBDM1, s.ElementTriN1, s.ElementTriN2,
                      s.ElementTriP0, s.ElementTriCR, s.ElementTriP1DG, lambda: s.ElementDG(s.ElementTriP2()), s.ElementTriHHJ0, s.ElementTriHHJ1,
                      s.ElementTriMorley, lambda: s.ElementTriP2() * s.ElementTriP1() * s.ElementTriP0(),
                      lambda: s.ElementVector(s.ElementTriP2()) * s.ElementTriP1() * s.ElementTriP1()]),
             ('tet', [lambda: s.ElementVector(s.ElementTetP1()), s.ElementTetRT0, s.ElementTetN0,
                      lambda: s.ElementVector(s.ElementTetP2()) * s.ElementTetP1() * s.ElementTetP0()]),
             ('quad_general', [lambda: s.ElementVector(s.ElementQuad2()), s.ElementQuad0, s.ElementQuadRT0])]
    for kind, efs in extra:
        m, desc = O.make_mesh(kind, rng)
        for ef in efs:
            elem = ef()
            key = f'project:whole:{kind}:{type(elem).__name__}'
            r = _guard(ctx, key, {'mesh': desc}, lambda: O.projection_whole(m, elem, rng))
            if r is None:
                continue
            err, info = r
            ctx.count((key, desc, info), nontrivial=True)
            stats['projection'] = max(stats['projection'], err)
            if not (err <= TOL):
                ctx.fail(key, f'projection of a function of the space onto the whole mesh deviates by {err:.2e}', {'mesh': desc, 'info': info})
    # curved second-order meshes
    for name, m, elems in O.curved_meshes(rng):
        for elem in elems:
            for what, fn in (('whole', lambda: O.projection_whole(m, elem, rng)),
                             ('subdomain', lambda: O.projection_subdomain(m, elem, rng)),
                             ('boundary', lambda: O.projection_boundary(m, elem, rng))):
                key = f'project:{what}:curved:{name}:{type(elem).__name__}'
                r = _guard(ctx, key, {'mesh': name}, fn)
                if r is None:
                    continue
                err, info = r
                ctx.count((key, name, info), nontrivial=True)
                ctx.hist('mesh_kind', 'curved')
                stats['curved'] = max(stats['curved'], err)
                if not (err <= TOL):
                    ctx.fail(key, f'projection on the curved mesh {name} onto {info["what"]} deviates by {err:.2e}',
                             {'mesh': name, 'doflocs': m.doflocs.tolist(), 't': m.t.tolist(), 'info': info, 'error': err})
    ctx.extra['max_float_discrepancy'] = dict(stats, tolerance=TOL, margin=TOL / max(max(stats.values()), 1e-300))
    ctx.extra['worst_by_case'] = {k: v for k, v in sorted(worst.items(), key=lambda kv: -kv[1])[:12]}
    ctx.log(f'oracle: max rel. discrepancy patch {stats["patch"]:.1e}, projection {stats["projection"]:.1e}, curved {stats["curved"]:.1e}')


def replay(ctx, data):
    ctx.log('replaying', data.get('key'), '(the recorded mesh / data are in the replay file; re-running the whole check)')
    run(ctx)
