"""C13: what the ``_adaptive*`` methods say, read from the source (fail closed)."""
import ast
import re

from . import t2
from .c12_t2 import TranslateError, replace_kwargs

TRI = 'skfem/mesh/mesh_tri_1.py'
LINE = 'skfem/mesh/mesh_line_1.py'
TET = 'skfem/mesh/mesh_tet_1.py'


def _body(fn):
    return [s for s in fn.body if not (isinstance(s, ast.Expr) and isinstance(s.value, ast.Constant))]


def _srcs(stmts):
    return [t2.src(s) for s in stmts]


# ----------------------------------------------------------------------------- MeshTri1._adaptive_sort_mesh

def tr_sort_mesh():
    fn = t2.find_def(t2.parse(TRI), '_adaptive_sort_mesh', 'MeshTri1')
    b = _body(fn)
    lens = {}
    k = 0
    while k < len(b) and isinstance(b[k], ast.Assign) and t2.src(b[k].targets[0]).startswith('l'):
        nm = t2.src(b[k].targets[0])
        m = re.fullmatch(r'np\.sqrt\(np\.sum\(\(p\[:, t\[(\d)\]\] - p\[:, t\[(\d)\]\]\) \*\* 2, axis=0\)\)', t2.src(b[k].value))
        if not m:
            raise TranslateError('edge length: ' + t2.src(b[k]))
        lens[nm] = (int(m.group(1)), int(m.group(2)))
        k += 1
    if sorted(lens.values()) != [(0, 1), (0, 2), (1, 2)]:
        raise TranslateError('edge lengths: ' + repr(lens))
    masks = {}
    while k < len(b) and isinstance(b[k], ast.Assign) and t2.src(b[k].targets[0]).startswith('ix'):
        nm = t2.src(b[k].targets[0])
        m = re.fullmatch(r'\((\w+) > (\w+)\) \* \((\w+) > (\w+)\)', t2.src(b[k].value))
        if not m or m.group(1) != m.group(3) or {m.group(1), m.group(2), m.group(4)} != set(lens):
            raise TranslateError('longest-edge mask: ' + t2.src(b[k]))
        masks[nm] = lens[m.group(1)]
        k += 1
    if t2.src(b[k]) != 't = t.copy()':
        raise TranslateError('sort: t = t.copy() expected')
    k += 1
    perms = []
    order = []
    while k + 2 < len(b) and t2.src(b[k].targets[0]) == 'tmp':
        m1 = re.fullmatch(r'tmp = t\[(\d), (\w+)\]', t2.src(b[k]))
        m2 = re.fullmatch(r't\[(\d), (\w+)\] = t\[(\d), (\w+)\]', t2.src(b[k + 1]))
        m3 = re.fullmatch(r't\[(\d), (\w+)\] = tmp', t2.src(b[k + 2]))
        if not (m1 and m2 and m3):
            raise TranslateError('swap: ' + t2.src(b[k]))
        a, mk = int(m1.group(1)), m1.group(2)
        if not (m2.group(2) == m2.group(4) == m3.group(2) == mk and int(m2.group(1)) == a and int(m3.group(1)) == int(m2.group(3))):
            raise TranslateError('swap is not a transposition under one mask')
        bb = int(m2.group(3))
        perm = [0, 1, 2]
        perm[a], perm[bb] = perm[bb], perm[a]
        perms.append(perm)
        order.append(masks[mk])
        k += 3
    if t2.src(b[k]) != 'return t' or k != len(b) - 1:
        raise TranslateError('sort: tail')
    return {'perms': [[0, 1, 2]] + perms, 'edges': order}


# ----------------------------------------------------------------------------- MeshTri1._adaptive_find_facets

def tr_find_facets():
    fn = t2.find_def(t2.parse(TRI), '_adaptive_find_facets', 'MeshTri1')
    s = _srcs(_body(fn))
    want_head = ['facets = np.zeros(m.facets.shape[1], dtype=np.int32)',
                 "facets[m.t2f[:, marked_elems].flatten('F')] = 1",
                 'prev_nnz = -10000000000.0']
    if s[:3] != want_head:
        raise TranslateError('find_facets head: ' + repr(s[:3]))
    loop = _body(fn)[3]
    if not (isinstance(loop, ast.While) and t2.src(loop.test) == 'np.count_nonzero(facets) - prev_nnz > 0' and not loop.orelse):
        raise TranslateError('find_facets loop test')
    lb = _srcs(loop.body)
    if lb[0] != 'prev_nnz = np.count_nonzero(facets)' or lb[1] != 't2facets = facets[m.t2f]' \
            or lb[3] != 'facets[m.t2f[t2facets == 1]] = 1' or len(lb) != 4:
        raise TranslateError('find_facets loop body: ' + repr(lb))
    m = re.fullmatch(r't2facets\[(\d), ((?:t2facets\[\d\] \+ )*t2facets\[\d\]) > 0\] = 1', lb[2])
    if not m:
        raise TranslateError('closure rule: ' + lb[2])
    srcs = [int(x) for x in re.findall(r't2facets\[(\d)\]', m.group(2))]
    if s[4:] != ['return facets']:
        raise TranslateError('find_facets tail')
    return {'srcs': srcs, 'dst': int(m.group(1))}


# ----------------------------------------------------------------------------- MeshTri1._adaptive_split_elements

def _row(n, masks):
    """m.t[i, X] -> ('V', i, X);  ix[j, X] -> ('F', j, X)"""
    m = re.fullmatch(r'm\.t\[(\d), (\w+)\]', t2.src(n))
    if m and m.group(2) in masks:
        return ('V', int(m.group(1)), m.group(2))
    m = re.fullmatch(r'ix\[(\d), (\w+)\]', t2.src(n))
    if m and m.group(2) in masks:
        return ('F', int(m.group(1)), m.group(2))
    raise TranslateError('split row: ' + t2.src(n))


def tr_split():
    fn = t2.find_def(t2.parse(TRI), '_adaptive_split_elements', 'MeshTri1')
    b = _body(fn)
    s = _srcs(b)
    if s[:3] != ['ix = -1 * np.ones(m.facets.shape[1], dtype=np.int32)',
                 'ix[facets == 1] = np.arange(np.count_nonzero(facets)) + m.p.shape[1]',
                 'ix = ix[m.t2f]']:
        raise TranslateError('split head: ' + repr(s[:3]))
    k = 3
    masks = {}
    while k < len(b) and isinstance(b[k], ast.Assign) and not t2.src(b[k].targets[0]).startswith('t_'):
        nm = t2.src(b[k].targets[0])
        m = re.fullmatch(r'\(ix\[0\] (>= 0|== -1)\) \* \(ix\[1\] (>= 0|== -1)\) \* \(ix\[2\] (>= 0|== -1)\)', t2.src(b[k].value))
        if not m:
            raise TranslateError('class mask: ' + t2.src(b[k]))
        masks[nm] = [g == '>= 0' for g in m.groups()]
        k += 1
    tpls = {}
    while k < len(b) and isinstance(b[k], ast.Assign) and t2.src(b[k].targets[0]).startswith('t_'):
        nm = t2.src(b[k].targets[0])[2:]
        v = b[k].value
        if not (isinstance(v, ast.Call) and t2.src(v.func) == 'np.hstack' and isinstance(v.args[0], ast.Tuple)):
            raise TranslateError('templates: ' + t2.src(b[k])[:80])
        out = []
        for blk in v.args[0].elts:
            if not (isinstance(blk, ast.Call) and t2.src(blk.func) == 'np.vstack' and isinstance(blk.args[0], ast.Tuple)):
                raise TranslateError('template block: ' + t2.src(blk)[:80])
            rows = [_row(e, masks) for e in blk.args[0].elts]
            if {r[2] for r in rows} != {nm}:
                raise TranslateError(f'template t_{nm} uses another mask')
            out.append([(r[0], r[1]) for r in rows])
        tpls[nm] = out
        k += 1
    if s[k] != 'p = 0.5 * (m.p[:, m.facets[0, facets == 1]] + m.p[:, m.facets[1, facets == 1]])':
        raise TranslateError('new points: ' + s[k])
    k += 1
    sub = b[k]
    if not (isinstance(sub, ast.If) and t2.src(sub.test) == 'subdomains is not None' and not sub.orelse):
        raise TranslateError('subdomain block')
    submap = _split_submap(sub, masks)
    ret = b[k + 1]
    m = re.fullmatch(r'return \(np\.hstack\(\(m\.p, p\)\), np\.hstack\(\(m\.t\[:, (\w+)\], ([\w, ]+)\)\), subdomains\)', t2.src(ret))
    if not m or k + 2 != len(b):
        raise TranslateError('split return: ' + t2.src(ret))
    first = m.group(1)
    rest_names = [x.strip()[2:] for x in m.group(2).split(',')]
    order = [first] + rest_names
    if set(order) != set(masks) or set(rest_names) != set(tpls):
        raise TranslateError('split return: classes ' + repr(order))
    blocks = [(first, masks[first], [[('V', 0), ('V', 1), ('V', 2)]])] + [(n, masks[n], tpls[n]) for n in rest_names]
    # the subdomain rows must follow the same order and sizes
    if [x[0] for x in submap] != order or [x[1] for x in submap] != [len(bk[2]) for bk in blocks]:
        raise TranslateError(f'subdomain map order/sizes {submap} vs blocks {[(b_[0], len(b_[2])) for b_ in blocks]}')
    return {'blocks': blocks}


def _split_submap(ifnode, masks):
    """verify   new_t[0, rest] = arange(offset); new_t[:, red] = arange(offset, offset + 4 nred).reshape(4, -1); offset += 4 nred; ...
    returns [(class, rows)] in the order of the offsets"""
    s = _srcs(ifnode.body)
    if s[0] != 'new_t = np.zeros((4, m.t.shape[1]), dtype=np.int32) - 1':
        raise TranslateError('new_t allocation: ' + s[0])
    k = 1
    cnt = {}
    while re.fullmatch(r'n(\w+) = np\.sum\((\w+)\)', s[k]):
        m = re.fullmatch(r'n(\w+) = np\.sum\((\w+)\)', s[k])
        if m.group(1) != m.group(2):
            raise TranslateError('count: ' + s[k])
        cnt['n' + m.group(1)] = m.group(2)
        k += 1
    m = re.fullmatch(r'offset = np\.sum\((\w+)\)', s[k])
    if not m:
        raise TranslateError('offset: ' + s[k])
    first = m.group(1)
    k += 1
    if s[k] != f'new_t[0, {first}] = np.arange(offset, dtype=np.int32)':
        raise TranslateError('rest rows: ' + s[k])
    k += 1
    out = [(first, 1)]
    pending = None
    while k < len(s) - 1:
        if pending is not None:
            if s[k] != f'offset += {pending[1]} * n{pending[0]}':
                raise TranslateError('offset update: ' + s[k])
            pending = None
            k += 1
            continue
        m = re.fullmatch(r'new_t\[(:|:(\d)), (\w+)\] = np\.arange\(offset, offset \+ (\d) \* n(\w+), dtype=np\.int32\)\.reshape\((\d), -1\)', s[k])
        if not m:
            raise TranslateError('subdomain rows: ' + s[k])
        rows = 4 if m.group(1) == ':' else int(m.group(2))
        if not (m.group(3) == m.group(5) and int(m.group(4)) == rows == int(m.group(6)) and cnt.get('n' + m.group(3)) == m.group(3)):
            raise TranslateError('subdomain rows inconsistent: ' + s[k])
        out.append((m.group(3), rows))
        pending = (m.group(3), rows)
        k += 1
    if s[-1] != 'subdomains = {name: np.setdiff1d(np.unique(new_t[:, ixs]), [-1]) for name, ixs in subdomains.items()}':
        raise TranslateError('subdomain dictionary: ' + s[-1])
    return out


def tr_adaptive_tri():
    fn = t2.find_def(t2.parse(TRI), '_adaptive', 'MeshTri1')
    s = _srcs(_body(fn))
    want = ['sorted_mesh = replace(self, t=self._adaptive_sort_mesh(self.p, self.t), sort_t=False)',
            'facets = self._adaptive_find_facets(sorted_mesh, marked)',
            'doflocs, t, subdomains = self._adaptive_split_elements(sorted_mesh, facets, self._subdomains)',
            'return replace(self, doflocs=doflocs, t=t, _boundaries=None, _subdomains=subdomains)']
    if s != want:
        raise TranslateError('MeshTri1._adaptive: ' + repr(s))
    return {'boundaries': 'none', 'subdomains': 'own'}


# ----------------------------------------------------------------------------- MeshLine1._adaptive

def tr_adaptive_line():
    fn = t2.find_def(t2.parse(LINE), '_adaptive', 'MeshLine1')
    b = _body(fn)
    s = _srcs(b)
    head = ['p, t = (self.doflocs, self.t)',
            'MID',
            'nonmarked = np.setdiff1d(np.arange(t.shape[1]), marked)',
            'newp = np.hstack((p, p[:, t[:, marked]].mean(1)))',
            'newt = np.vstack((t[0, marked], mid))',
            'newt = np.hstack((t[:, nonmarked], newt, np.vstack((mid, t[1, marked]))))']
    uniq = False
    for pos in (0, 1):
        if len(s) > pos and s[pos] in ('marked = np.unique(marked)', 'marked = np.unique(np.asarray(marked))'):
            uniq = True
            del s[pos]
            del b[pos]
            break
    midforms = {'mid = np.arange(len(marked), dtype=np.int32) + p.shape[1]': 'npoints',
                'mid = range(len(marked)) + np.max(t) + 1': 'maxt'}
    if len(s) < 6 or s[1] not in midforms:
        raise TranslateError('MeshLine1._adaptive: midpoint numbers: ' + repr(s[1:2]))
    midbase = midforms[s[1]]
    s[1] = 'MID'
    if s[:6] != head:
        raise TranslateError('MeshLine1._adaptive head: ' + repr(s[:6]))
    rest = b[6:]
    ret = rest[-1]
    kw = replace_kwargs(ret.value) if isinstance(ret, ast.Return) else None
    if kw is None or t2.src(kw.get('doflocs')) != 'newp' or t2.src(kw.get('t')) != 'newt' \
            or set(kw) - {'doflocs', 't', '_subdomains', '_boundaries'}:
        raise TranslateError('MeshLine1._adaptive return')
    if '_subdomains' not in kw:
        if len(rest) != 1:
            raise TranslateError('MeshLine1._adaptive: unexpected statements')
        sub = 'stale'          # the old dictionary is kept although the cells are renumbered
    else:
        if t2.src(kw['_subdomains']) != 'subdomains' or len(rest) != 3 or t2.src(rest[0]) != 'subdomains = None':
            raise TranslateError('MeshLine1._adaptive: subdomain handling')
        ifn = rest[1]
        want = ['new_t = np.zeros((2, t.shape[1]), dtype=np.int32) - 1',
                'new_t[0, nonmarked] = np.arange(len(nonmarked), dtype=np.int32)',
                'new_t[:, marked] = np.arange(2 * len(marked), dtype=np.int32).reshape(2, -1) + len(nonmarked)',
                'subdomains = {name: np.setdiff1d(np.unique(new_t[:, ixs]), [-1]) for name, ixs in self._subdomains.items()}']
        if not (isinstance(ifn, ast.If) and t2.src(ifn.test) == 'self._subdomains is not None' and not ifn.orelse
                and _srcs(ifn.body) == want):
            raise TranslateError('MeshLine1._adaptive: subdomain map changed')
        sub = 'own'
    return {'subdomains': sub, 'boundaries': 'kept' if '_boundaries' not in kw else t2.src(kw['_boundaries']), 'unique': uniq,
            'midbase': midbase}


# ----------------------------------------------------------------------------- MeshTet1._adaptive (bisection step only)

def tr_adaptive_tet():
    fn = t2.find_def(t2.parse(TET), '_adaptive', 'MeshTet1')
    src = t2.src(fn)
    if 't0, t1, t2, t3 = t[:, marked]' not in src:
        raise TranslateError('tet: unpacking of the marked cells')
    m1 = re.search(r't\[:, marked\] = np\.vstack\(\((\w+), (\w+), (\w+), (\w+)\)\)', src)
    m2 = re.search(r't\[:, nt:nt \+ nm\] = np\.vstack\(\((\w+), (\w+), (\w+), (\w+)\)\)', src)
    if not (m1 and m2):
        raise TranslateError('tet: bisection templates')
    if 'p[:, nv:nv + nn] = 0.5 * (p[:, i] + p[:, j])' not in src:
        raise TranslateError('tet: new points')
    if '*np.sort(np.vstack((t0[ix], t1[ix])), axis=0)' not in src:
        raise TranslateError('tet: split edge is not (t0, t1)')

    def refs(m):
        out = []
        for g in m.groups():
            if g == 'tnew':
                out.append(('E', 0))      # the node on the split edge (t0, t1)
            elif re.fullmatch(r't[0-3]', g):
                out.append(('V', int(g[1])))
            else:
                raise TranslateError('tet: template entry ' + g)
        return out
    sm = t2.src(t2.find_def(t2.parse(TET), '_adaptive_sort_mesh', 'MeshTet1'))
    if 'noise = 1e-10 * np.max(np.abs(p))' in sm and 'p = p.copy() + noise * ' in sm:
        noise = 'relative'
    elif 'p = p.copy() + 1e-10 * ' in sm:
        noise = 'absolute'       # lost for large coordinates (N52)
    else:
        raise TranslateError('tet: tie-breaking noise of _adaptive_sort_mesh')
    ret = _body(fn)[-1]
    kw = replace_kwargs(ret.value) if isinstance(ret, ast.Return) else None
    if kw is None:
        raise TranslateError('tet return')
    sub = 'stale' if '_subdomains' not in kw else ('own' if t2.src(kw['_subdomains']) == 'subdomains' else '?')
    bnd = 'stale' if '_boundaries' not in kw else ('none' if t2.src(kw['_boundaries']) == 'None' else '?')
    if '?' in (sub, bnd):
        raise TranslateError('tet: tag keywords')
    if sub == 'own':
        need = ['parent = np.arange(8 * nt, dtype=np.int32)', 'parent[nt:nt + nm] = parent[marked]',
                'name: np.nonzero(np.isin(parent[:nt], ixs))[0].astype(np.int32)']
        for nd in need:
            if nd not in src:
                raise TranslateError('tet: parent tracking: ' + nd)
    return {'templates': [refs(m1), refs(m2)], 'subdomains': sub, 'boundaries': bnd, 'noise': noise}


def tr_second():
    """how the second-order classes refine adaptively: 'from_mesh' (tags dropped) or 'carry' (subdomains carried through
    the first-order class)"""
    from .c12_src import _carry_body, _nodoc
    out = {}
    for f, c, base in (('skfem/mesh/mesh_tri_2.py', 'MeshTri2', 'MeshTri1'), ('skfem/mesh/mesh_tet_2.py', 'MeshTet2', 'MeshTet1')):
        tree = t2.parse(f)
        body = _nodoc(t2.find_def(tree, '_adaptive', c))
        s = _srcs(body)
        if s == [f'return {c}.from_mesh({base}.from_mesh(self).refined(marked))']:
            out[c] = 'from_mesh'
        elif _carry_body(body, c, base, 'marked'):
            out[c] = 'carry'
        elif s == ['return self._refined_linear(marked)']:
            h = t2.find_def(tree, '_refined_linear', c)
            if not (h.args.vararg is not None and h.args.vararg.arg == 'args' and _carry_body(_nodoc(h), c, base, '*args')):
                raise TranslateError(f'{c}._refined_linear: ' + t2.src(h)[:200])
            out[c] = 'carry'
        else:
            raise TranslateError(f'{c}._adaptive: ' + repr(s))
    return out


def tr_adaptive_theta():
    """utils.adaptive_theta: indices of the cells with theta * max < est, ALWAYS a 1-d index array"""
    fn = t2.find_def(t2.parse('skfem/utils.py'), 'adaptive_theta')
    if [a.arg for a in fn.args.args] != ['est', 'theta', 'max'] or [t2.src(d) for d in fn.args.defaults] != ['0.5', 'None']:
        raise TranslateError('adaptive_theta signature')
    s = _srcs(_body(fn))
    want = ['if max is None:\n    return np.nonzero(theta * np.max(est) < est)[0].astype(np.int32)\n'
            'else:\n    return np.nonzero(theta * max < est)[0].astype(np.int32)']
    if s != want:
        raise TranslateError('adaptive_theta body: ' + repr(s))
    return {'select': 'theta*max<est', 'default_max': 'np.max(est)', 'result': 'np.nonzero(...)[0] (1-d)'}


# ----------------------------------------------------------------------------- emit

def _nref(r):
    return {'V': 'NV', 'F': 'NF', 'E': 'NE'}[r[0]] + f' {r[1]}'


def _tpl(t):
    return '[' + '; '.join(_nref(r) for r in t) + ']'


def gen_text():
    so, ff, sp = tr_sort_mesh(), tr_find_facets(), tr_split()
    tri, line, tet, sec = tr_adaptive_tri(), tr_adaptive_line(), tr_adaptive_tet(), tr_second()
    theta = tr_adaptive_theta()
    from .c12_src import tr_refined
    tr_refined()      # Mesh.refined: the adaptive branch normalises the selection (bool mask -> indices, empty -> int32); fail closed
    L = ['(* GENERATED by vlib/c13_src.py from skfem/mesh/mesh_tri_1.py, mesh_line_1.py, mesh_tet_1.py — do not edit *)',
         'From Coq Require Import List Arith Bool ZArith QArith.', 'Import ListNotations.',
         'Require Import Model.C12_Refine Model.C13_Adaptive.', 'Local Open Scope nat_scope.', '']
    L.append('(* _adaptive_sort_mesh: the local vertex permutations (identity, swap under ix01, swap under ix12) and the edge each mask selects *)')
    L.append('Definition gen_sort_perms : list (list nat) := [' + '; '.join('[' + '; '.join(map(str, p)) + ']' for p in so['perms']) + '].')
    L.append('Definition gen_sort_edges : list (nat * nat) := [' + '; '.join(f'({a}, {b})' for a, b in so['edges']) + '].')
    L.append('(* _adaptive_find_facets: t2facets[dst, sum(t2facets[srcs]) > 0] = 1 *)')
    L.append('Definition gen_rule_srcs : list nat := [' + '; '.join(map(str, ff['srcs'])) + '].')
    L.append(f'Definition gen_rule_dst : nat := {ff["dst"]}.')
    L.append('(* _adaptive_split_elements: classes in the order of the final hstack: (name, pattern of ix[j] >= 0, child templates) *)')
    blk = []
    for nm, pat, tp in sp['blocks']:
        blk.append('  ([' + '; '.join('true' if x else 'false' for x in pat) + '], [' + '; '.join(_tpl(t) for t in tp) + '])  (* ' + nm + ' *)')
    L.append('Definition gen_split_blocks : list (list bool * list (list nref)) := [\n' + ';\n'.join(blk) + '\n].')
    # the subdomain map of _adaptive_split_elements: rows j of class c start at the running offset
    L.append('(* new_t[j, class c] = offset_c + j * n_c + arange(n_c), offsets accumulated in block order *)')
    L.append('Definition gen_split_submap (n : nat -> nat) (c j r : nat) : nat :=')
    L.append('  match c with')
    acc = []
    for ci, (nm, pat, tp) in enumerate(sp['blocks']):
        off = ' + '.join(acc) if acc else '0'
        L.append(f'  | {ci} => {off} + j * n {ci} + r   (* {nm} *)')
        acc.append(f'{len(tp)} * n {ci}')
    L.append('  | _ => 0\n  end.')
    L.append('''(* utils.adaptive_theta(est, theta, max): np.nonzero(theta * (max or np.max(est)) < est)[0] *)
Definition gen_theta_select (est : list Q) (theta : Q) (mx : option Q) : list nat :=
  let m := match mx with Some v => v | None => qmax est end in
  filter (fun k => Qltb (theta * m)%Q (nth k est 0%Q)) (seq 0 (length est)).''')
    L.append('(* MeshTet1._adaptive: the two children of one bisection of the edge (t0, t1) *)')
    L.append('Definition gen_tet_bisect : list (list nref) := [' + '; '.join(_tpl(t) for t in tet['templates']) + '].')
    L.append('(* MeshLine1._adaptive: [t0, mid] and [mid, t1] *)')
    L.append('Definition gen_line_bisect : list (list nref) := [[NV 0; NC]; [NC; NV 1]].')
    from skfem import refdom as R

    def nats(ll):
        return '[' + '; '.join('[' + '; '.join(str(int(x)) for x in l) + ']' for l in ll) + ']'
    L.append(f'Definition gen13_tri_rfacets : list (list nat) := {nats(R.RefTri.facets)}.')
    L.append(f'Definition gen13_tet_redges : list (list nat) := {nats(R.RefTet.edges)}.')
    L.append(f'Definition gen13_tet_rfacets : list (list nat) := {nats(R.RefTet.facets)}.')
    L.append('(* MeshLine1._adaptive: number of the first new midpoint *)\nDefinition gen_line_mid_base (p : list point) (t : list (list nat)) : nat := '
             + ('length p.' if line['midbase'] == 'npoints' else 'S (tab_max t).'))
    L.append('(* MeshLine1._adaptive starts with marked = np.unique(marked)? *)\nDefinition gen_line_unique : bool := %s.' % ('true' if line['unique'] else 'false'))
    for c, nm in (('MeshTri2', 'tri2'), ('MeshTet2', 'tet2')):
        L.append(f'(* {c}._adaptive *)\nDefinition gen_{nm}_adaptive_via : via2 := '
                 + ('ViaCarry' if sec[c] == 'carry' else 'ViaFromMesh') + '.')
    if line['subdomains'] == 'own':
        L.append('''(* MeshLine1._adaptive: new_t[0, nonmarked] = arange(len(nonmarked));
   new_t[:, marked] = arange(2 len(marked)).reshape(2, -1) + len(nonmarked) *)
Definition gen_line_adapt_children (nt : nat) (marked : list nat) (k : nat) : list nat :=
  let nonm := nonmarked nt marked in
  match index_of k marked with
  | Some i => [i + length nonm; length marked + i + length nonm]
  | None => [length (filter (fun k' => k' <? k) nonm)]
  end.''')
    else:
        L.append('''(* MeshLine1._adaptive passes no _subdomains to replace(): the old dictionary is kept as it is *)
Definition gen_line_adapt_children (nt : nat) (marked : list nat) (k : nat) : list nat := [k].''')
    return '\n'.join(L) + '\n', {'sort': so, 'rule': ff, 'split': sp, 'tri': tri, 'line': line, 'tet': tet, 'second': sec, 'theta': theta}
