"""C06 oracle: float patch tests and projection identities on the real library (supporting validation and
failing-input search; NOT the proof).  Everything random derives from the numpy Generator handed in."""
import itertools
import math
import warnings

import numpy as np


# ------------------------------------------------------------------------------------ polynomials

class Poly:
    """multivariate polynomial  sum c_a x^a  as {exponent tuple: coefficient}"""

    def __init__(self, dim, terms=None):
        self.dim = dim
        self.t = {k: float(v) for k, v in (terms or {}).items() if v != 0}

    @staticmethod
    def random(dim, deg, rng):
        t = {}
        for a in itertools.product(range(deg + 1), repeat=dim):
            if sum(a) <= deg:
                t[a] = float(rng.integers(-3, 4))
        # make sure the top degree is present
        top = tuple([deg] + [0] * (dim - 1))
        if t.get(top, 0) == 0:
            t[top] = 1.0
        return Poly(dim, t)

    def __call__(self, x):
        x = np.asarray(x)
        out = np.zeros(x.shape[1:])
        for a, c in self.t.items():
            term = c * np.ones(x.shape[1:])
            for i, e in enumerate(a):
                if e:
                    term = term * x[i] ** e
            out = out + term
        return out

    def d(self, i):
        t = {}
        for a, c in self.t.items():
            if a[i] > 0:
                b = list(a)
                b[i] -= 1
                t[tuple(b)] = t.get(tuple(b), 0.0) + c * a[i]
        return Poly(self.dim, t)

    def __add__(self, o):
        t = dict(self.t)
        for a, c in o.t.items():
            t[a] = t.get(a, 0.0) + c
        return Poly(self.dim, t)

    def scale(self, s):
        return Poly(self.dim, {a: s * c for a, c in self.t.items()})

    def lap(self):
        out = Poly(self.dim)
        for i in range(self.dim):
            out = out + self.d(i).d(i)
        return out

    def grad(self, x):
        return np.array([self.d(i)(x) for i in range(self.dim)])

    def describe(self):
        return {str(a): c for a, c in sorted(self.t.items())}


# ------------------------------------------------------------------------------------ meshes

def _affine(rng, dim):
    while True:
        A = np.eye(dim) + rng.uniform(-0.4, 0.4, size=(dim, dim))
        if np.linalg.det(A) > 0.4 and np.linalg.cond(A) < 6:
            return A, rng.uniform(-1, 1, size=dim)


def _grid(rng, n, dim):
    """strictly increasing, non-uniform coordinates in [0, 1]"""
    out = []
    for _ in range(dim):
        x = np.linspace(0, 1, n) + np.concatenate(([0], rng.uniform(-0.25, 0.25, n - 2) / (n - 1), [0]))
        out.append(x)
    return out


def make_mesh(kind, rng):
    """-> (mesh, description).  kinds: line, tri, tet, quad_affine, quad_general, hex_affine, hex_general, wedge"""
    import skfem
    from scipy.spatial import Delaunay
    if kind == 'line':
        n = int(rng.integers(3, 9))
        p = np.sort(np.concatenate(([0.0, 1.0], rng.uniform(0.05, 0.95, n))))
        while np.min(np.diff(p)) < 0.02:
            p = np.sort(np.concatenate(([0.0, 1.0], rng.uniform(0.05, 0.95, n))))
        a, c = rng.uniform(0.5, 2.0), rng.uniform(-1, 1)
        return skfem.MeshLine(a * p + c), {'kind': kind, 'p': (a * p + c).tolist()}
    if kind in ('tri', 'tet'):
        dim = 2 if kind == 'tri' else 3
        n = int(rng.integers(3, 6)) if dim == 2 else 3
        for attempt in range(50):
            g = np.linspace(0, 1, n)
            pts = np.array(list(itertools.product(g, repeat=dim)))
            h = 1.0 / (n - 1)
            jit = rng.uniform(-0.3, 0.3, size=pts.shape) * h
            on_bnd = (pts == 0) | (pts == 1)
            jit[on_bnd] = 0.0                      # boundary points slide along the boundary only
            pts = pts + jit
            tri = Delaunay(pts)
            t = tri.simplices.T
            P = pts.T
            if dim == 2:
                vol = 0.5 * np.abs((P[0, t[1]] - P[0, t[0]]) * (P[1, t[2]] - P[1, t[0]]) - (P[0, t[2]] - P[0, t[0]]) * (P[1, t[1]] - P[1, t[0]]))
            else:
                E = np.array([P[:, t[k]] - P[:, t[0]] for k in (1, 2, 3)])
                vol = np.abs(np.linalg.det(np.transpose(E, (2, 0, 1)))) / 6
            keep = vol > 1e-3 * np.mean(vol)
            if not np.all(keep):
                continue                           # sliver: draw again
            A, c = _affine(rng, dim)
            Pm = A @ P + c[:, None]
            cls = skfem.MeshTri if dim == 2 else skfem.MeshTet
            m = cls(Pm, t.astype(np.int32))
            # random renumbering of the cells
            perm = rng.permutation(m.t.shape[1])
            m = cls(m.p, m.t[:, perm])
            return m, {'kind': kind, 'p': m.p.tolist(), 't': m.t.tolist()}
        # (practically unreachable) fall back to a structured simplicial mesh under the same kind of affine map
        cls = skfem.MeshTri if dim == 2 else skfem.MeshTet
        m0 = cls.init_tensor(*_grid(rng, n, dim))
        A, c = _affine(rng, dim)
        m = cls(A @ m0.p + c[:, None], m0.t)
        return m, {'kind': kind, 'p': m.p.tolist(), 't': m.t.tolist(), 'fallback': True}
    if kind in ('quad_affine', 'quad_general'):
        n = int(rng.integers(3, 6))
        xs, ys = _grid(rng, n, 2)
        m0 = skfem.MeshQuad.init_tensor(xs, ys)
        P = m0.p.copy()
        if kind == 'quad_general':
            h = 1.0 / (n - 1)
            inner = (P[0] > 1e-12) & (P[0] < 1 - 1e-12) & (P[1] > 1e-12) & (P[1] < 1 - 1e-12)
            P[:, inner] += rng.uniform(-0.15, 0.15, size=(2, int(inner.sum()))) * h
        A, c = _affine(rng, 2)
        m = skfem.MeshQuad(A @ P + c[:, None], m0.t)
        return m, {'kind': kind, 'p': m.p.tolist(), 't': m.t.tolist()}
    if kind in ('hex_affine', 'hex_general'):
        n = 3
        xs, ys, zs = _grid(rng, n, 3)
        m0 = skfem.MeshHex.init_tensor(xs, ys, zs)
        P = m0.p.copy()
        if kind == 'hex_general':
            h = 1.0 / (n - 1)
            inner = np.all((P > 1e-12) & (P < 1 - 1e-12), axis=0)
            P[:, inner] += rng.uniform(-0.12, 0.12, size=(3, int(inner.sum()))) * h
        A, c = _affine(rng, 3)
        m = skfem.MeshHex(A @ P + c[:, None], m0.t)
        return m, {'kind': kind, 'p': m.p.tolist(), 't': m.t.tolist()}
    if kind == 'wedge':
        # extruded jittered triangulation: prisms with parallel, congruent end faces (affine cells)
        mt, _ = make_mesh('tri', rng)
        zs = _grid(rng, 3, 1)[0]
        npts = mt.p.shape[1]
        P = np.hstack([np.vstack((mt.p, np.full(npts, z))) for z in zs])
        T = np.hstack([np.vstack((mt.t + l * npts, mt.t + (l + 1) * npts)) for l in range(len(zs) - 1)])
        A, c = _affine(rng, 3)
        m = skfem.MeshWedge1(A @ P + c[:, None], T.astype(np.int32))
        return m, {'kind': kind, 'p': m.p.tolist(), 't': m.t.tolist()}
    raise ValueError(kind)


def elements_for(kind):
    """(element factory, degree of the polynomial solution the patch test uses)"""
    import skfem as s
    return {
        'line': [(s.ElementLineP1, 1), (s.ElementLineP2, 2), (lambda: s.ElementLinePp(3), 3), (s.ElementLineMini, 1)],
        'tri': [(s.ElementTriP1, 1), (s.ElementTriP2, 2), (s.ElementTriP3, 3), (s.ElementTriP4, 4), (s.ElementTriMini, 1),
                (s.ElementTriCCR, 2)],
        'tet': [(s.ElementTetP1, 1), (s.ElementTetP2, 2), (s.ElementTetMini, 1), (s.ElementTetCCR, 2)],
        'quad_affine': [(s.ElementQuad1, 1), (s.ElementQuad2, 2), (s.ElementQuadS2, 2), (lambda: s.ElementQuadP(2), 2)],
        'quad_general': [(s.ElementQuad1, 1), (s.ElementQuad2, 1), (s.ElementQuadS2, 1)],
        'hex_affine': [(s.ElementHex1, 1), (s.ElementHex2, 2), (s.ElementHexS2, 2)],
        'hex_general': [(s.ElementHex1, 1), (s.ElementHex2, 1)],
        'wedge': [(s.ElementWedge1, 1)],
    }[kind]


def vector_elements_for(kind):
    import skfem as s
    return {
        'tri': [(s.ElementTriP1, 1), (s.ElementTriP2, 2)],
        'tet': [(s.ElementTetP1, 1), (s.ElementTetP2, 2)],
        'quad_affine': [(s.ElementQuad1, 1), (s.ElementQuad2, 2)],
        'quad_general': [(s.ElementQuad1, 1)],
        'hex_affine': [(s.ElementHex1, 1)],
        'hex_general': [(s.ElementHex1, 1)],
    }.get(kind, [])


def split_boundary(m, rng, need_dirichlet=True):
    bf = m.boundary_facets()
    k = len(bf)
    lo = max(1, math.ceil(0.3 * k)) if need_dirichlet else 0
    nd = int(rng.integers(lo, k + 1))
    perm = rng.permutation(k)
    return np.sort(bf[perm[:nd]]), np.sort(bf[perm[nd:]])


def overlapping_selector(m, facets, rng, tag):
    """-> (mesh with extra named boundaries, selector, description).  The selector denotes exactly the facet set
    ``facets`` but as an OVERLAPPING collection: two tags sharing facets, a tag plus an index array containing some
    of its facets, nested tuples, a set of tags — every way Mesh.normalize_facets accepts a collection."""
    facets = np.asarray(facets)
    k = len(facets)
    if k == 0:
        return m, facets, 'array(empty)'
    perm = rng.permutation(k)
    cut1 = int(rng.integers(1, k + 1))
    cut0 = int(rng.integers(0, cut1))
    A = np.sort(facets[perm[:cut1]])              # A and B cover facets and share perm[cut0:cut1]
    B = np.sort(facets[perm[cut0:]])
    old = dict(m.boundaries) if m.boundaries is not None else {}
    m2 = m.with_boundaries({**old, tag + 'A': A, tag + 'B': B})
    form = int(rng.integers(0, 5))
    if form == 0:
        sel, desc = [tag + 'A', tag + 'B'], 'list of two overlapping tags'
    elif form == 1:
        sel, desc = (tag + 'A', B.copy()), 'tuple (tag, index array sharing facets with it)'
    elif form == 2:
        sel, desc = [tag + 'A', (tag + 'B', A[:max(1, len(A) // 2)].copy())], 'nested list/tuple with repeats'
    elif form == 3:
        sel, desc = {tag + 'A', tag + 'B'}, 'set of two overlapping tags'
    else:
        sel, desc = [facets.copy(), tag + 'A', [tag + 'B']], 'list (index array, tag, [tag])'
    return m2, sel, desc


def _dofs_of(basis, sel):
    """boundary DOFs of a facet selector: index arrays through facets=, tags / collections positionally"""
    return basis.get_dofs(facets=sel) if isinstance(sel, np.ndarray) else basis.get_dofs(sel)


def relerr(a, b):
    return float(np.max(np.abs(a - b)) / max(1.0, float(np.max(np.abs(b))))) if len(b) else 0.0


# ------------------------------------------------------------------------------------ patch tests

def patch_scalar(m, elem, deg, problem, rng, intorder=None, facet_bases=True):
    """problem: 'poisson' | 'reaction' | 'unit_load' (-Laplace u = 1 through models.poisson.unit_load).
    Returns (relative error, info) of solve(*condense(...)) vs the exact solution."""
    import skfem
    from skfem import Basis, FacetBasis, BilinearForm, LinearForm, solve, condense
    from skfem.helpers import dot, grad
    from skfem.models.poisson import laplace, mass, unit_load
    dim = m.dim()
    u = Poly.random(dim, deg, rng)
    if problem == 'unit_load':
        # make -Laplace(u) = 1 exactly:  u = q - (Laplace(q) + 1) / (2 dim) |x|^2  with a quadratic q
        q = Poly.random(dim, 2, rng)
        lq = q.lap().t.get(tuple([0] * dim), 0.0)
        r2 = Poly(dim, {tuple(2 if j == i else 0 for j in range(dim)): 1.0 for i in range(dim)})
        u = q + r2.scale(-(lq + 1.0) / (2 * dim))
    c = float(rng.integers(1, 4)) if problem == 'reaction' else 0.0
    kw = {} if intorder is None else {'intorder': intorder}
    mode = int(rng.integers(0, 3)) if facet_bases else 0        # 0 index arrays, 1 single tags, 2 overlapping collections
    named = mode == 1
    if facet_bases:
        fD, fN = split_boundary(m, rng, need_dirichlet=(problem != 'reaction'))
    else:                     # cell types without facet bases (prisms): Dirichlet data on the whole boundary
        fD, fN = m.boundary_facets(), np.zeros(0, dtype=np.int64)
    selD, selN, seldesc = fD, fN, 'index arrays'
    if named:
        m = m.with_boundaries({'gD': fD, 'gN': fN} if len(fN) else {'gD': fD})
        selD, selN, seldesc = 'gD', 'gN', 'single tags'
    elif mode == 2:
        m, selD, d1 = overlapping_selector(m, fD, rng, 'd')
        m, selN, d2 = overlapping_selector(m, fN, rng, 'n')
        seldesc = f'Dirichlet: {d1}; Neumann: {d2}'
    basis = Basis(m, elem, **kw)
    A = laplace.assemble(basis)
    if c:
        A = A + c * mass.assemble(basis)
    lapu = u.lap()
    if problem == 'unit_load':
        b = unit_load.assemble(basis)
    else:
        b = LinearForm(lambda v, w: (-lapu(w.x) + c * u(w.x)) * v).assemble(basis)
    if len(fN):
        fbN = FacetBasis(m, elem, facets=selN, **kw)
        b = b + LinearForm(lambda v, w: dot(u.grad(w.x), w.n) * v).assemble(fbN)
    xstar = basis.project(lambda x: u(x))
    if len(fD) and not facet_bases:
        x = solve(*condense(A, b, x=xstar, D=basis.get_dofs()))
    elif len(fD):
        fbD = FacetBasis(m, elem, facets=selD, **kw)
        xD = fbD.project(lambda x: u(x))
        D = _dofs_of(basis, selD)
        x = solve(*condense(A, b, x=xD, D=D))
    else:
        x = solve(A, b)
    info = {'problem': problem, 'elem': type(elem).__name__, 'deg': deg, 'c': c, 'u': u.describe(), 'facet_selectors': seldesc,
            'dirichlet_facets': fD.tolist(), 'neumann_facets': fN.tolist(), 'N': int(basis.N)}
    return relerr(x, xstar), info


def patch_vector_poisson(m, selem, deg, rng, intorder=None):
    """componentwise Poisson problem through models.poisson.vector_laplace"""
    from skfem import Basis, FacetBasis, LinearForm, ElementVector, solve, condense
    from skfem.helpers import dot
    from skfem.models.poisson import vector_laplace
    dim = m.dim()
    U = [Poly.random(dim, deg, rng) for _ in range(dim)]
    L = [p.lap() for p in U]
    elem = ElementVector(selem)
    kw = {} if intorder is None else {'intorder': intorder}
    fD, fN = split_boundary(m, rng, need_dirichlet=True)
    selD, selN, seldesc = fD, fN, 'index arrays'
    if rng.integers(0, 2):
        m, selD, d1 = overlapping_selector(m, fD, rng, 'd')
        m, selN, d2 = overlapping_selector(m, fN, rng, 'n')
        seldesc = f'Dirichlet: {d1}; Neumann: {d2}'
    basis = Basis(m, elem, **kw)
    A = vector_laplace.assemble(basis)

    def uvec(x):
        return np.array([U[i](x) for i in range(dim)])
    b = LinearForm(lambda v, w: dot(np.array([-L[i](w.x) for i in range(dim)]), v)).assemble(basis)
    if len(fN):
        fbN = FacetBasis(m, elem, facets=selN, **kw)
        b = b + LinearForm(lambda v, w: dot(np.array([sum(U[i].d(j)(w.x) * w.n[j] for j in range(dim)) for i in range(dim)]), v)).assemble(fbN)
    xstar = basis.project(uvec)
    xD = FacetBasis(m, elem, facets=selD, **kw).project(uvec)
    x = solve(*condense(A, b, x=xD, D=_dofs_of(basis, selD)))
    info = {'problem': 'vector_poisson', 'elem': 'ElementVector(' + type(selem).__name__ + ')', 'deg': deg,
            'u': [p.describe() for p in U], 'facet_selectors': seldesc, 'dirichlet_facets': fD.tolist(), 'neumann_facets': fN.tolist(), 'N': int(basis.N)}
    return relerr(x, xstar), info


def patch_elasticity(m, selem, deg, rng, intorder=None):
    import skfem
    from skfem import Basis, FacetBasis, LinearForm, ElementVector, solve, condense
    from skfem.helpers import dot
    from skfem.models.elasticity import linear_elasticity, lame_parameters, plane_stress
    dim = m.dim()
    E, nu = float(rng.integers(2, 9)), float(rng.choice([0.1, 0.25, 0.3, 0.4]))
    pstress = dim == 2 and bool(rng.integers(0, 2))
    lam_lib, mu_lib = lame_parameters(*plane_stress(E, nu)) if pstress else lame_parameters(E, nu)
    # the textbook values, independently of the library
    mu = E / (2 * (1 + nu))
    lam = E * nu / (1 - nu ** 2) if pstress else E * nu / ((1 + nu) * (1 - 2 * nu))
    U = [Poly.random(dim, deg, rng) for _ in range(dim)]
    G = [[U[i].d(j) for j in range(dim)] for i in range(dim)]                 # grad u
    tr = Poly(dim)
    for k in range(dim):
        tr = tr + G[k][k]
    S = [[(G[i][j] + G[j][i]).scale(mu) + (tr.scale(lam) if i == j else Poly(dim)) for j in range(dim)] for i in range(dim)]
    F = []
    for i in range(dim):
        f = Poly(dim)
        for j in range(dim):
            f = f + S[i][j].d(j)
        F.append(f.scale(-1.0))
    elem = ElementVector(selem)
    kw = {} if intorder is None else {'intorder': intorder}
    fD, fN = split_boundary(m, rng, need_dirichlet=True)
    selD, selN, seldesc = fD, fN, 'index arrays'
    if rng.integers(0, 2):
        m, selD, d1 = overlapping_selector(m, fD, rng, 'd')
        m, selN, d2 = overlapping_selector(m, fN, rng, 'n')
        seldesc = f'Dirichlet: {d1}; Neumann: {d2}'
    basis = Basis(m, elem, **kw)
    A = linear_elasticity(lam_lib, mu_lib).assemble(basis)

    def fvec(x):
        return np.array([F[i](x) for i in range(dim)])

    def uvec(x):
        return np.array([U[i](x) for i in range(dim)])

    def traction(x, n):
        return np.array([sum(S[i][j](x) * n[j] for j in range(dim)) for i in range(dim)])
    b = LinearForm(lambda v, w: dot(fvec(w.x), v)).assemble(basis)
    if len(fN):
        fbN = FacetBasis(m, elem, facets=selN, **kw)
        b = b + LinearForm(lambda v, w: dot(traction(w.x, w.n), v)).assemble(fbN)
    xstar = basis.project(uvec)
    fbD = FacetBasis(m, elem, facets=selD, **kw)
    xD = fbD.project(uvec)
    D = _dofs_of(basis, selD)
    x = solve(*condense(A, b, x=xD, D=D))
    info = {'problem': 'elasticity', 'elem': 'ElementVector(' + type(selem).__name__ + ')', 'deg': deg, 'E': E, 'nu': nu, 'plane_stress': pstress, 'lambda': lam, 'mu': mu,
            'u': [p.describe() for p in U], 'facet_selectors': seldesc, 'dirichlet_facets': fD.tolist(), 'neumann_facets': fN.tolist(), 'N': int(basis.N)}
    return relerr(x, xstar), info


# ------------------------------------------------------------------------------------ projection identities

def patch_sequence(m, selem, deg, rng):
    """several boundary-DOF queries and problems on ONE long-lived basis, in random order; every query must return what
    the same query returns on a fresh basis (no state may leak from one call of get_dofs into the next), and the clamped
    elasticity patch test solved with the long-lived basis must still reproduce the exact solution"""
    from skfem import Basis, FacetBasis, LinearForm, ElementVector, solve, condense
    from skfem.helpers import dot
    from skfem.models.elasticity import linear_elasticity
    dim = m.dim()
    elem = ElementVector(selem)
    basis = Basis(m, elem)
    names = sorted(set(elem.dofnames))
    bf = m.boundary_facets()
    nt = m.t.shape[1]
    steps = [('skip', {'skip': [names[int(rng.integers(0, len(names)))]]}),
             ('all', {}),
             ('skip', {'skip': [names[int(rng.integers(0, len(names)))]]}),
             ('facets', {'facets': np.sort(bf[rng.permutation(len(bf))[:int(rng.integers(1, len(bf) + 1))]])}),
             ('facets+skip', {'facets': np.sort(bf[rng.permutation(len(bf))[:int(rng.integers(1, len(bf) + 1))]]),
                              'skip': [names[int(rng.integers(0, len(names)))]]}),
             ('elements', {'elements': np.sort(rng.permutation(nt)[:int(rng.integers(1, nt + 1))])}),
             ('all', {})]
    order = rng.permutation(len(steps))
    trace, worst = [], 0.0
    lam, mu = 2.0, 1.0
    U = [Poly.random(dim, deg, rng) for _ in range(dim)]
    G = [[U[i].d(j) for j in range(dim)] for i in range(dim)]
    tr = Poly(dim)
    for k in range(dim):
        tr = tr + G[k][k]
    S = [[(G[i][j] + G[j][i]).scale(mu) + (tr.scale(lam) if i == j else Poly(dim)) for j in range(dim)] for i in range(dim)]
    F = []
    for i in range(dim):
        f = Poly(dim)
        for j in range(dim):
            f = f + S[i][j].d(j)
        F.append(f.scale(-1.0))
    A = linear_elasticity(lam, mu).assemble(basis)
    b = LinearForm(lambda v, w: dot(np.array([F[i](w.x) for i in range(dim)]), v)).assemble(basis)
    xstar = basis.project(lambda x: np.array([U[i](x) for i in range(dim)]))
    for s in order:
        kind, kw = steps[s]
        got = np.sort(basis.get_dofs(**kw).flatten())
        ref = np.sort(Basis(m, elem).get_dofs(**kw).flatten())
        desc = kind + (':' + ','.join(kw['skip']) if 'skip' in kw else '')
        trace.append(desc)
        if not np.array_equal(got, ref):
            return 1.0, {'what': 'get_dofs on a long-lived basis differs from the same query on a fresh basis', 'sequence': trace,
                         'elem': 'ElementVector(' + type(selem).__name__ + ')', 'got': got.tolist(), 'fresh': ref.tolist()}
        if kind == 'all':
            x = solve(*condense(A, b, x=xstar, D=basis.get_dofs()))
            worst = max(worst, relerr(x, xstar))
    return worst, {'what': 'sequence of get_dofs queries / clamped patch tests on one basis', 'sequence': trace,
                   'elem': 'ElementVector(' + type(selem).__name__ + ')', 'N': int(basis.N)}


def patch_api_variants(m, elem, deg, rng):
    """the same mixed Poisson patch problem solved through the other public call forms that forward to the core path:
    complement_dofs + condense(I=), enforce, penalize, the Neumann basis from basis.boundary(facets) and the flux from a
    field of fbasis.with_element(elem), zeros()/ones(); every solution against the exact one"""
    from skfem import Basis, FacetBasis, LinearForm, BilinearForm, solve, condense, enforce, penalize
    from skfem.helpers import dot, d as hd
    from skfem.models.poisson import laplace
    dim = m.dim()
    u = Poly.random(dim, deg, rng)
    basis = Basis(m, elem)
    fD, fN = split_boundary(m, rng, need_dirichlet=True)
    A = laplace.assemble(basis)
    lapu = u.lap()
    b = LinearForm(lambda v, w: -lapu(w.x) * v).assemble(basis)
    xstar = basis.project(lambda x: u(x))
    if len(fN):
        fbN = basis.boundary(fN)                                  # CellBasis.boundary -> FacetBasis
        gfield = fbN.with_element(elem).interpolate(xstar)        # FacetBasis.with_element; the exact function as a field
        b = b + LinearForm(lambda v, w: dot(hd(w['uh']), w.n) * v).assemble(fbN, uh=gfield)
    D = basis.get_dofs(facets=fD)
    xD = basis.zeros() + 0.0 * basis.ones()
    xD[D.flatten()] = xstar[D.flatten()]
    out = {}
    out['condense(I=complement_dofs(D))'] = relerr(solve(*condense(A, b, x=xD, I=basis.complement_dofs(D))), xstar)
    out['condense(I=complement_dofs({..}))'] = relerr(solve(*condense(A, b, x=xD, I=basis.complement_dofs({'a': D}))), xstar)
    out['enforce'] = relerr(solve(*enforce(A, b, x=xD, D=D)), xstar)
    out['enforce(I=)'] = relerr(solve(*enforce(A, b, x=xD, I=basis.complement_dofs(D))), xstar)
    pen = relerr(solve(*penalize(A, b, x=xD, D=D)), xstar)
    worst = max(out.values())
    info = {'what': 'patch test through complement_dofs / enforce / penalize / basis.boundary / fbasis.with_element', 'elem': type(elem).__name__,
            'deg': deg, 'u': u.describe(), 'dirichlet_facets': fD.tolist(), 'neumann_facets': fN.tolist(), 'errors': dict(out, penalize=pen)}
    return max(worst, pen * 1e-2), info              # penalize: 1e-6 against the 1e-8 tolerance


def elasticity_alt_form(m, selem, deg, rng):
    """linear elasticity written with helpers.div / d / mul / transpose / identity instead of models.elasticity:
    the assembled matrix must equal the one of models.elasticity.linear_elasticity"""
    from skfem import Basis, BilinearForm, ElementVector
    from skfem.helpers import ddot, div, d as hd, transpose, identity, mul, dot
    from skfem.models.elasticity import linear_elasticity
    lam, mu = float(rng.integers(1, 4)), float(rng.integers(1, 3))
    basis = Basis(m, ElementVector(selem))
    A1 = linear_elasticity(lam, mu).assemble(basis)

    def form(u, v, w):
        eps_u = 0.5 * (hd(u) + transpose(hd(u)))
        eps_v = 0.5 * (hd(v) + transpose(hd(v)))
        sigma = 2.0 * mu * eps_u + lam * div(u) * identity(hd(u))
        return ddot(sigma, eps_v)
    A2 = BilinearForm(form).assemble(basis)
    x = rng.uniform(-1, 1, basis.N)
    err = float(abs(A1 - A2).max()) / max(1.0, float(abs(A1).max()))
    return err, {'what': 'elasticity via helpers.div/d/transpose/identity vs models.elasticity', 'elem': 'ElementVector(' + type(selem).__name__ + ')',
                 'lambda': lam, 'mu': mu}


def legacy_projection(m, elem, lower, rng):
    """the deprecated utils.projection / utils.project wrappers (callable, ndarray with basis_from, diff=, I= / expand=)
    against Basis.project"""
    from skfem import Basis
    from skfem.utils import projection, project
    bt = Basis(m, elem)
    bf = bt.with_element(lower)
    u = Poly.random(m.dim(), 1, rng)
    out = {}
    ref = bt.project(lambda x: u(x))
    out['projection(callable)'] = relerr(projection(lambda x: u(x), basis_to=bt), ref)
    out['project(callable)'] = relerr(project(lambda x: u(x), basis_to=bt), ref)
    x = rng.uniform(-1, 1, bf.N)
    out['projection(ndarray, basis_from)'] = relerr(projection(x, basis_to=bt, basis_from=bf), bt.project(bf.interpolate(x)))
    out['project(ndarray, basis_from)'] = relerr(project(x, basis_from=bf, basis_to=bt), bt.project(bf.interpolate(x)))
    for k in range(m.dim()):
        out[f'projection(diff={k})'] = relerr(projection(x, basis_to=bt, basis_from=bf, diff=k), bt.project(bf.interpolate(x).grad[k]))
    nt = m.t.shape[1]
    sub = np.sort(rng.permutation(nt)[:int(rng.integers(1, nt + 1))])
    bsub = Basis(m, elem, elements=sub)
    I = bsub.get_dofs(elements=sub).flatten()
    y = np.zeros(bt.N)
    y[I] = rng.uniform(-1, 1, len(I))
    zf = projection(bsub.interpolate(y).value * 0 + 0 if False else (lambda xx: 0 * xx[0]), basis_to=bsub, I=I, expand=True)   # zero function: zeros everywhere
    out['projection(I=, expand=True) zero'] = float(np.max(np.abs(zf))) if len(zf) == bt.N else 1.0
    z = projection(lambda xx: u(xx), basis_to=bsub, I=I, expand=True)
    out['projection(I=, expand=True)'] = relerr(z, bsub.project(lambda xx: u(xx)))
    z2 = projection(lambda xx: u(xx), basis_to=bsub, I=I, expand=False)
    out['projection(I=, expand=False)'] = relerr(z2, bsub.project(lambda xx: u(xx))[I]) if len(z2) == len(I) else 1.0
    return max(out.values()), {'what': 'deprecated utils.projection / utils.project', 'elem': type(elem).__name__, 'errors': out}


def projection_whole(m, elem, rng, intorder=None):
    from skfem import Basis
    kw = {} if intorder is None else {'intorder': intorder}
    basis = Basis(m, elem, **kw)
    x = rng.uniform(-1, 1, basis.N)
    y = basis.project(basis.interpolate(x))
    return relerr(y, x), {'what': 'whole mesh', 'elem': type(elem).__name__, 'N': int(basis.N)}


def projection_complex(m, elem, rng):
    from skfem import Basis
    basis = Basis(m, elem)
    x = rng.uniform(-1, 1, basis.N) + 1j * rng.uniform(-1, 1, basis.N)
    y = basis.project(basis.interpolate(x), dtype=np.complex128)
    return relerr(y, x), {'what': 'whole mesh (complex dtype)', 'elem': type(elem).__name__, 'N': int(basis.N)}


def projection_complex_parts(m, elem, rng, boundary=True):
    """complex-valued functions of the space projected with dtype= onto a boundary part (FacetBasis.project, with and
    without facets=) and onto a subdomain (CellBasis.project of a restricted basis and with elements=): both the real and
    the imaginary part must come back"""
    from skfem import Basis, FacetBasis
    whole = Basis(m, elem)
    worst, what = 0.0, []
    nt = m.t.shape[1]
    sub = np.sort(rng.permutation(nt)[:int(rng.integers(1, nt + 1))])
    I = whole.get_dofs(elements=sub).flatten()
    x = np.zeros(whole.N, dtype=complex)
    x[I] = rng.uniform(-1, 1, len(I)) + 1j * rng.uniform(-1, 1, len(I))
    bs = Basis(m, elem, elements=sub)
    for label, y in (('subdomain basis', bs.project(bs.interpolate(x), dtype=np.complex128)),
                     ('elements= argument', whole.project(whole.interpolate(x), elements=sub, dtype=np.complex128))):
        e = relerr(np.asarray(y), x)
        what.append((label, e))
        worst = max(worst, e)
    if boundary:
        bf = m.boundary_facets()
        F = np.sort(bf[rng.permutation(len(bf))[:int(rng.integers(1, len(bf) + 1))]])
        J = whole.get_dofs(facets=F).flatten()
        xb = np.zeros(whole.N, dtype=complex)
        xb[J] = rng.uniform(-1, 1, len(J)) + 1j * rng.uniform(-1, 1, len(J))
        fb = FacetBasis(m, elem, facets=F)
        for label, y in (('boundary basis', fb.project(fb.interpolate(xb), dtype=np.complex128)),
                         ('facets= argument', fb.project(fb.interpolate(xb), facets=F, dtype=np.complex128))):
            e = relerr(np.asarray(y), xb)
            what.append((label, e))
            worst = max(worst, e)
    return worst, {'what': 'complex data with dtype= (' + ', '.join(f'{k}: {v:.1e}' for k, v in what) + ')',
                   'elem': type(elem).__name__, 'cells': sub.tolist(), 'N': int(whole.N)}


def projection_subset_argument(m, elem, rng, facet=False):
    """an ARBITRARY function of the space (not supported on the subset) projected through the subset ARGUMENT of an
    UNRESTRICTED basis: CellBasis over the whole mesh with project(f, elements=S), FacetBasis over the whole boundary with
    project(f, facets=part).  The property: the result is the function on the DOFs of the subset (zero elsewhere)."""
    from skfem import Basis, FacetBasis
    whole = Basis(m, elem)
    x = rng.uniform(-1, 1, whole.N)
    if facet:
        bf = m.boundary_facets()
        k = int(rng.integers(1, max(2, len(bf))))                 # a proper part of the boundary
        F = bf[rng.permutation(len(bf))[:k]]                        # UNSORTED, as np.concatenate of two tags would be
        if rng.integers(0, 3) == 0:
            F = np.concatenate((F, F[:1]))                          # ... and possibly with a repeated index
        fb = FacetBasis(m, elem)                                   # the whole boundary
        I = whole.get_dofs(facets=F).flatten()
        y = fb.project(fb.interpolate(x), facets=F)
        sub = {'facets': F.tolist()}
    else:
        nt = m.t.shape[1]
        k = int(rng.integers(1, max(2, nt)))                       # a proper subset of the cells
        S = rng.permutation(nt)[:k]                                 # UNSORTED index array
        if rng.integers(0, 3) == 0:
            S = np.concatenate((S, S[:1]))                          # ... possibly with a repeated index
        I = whole.get_dofs(elements=S).flatten()
        y = whole.project(whole.interpolate(x), elements=S)
        sub = {'elements': S.tolist()}
    want = np.zeros(whole.N)
    want[I] = x[I]
    return relerr(np.asarray(y), want), dict(sub, what=('boundary part' if facet else 'subdomain') + ' through the subset argument of an unrestricted basis',
                                             elem=type(elem).__name__, N=int(whole.N), x=x.tolist())


def projection_subset_of_restricted(m, elem, rng):
    """project(data, elements=subset) on a basis RESTRICTED to cells listed in NON-ascending order, data given as values at the
    quadrature points of that basis (DiscreteField, and the bare ndarray): the result reproduces the function of the space
    on the DOFs of the subset and is zero elsewhere"""
    from skfem import Basis
    nt = m.t.shape[1]
    k = int(rng.integers(2, nt + 1))
    tind = rng.permutation(nt)[:k]                                # unsorted on purpose
    if np.all(np.diff(tind) > 0):
        tind = tind[::-1].copy()
    whole = Basis(m, elem)
    x = rng.uniform(-1, 1, whole.N)
    ks = int(rng.integers(1, k + 1))
    S = tind[rng.permutation(k)[:ks]]                             # a subset of the basis' cells, any order
    I = whole.get_dofs(elements=S).flatten()
    want = np.zeros(whole.N)
    want[I] = x[I]
    worst, errs = 0.0, {}
    for label, b in (('Basis(elements=unsorted)', Basis(m, elem, elements=tind)), ('with_elements(unsorted)', whole.with_elements(tind))):
        data = b.interpolate(x)
        for form, d in (('DiscreteField', data), ('ndarray', np.asarray(data.value))):
            y = b.project(d, elements=S)
            e = relerr(np.asarray(y), want)
            errs[f'{label}, {form}'] = e
            worst = max(worst, e)
    return worst, {'what': 'project(quadrature-point data, elements=subset) on a basis restricted to an unsorted cell list', 'elem': type(elem).__name__,
                   'basis_cells': tind.tolist(), 'subset': S.tolist(), 'errors': errs, 'N': int(whole.N)}


def projection_subdomain(m, elem, rng, via_argument=False, intorder=None):
    """basis restricted to a cell subset (tind) — or whole basis with project(elements=...) and a function supported on I"""
    from skfem import Basis
    kw = {} if intorder is None else {'intorder': intorder}
    nt = m.t.shape[1]
    k = int(rng.integers(1, nt + 1))
    sub = np.sort(rng.permutation(nt)[:k])
    whole = Basis(m, elem, **kw)
    I = whole.get_dofs(elements=sub).flatten()
    x = np.zeros(whole.N)
    x[I] = rng.uniform(-1, 1, len(I))
    if via_argument:
        y = whole.project(whole.interpolate(x), elements=sub)
    else:
        bs = Basis(m, elem, elements=sub, **kw)
        y = bs.project(bs.interpolate(x))
    return relerr(y, x), {'what': 'subdomain' + (' (elements= argument)' if via_argument else ' (restricted basis)'),
                          'elem': type(elem).__name__, 'cells': sub.tolist(), 'N': int(whole.N)}


def projection_boundary(m, elem, rng, explicit=False, intorder=None, collection=False):
    """explicit: facets given again through project(facets=...); collection: the facet set is named by an overlapping
    collection of tags / index arrays (a facet reachable through two selectors must be integrated once)"""
    from skfem import Basis, FacetBasis
    kw = {} if intorder is None else {'intorder': intorder}
    bf = m.boundary_facets()
    k = int(rng.integers(1, len(bf) + 1))
    F = np.sort(bf[rng.permutation(len(bf))[:k]])
    sel, seldesc = F, 'index array'
    if collection:
        m, sel, seldesc = overlapping_selector(m, F, rng, 'p')
    whole = Basis(m, elem, **kw)
    I = whole.get_dofs(facets=F).flatten()
    x = np.zeros(whole.N)
    x[I] = rng.uniform(-1, 1, len(I))
    fbF = FacetBasis(m, elem, facets=sel, **kw)
    if explicit:
        y = fbF.project(fbF.interpolate(x), facets=sel)
    else:
        y = fbF.project(fbF.interpolate(x))
    # the facets of a collection must be counted once: the boundary measure is that of the plain facet set
    from skfem import Functional
    one = Functional(lambda w: 1.0 + 0.0 * w.x[0])
    meas = abs(float(one.assemble(fbF)) - float(one.assemble(FacetBasis(m, elem, facets=F, **kw))))
    err = max(relerr(y, x), meas / max(1.0, abs(float(one.assemble(FacetBasis(m, elem, facets=F, **kw))))))
    return err, {'what': 'boundary part', 'elem': type(elem).__name__, 'facets': F.tolist(), 'facet_selector': seldesc, 'N': int(whole.N)}


def curved_meshes(rng):
    """second-order meshes with genuinely curved cells"""
    import skfem as s
    out = []
    out.append(('MeshTri2.init_circle', s.MeshTri2.init_circle(nrefs=1), [s.ElementTriP1(), s.ElementTriP2()]))
    mq = s.MeshQuad2.from_mesh(s.MeshQuad().refined(1))
    d = mq.doflocs.copy()
    nv = mq.p.shape[1] if mq.p.shape[1] < d.shape[1] else 9
    d[:, 9:] += rng.uniform(-0.04, 0.04, size=d[:, 9:].shape)         # move edge / cell nodes: curved edges
    mq = s.MeshQuad2(d, mq.t)
    out.append(('MeshQuad2 perturbed', mq, [s.ElementQuad1(), s.ElementQuad2()]))
    out.append(('MeshTet2.init_ball', s.MeshTet2.init_ball(nrefs=1), [s.ElementTetP1(), s.ElementTetP2()]))
    mh = s.MeshHex2.from_mesh(s.MeshHex())
    d = mh.doflocs.copy()
    d[:, 8:] += rng.uniform(-0.04, 0.04, size=d[:, 8:].shape)
    mh = s.MeshHex2(d, mh.t)
    out.append(('MeshHex2 perturbed', mh, [s.ElementHex1(), s.ElementHex2()]))
    return out
