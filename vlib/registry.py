"""Per-property MANIFEST metadata lives in vlib/reg/Cxx.json (keys: text, note, technique, design_ref);
tools/mkmanifest.py turns it into /verif/MANIFEST.json."""
import json
import os

REG = {}
_d = os.path.join(os.path.dirname(os.path.abspath(__file__)), 'reg')
for _f in sorted(os.listdir(_d)):
    if _f.endswith('.json'):
        REG[_f[:-5]] = json.load(open(os.path.join(_d, _f)))
