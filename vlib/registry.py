"""Per-property MANIFEST metadata; tools/mkmanifest.py turns this into /verif/MANIFEST.json."""

REG = {}

REG['C16'] = dict(
    text=("Coq theorems, for every kernel, every local sizes Nu,Nv, every thread count k>=1 (also k>Nu*Nv) and EVERY interleaving "
          "of the workers' kernel invocations: the output array equals the serial loop's, every pair is computed once, write sets "
          "are disjoint. The pair list, split call, worker body, serial loop and join-before-flatten order are re-read from "
          "bilinear_form.py on every run (fail-closed ast translator) and proved equal to the model; numpy.array_split, thread "
          "ownership and forced interleavings of the REAL threaded assembler are corresponded with the model by vm_compute."),
    note=("Trusted: Coq kernel+vm_compute; the ast translator and correspondence harness; CPython/NumPy memory-level safety of "
          "concurrent writes to disjoint slices and the GIL (runtime, not modelled); schedule granularity = one kernel call. "
          "Print Assumptions: closed under the global context for every theorem."),
    technique="Coq proof (permutation-invariance of writes to distinct slots, induction over interleavings) + source-regenerated model + vm_compute correspondence",
    design_ref="DESIGN.md section 5, C16",
)
